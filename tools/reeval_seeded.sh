#!/bin/sh
# re-evaluates every stored seeded change against the current checks (scratch worktrees; /repo is not touched)
# usage: tools/reeval_seeded.sh [pattern]   -> one line per mutant on stdout
cd /verif || exit 2
for d in seeded/${1:-*}/; do
  m=$(basename "$d")
  p=${m%%_*}
  extra=""
  [ "$m" = "C03_m3" ] && extra="C03 C04"
  rm -rf /tmp/ms_$m; cp -r "$d" /tmp/ms_$m
  out=$(timeout 2400 python3 tools/try_mutant.py /tmp/ms_$m "$m" "$p" $extra 2>&1 | tail -1)
  echo "$m $out"
  rm -rf /tmp/ms_$m
done
