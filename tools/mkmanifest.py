#!/usr/bin/env python3
"""Writes /verif/MANIFEST.json from the table below (one source of truth, always schema-shaped)."""
import json, subprocess
from pathlib import Path

V = Path(__file__).resolve().parent.parent
props = [json.loads(l) for l in (V / "properties.jsonl").read_text().splitlines() if l.strip()]

# id -> (category, technique, text, note, design_ref)
CHECKS = {
 "C12": ("model_checking",
         "TLC-enumerated calls with results computed from Relations.tla, executed on the real relations",
         "TLC enumerates every call of set_value_for_assignment / join / projection over ordered scopes of up to 3 small-domain variables "
         "and a cost alphabet with negative, fractional and > 2^31 values, computes the result from the definitions in Relations.tla, "
         "and each case is executed on the real functions and compared entry by entry (bounded-exhaustive inputs, no schedule involved).",
         "Trusted: TLC's evaluation of Relations.tla/Costs.tla, the index->value mapping of vlib/cases.py, exactness of float arithmetic on the alphabet.",
         "DESIGN.md section 4 C12"),
}
_T = ("trace validation by TLC (AlgoMon.tla) of executions of the real computations under seeded FIFO schedules, "
      "on TLC-generated instances (Gen_Dcop.tla)")
_TM = ("TLC model checking of Mgm.tla and Mgm2.tla (implementation-shaped models of MgmComputation and Mgm2Computation: every start order, per-channel-FIFO delivery order "
       "and random draw on TLC-drawn instances) with replay of every explored transition on the real computations (full local-state "
       "comparison), the same with Dsa.tla for DsaComputation where DSA is in the property's scope; ") + _T + "; Judge_Hist.tla on the real computations' own reachable graph when they leave the model"
_N = ("Trusted: TLC's evaluation of AlgoMon.tla/Dcop.tla, vlib/simrt.py (message plumbing only; its FIFO discipline is re-validated "
      "by AlgoMon's network clauses). Schedules are sampled (seeded, four policies), not exhausted, at this level.")
CHECKS["C03"] = ("model_checking", _TM,
    "Whole executions of the real MGM and MGM2 computations (min/max, with and without own-value costs, binary/ternary/parallel/unary "
    "constraints) are recorded and judged by TLC against AlgoMon.tla: at every instant where all computations completed the same "
    "number of cycles the global cost (Dcop.tla) must not be worse than at the previous such instant, and two constraint-sharing "
    "variables may both have changed only if an accepted MGM2 offer between them was delivered in that cycle. For MGM, Mgm.tla is "
    "checked exhaustively (invariants CostMonotone, MoveAlone over the cycle-boundary history of CycleHist.tla) and bound to the code by replay.", _N, "DESIGN.md section 4 C03")
CHECKS["C04"] = ("model_checking", _TM,
    "Same executions as C03; whenever two consecutive equal-cycle snapshots are identical TLC evaluates OneOpt (Dcop.tla) on the assignment. For MGM, Mgm.tla is checked exhaustively "
    "(invariant StagnationIsOneOpt) and bound to the code by replay.",
    _N, "DESIGN.md section 4 C04")
CHECKS["C07"] = ("model_checking", _TM,
    "Executions of the real MGM, MGM2 and DSA (variants A, B, C) computations with stop_cycle k in {1,2,3,5} on shapes including isolated "
    "variables and n-ary constraints; TLC checks: no handler raised, quiescence implies every computation reported finished, and each "
    "finished report happens at cycle k (or at start for a computation without neighbour). For MGM, Mgm.tla is checked exhaustively "
    "(FinishedAtStop, QuietMeansFinished, no deadlock before the end) and bound to the code by replay.", _N, "DESIGN.md section 4 C07")
CHECKS["C01"] = ("model_checking", "TLC model checking of Dpop.tla (implementation-shaped model of DpopAlgo on the real pseudo-tree: every start and delivery order) with replay of every explored transition on the real computations; " + _T,
    "Executions of the real DPOP computations on the real pseudo-tree, for TLC-generated DCOPs (chains, stars, cycles, n-ary/unary/parallel constraints, "
    "isolated variables, several components; own-value costs; min and max), by reference and through the JSON wire format; TLC checks that quiescence implies "
    "all finished and that the assignment at all-finished is complete and has cost Dcop!Opt.", _N, "DESIGN.md section 4 C01")
CHECKS["C02"] = ("model_checking", "TLC model checking of SyncBB.tla (implementation-shaped model of SyncBBComputation on the chain of the real ordered graph: get_next_assignment, the last variable's sweep, forward / backward / terminate handlers, pre-start buffering; every start and delivery order) with replay of every explored transition on the real computations; the model's counterexample on signed costs replayed on the real computations regenerates the known finding; " + _T,
    "SyncBB.tla is checked over TLC-drawn binary instances (invariants QuietMeansFinished, TerminatedMeansOptimal, FirstFinishesFirst, SingleToken, BoundIsACost, PathsWellFormed, ValueInDomain) and bound by replay (bounds, values, cycle counts, path triples of every message compared). Executions of the real SyncBB computations on the real ordered graph for TLC-generated binary DCOPs (non-negative and signed costs, min and max, "
    "variables without constraint); at quiescence every computation has finished and the held values have cost Dcop!Opt.", _N, "DESIGN.md section 4 C02")
CHECKS["C05"] = ("model_checking", _T,
    "Executions of the real maxsum (synchronous, run for 3*|nodes|+10 rounds) and amaxsum (to quiescence) computations with damping 0, noise 0 (default stability) on "
    "tree-shaped factor graphs whose optimum TLC found to be unique, with dyadic cost tables and with near-tie tables (differences far below the 10% stability); the "
    "assignment selected at the end must be that optimum.", _N, "DESIGN.md section 4 C05")
CHECKS["C09"] = ("model_checking", "TLC model checking of Dba.tla (implementation-shaped model of DbaComputation: wait-ok / wait-improve modes, constraint weights, breakout, termination counter, end flood, postponed lists; every start order, FIFO delivery order and random draw up to a bounded number of rounds) with replay of every explored transition on the real computations; " + _T,
    "Dba.tla is checked on TLC-drawn CSPs with max_distance = diameter (thorough: + 1) (invariants FinishedOnlyOnSolution, CounterBounded, WeightsPositive, AtMostOnePostponed, NeighbourSkew, ValueInDomain) and bound by replay (whole local state and every message compared). Executions of the real DBA computations on TLC-generated CSPs (tables over {0, infinity}); at every step where a computation reports finished TLC evaluates "
    "all constraints on the values held by all computations.", _N, "DESIGN.md section 4 C09")
CHECKS["C10"] = ("exploration", _T,
    "Executions of all shipped algorithms (18 algorithm/parameter configurations) with every value_selection call and every current_value logged as a domain "
    "index; TLC checks membership at every step.", _N, "DESIGN.md section 4 C10")
CHECKS["C06"] = ("model_checking",
    "TLC-enumerated calls with results computed from Relations.tla (helpers); TLC trace validation (AlgoMon.tla) of real DSA / A-DSA executions (moves); TLC model checking of Dsa.tla (all schedules and draws) with replay of every transition on the real DsaComputation, and of Adsa.tla (A-DSA: starts, timer firings and deliveries in every order, bounded number of ticks) with replay on the real ADsaComputation",
    "Part 1: TLC enumerates calls of find_optimal / find_arg_optimal / optimal_cost_value / projection over the cost algebra of Costs.tla (negative, > 2^31, "
    "+inf, -inf; own-cost dict and function variables; min and max) with the exact optimal value sets and costs; each is executed on the real functions. "
    "Part 2: executions of the real DSA (A, B, C) and A-DSA computations; at every change of value TLC checks that the new value is in ArgBestLocal computed "
    "from the value messages of that evaluation. Part 3: Dsa.tla (invariant MovesAreBestResponses) checked exhaustively on TLC-drawn instances and bound to the code by replay. Part 4: the same with Adsa.tla for A-DSA (variants A, B, C; periodic actions as steps; up to 2 ticks per computation).", _N, "DESIGN.md section 4 C06")
CHECKS["C11"] = ("model_checking",
    "TLC-enumerated relations x slicing walks with the expected slices (Gen_C11.tla/Relations.tla), executed on the real relation classes per PYTHONHASHSEED",
    "TLC enumerates relations of all eight kinds over ordered scopes (every declared order x textual/parameter order for expression and python-function "
    "relations; conditional relations with shared variables) and every slicing walk of up to 2 (quick) / 3 steps; after every step the real relation must have "
    "exactly the remaining variables as dimensions and agree with Slice(R, fixed) on every completion through keyword, positional and dict calls; the batch is "
    "run in one sub-process per PYTHONHASHSEED (3 quick / 6 thorough).",
    "Trusted: TLC's evaluation of Relations.tla/Gen_C11.tla, the construction of the real relations in vlib/props/C11_worker.py.", "DESIGN.md section 4 C11")

_NC = "Trusted: TLC's evaluation of the named specification modules and the case -> object construction in the property's vlib/props module. Inputs are bounded as stated; no schedule is involved."
CHECKS["C13"] = ("model_checking",
    "TLC-enumerated DCOPs, assignments and calls with results computed from Dcop.tla (SolutionCost, AssignmentCost), executed on the real functions",
    "TLC (Gen_C13 over Gen_Dcop/Dcop.tla) enumerates DCOPs with hard (infinity-valued, also above infinity) and soft terms, own-value costs, at most one external "
    "variable, every subset of assigned variables and assignments, with the expected (hard count, soft sum) pair or ValueError, and assignment_cost over every "
    "subset of constraints with/without variable costs; each case is executed on DCOP.solution_cost / relations.assignment_cost (exhaustive tables for the "
    "1-2 variable shapes, TLC-drawn tables for n-ary / parallel / multi-component shapes).", _NC, "DESIGN.md section 4 C13")
CHECKS["C28"] = ("model_checking",
    "TLC-enumerated user inputs over the real algo_params tables with results computed from Params.tla, executed through three entry points",
    "The real parameter tables of all shipped algorithms (read from the modules, passed to TLC as a constant) plus a synthetic table; TLC enumerates every subset "
    "of parameters x value kinds (typed, numeric strings, invalid strings, out-of-list, ill-typed) x undeclared parameter and computes Params!Prepare; each case "
    "is run through prepare_algo_params, AlgorithmDef.build_with_default_param and build_algo_def ('name:value' strings) with type-exact comparison.",
    _NC, "DESIGN.md section 4 C28")
CHECKS["C29"] = ("model_checking",
    "TLC-enumerated batch parameter definitions with their expansion as a set (Batch.tla), executed on the real functions per PYTHONHASHSEED",
    "TLC enumerates parameter definitions (1-3 quick / 1-4 thorough parameters; lists, scalars, nested dicts) with Batch!Combos and Batch!Tokens; the real "
    "regularize_parameters + parameters_configuration must return that set without duplicates, identically on a second expansion and under 3-5 PYTHONHASHSEED "
    "values (one sub-process each); build_option_for_parameters of each combination must split into exactly the expected tokens.", _NC, "DESIGN.md section 4 C29")
CHECKS["C31"] = ("model_checking",
    "TLC-enumerated agent definitions and create_agents calls with the observations defined by AgentDefs.tla, executed on the real classes",
    "TLC enumerates every argument combination (default route, partial route tables, default hosting cost, partial hosting tables, extra attributes) for "
    "individually built agents and for create_agents over list / range (zero padded) / tuple-of-lists indexes, with AgentDefs!Obs; the real objects are "
    "observed through route(), hosting_cost(), the default accessors, getattr and extra_attr().", _NC, "DESIGN.md section 4 C31")

CHECKS["C16"] = ("model_checking",
    "TLC-enumerated DCOP structures with the graphs defined by Graphs.tla, compared node by node with the real graph builders",
    "TLC (Gen_C16) enumerates every multiset of at most 3 constraints of arity 1-3 over 1-4 variables (isolated variables, unary, parallel, n-ary) and samples "
    "8-variable structures, printing HyperGraph / FactorGraph / OrderedGraph of Graphs.tla; the real constraints_hypergraph, factor_graph and ordered_graph "
    "build_computation_graph (both call forms, both insertion orders, matrix and expression constraints, names whose lexical order differs from numeric order) "
    "are compared on nodes, constraints, neighbours, links and next/previous chain.", _NC, "DESIGN.md section 4 C16")
CHECKS["C17"] = ("model_checking",
    "real pseudo-trees judged by TLC against Graphs!PTBad (full definition) / Graphs!PTBadCert (DFS-number certificate) on TLC-enumerated and scale-family inputs",
    "The real pseudotree.build_computation_graph is run on every structure of Gen_C16 (exhaustive up to 4 (quick) / 5 variables, sampled up to 12) and on scale "
    "families (chains, stars, sparse random graphs up to 1200 (quick) / 3000 variables, forests with isolated variables and ternary constraints, cliques); "
    "TLC judges each output: one node per variable, parent/children and pseudo links mutually consistent, acyclic, pseudo-parents are proper ancestors, every "
    "constraint-sharing pair directly linked, links only along constraints, node constraints exact; an exception is a violation.",
    "Trusted: TLC's evaluation of Graphs.tla, the projection through get_dfs_relations and the DFS numbering of the certificate form in vlib/props/C17.py. "
    "Model-checking level for <= 5 variables (exhaustive inputs), exploration beyond.", "DESIGN.md section 4 C17")

CHECKS["C19"] = ("model_checking",
    "TLC model checking of Lifecycle.tla (all histories), replay of every explored transition on the real Agent + MessagePassingComputation with projection comparison, TLC judging of the observed histories (Judge_C19 / Orders.tla)",
    "Lifecycle.tla models MessagePassingComputation.start/pause/on_message/post_msg and the agent's priority queue (re-injection at priority 19); TLC explores all "
    "histories of receptions, posts, start, pause, resume and agent loop iterations up to 3 (quick) / 4 received and 2 posted messages and checks: handled once, in "
    "reception order, nothing lost, posts sent once in posting order, resume flushes both buffers. Every explored transition is replayed on a real computation hosted "
    "on a real Agent (thread not started) and the real state (flags, both buffers, queue content with priorities, handled, sent) compared after every step; the "
    "observed histories, 300 (quick) / 3000 longer random histories driven to quiescence and 40 / 400 histories handled by the REAL Agent._run on the agent's own "
    "thread (the loop is held inside a handler while the start / resume order and newer messages are queued together) are judged by TLC.",
    "Trusted: TLC, vlib/agentrt.py (the statements of Agent._run's loop body, executed by the harness instead of the agent thread, for the model-driven part), the "
    "recording wrappers of vlib/props/C19.py. One known finding (order lost when a computation is paused again while re-injected messages are still queued).", "DESIGN.md section 4 C19")

CHECKS["C18"] = ("model_checking",
    "TLC model checking of Messaging.tla (all interleavings of the steps of concurrent post_msg calls, registration, agent loop, shutdown), replay of the explored transitions on the real Agent/Messaging with real posting threads advanced one yield point at a time, TLC judging of the observed histories (Judge_C18)",
    "Messaging.tla splits post_msg into its pre-emptible steps (shutdown check, discovery lookup, counter+put, subscription, deferral with second lookup) for two "
    "posting threads running scripts of 2-3 posts (types 5/10/20, a registered and a late destination) and interleaves them with the registration of the late "
    "computation (three steps: recorded, callback-table test, callbacks under the deferred-list lock), agent loop iterations, clean shutdown and loop exit; TLC checks handled-once, priority, per-sender FIFO, nothing lost, no stuck deferral, shutdown "
    "drains. The transitions TLC explored (quick: 550 seeded covering paths per script set; thorough: all) and 120 / 1200 random walks of the model's graph "
    "per script set are replayed on a real Agent with real threads parked at wrapped callables (discovery lookup, clock read before the counter increment, "
    "subscription, lock acquisition, the registration's callback-table test), the real state compared after every step; when the code leaves the model the rest "
    "of the path is still applied as a schedule; every delivery is recorded and the resulting histories judged by TLC.",
    "Trusted: TLC, vlib/stepthreads.py; vlib/agentrt.py for the half of the paths where the loop body is executed by the harness (the other half runs the REAL "
    "Agent._run thread, parked at Messaging.next_msg and at the end of each iteration). The counter increment and the queue put are one model step (the order is "
    "decided by the counter). A few free-running executions (real concurrent posting threads) are judged as well.", "DESIGN.md section 4 C18")

CHECKS["C08"] = ("model_checking",
    "TLC model checking of SyncRounds.tla (all FIFO interleavings, start orders and per-round subsets of written neighbours), replay of the explored transitions on real probe computations built on SynchronousComputationMixin, TLC judging (Judge_C08) of probe, Max-Sum and DSA-tuto executions",
    "SyncRounds.tla models the mixin's cycle bookkeeping (_current_cycle, _cycle_messages, _next_cycle_messages, implicit synchronisation messages, messages received before "
    "start and their re-injection) for an arbitrary synchronous algorithm that writes to a nondeterministic subset of its neighbours each round; TLC checks: no sync error, "
    "on_new_cycle called with consecutive ids and exactly the algorithm messages of the round, neighbour skew <= 1, boxes consistent, no deadlock, on graphs single / pair / "
    "pair+isolated / path3 / triangle (thorough: star4) with 1-3 rounds. The explored transitions of the smaller configurations are replayed on real probe computations "
    "(both sending styles) with full state comparison; random 4-round probe executions and real Max-Sum / DSA-tuto executions (3 rounds, seeded schedules incl. lagging "
    "computations) are judged by TLC.",
    "Trusted: TLC, the channel plumbing of vlib/props/C08.py and vlib/simrt.py. NCBB is not exercised (its pinned tests fail in this environment; it uses the same mixin).",
    "DESIGN.md section 4 C08")

CHECKS["C20"] = ("model_checking",
    "DiscoveryProtocol.tla (message-level model of discovery - computations, replicas, agent subscriptions, departures and returns: client API calls, directory and client handlers, FIFO channels) model-checked "
    "exhaustively and every explored transition replayed on the real Discovery / Directory objects with full state comparison; TLC-enumerated histories of discovery "
    "operations (Gen_C20 over Discovery.tla: computations, replicas, agent subscriptions and departures) executed on real agents with imposed delivery orders, "
    "convergence judged by TLC (Judge_C20)",
    "Discovery.tla specifies, from the operations alone, who hosts what, who left and who is subscribed to what; TLC enumerates every history of at most 3 (quick) / 4 "
    "computation / replica operations (2 agents, 2 computations) interleaved with single-message deliveries on the agent<->directory channels, every history of at most "
    "4 / 5 on one computation, every history of at most 4 with agent subscriptions and departures, every history of at most 6 operations / drains by three agents (replica "
    "families; the quick tier executes seeded samples of the last two), and simulates histories of 10; each is executed on real agents (threads not started, inter-agent "
    "messages held in per-pair FIFO channels; drained in a seeded random order and in two fixed priority orders); at each drain point TLC checks that every computation, "
    "replica and agent view the agent is still subscribed to equals the directory's table, that no discovery handler raised and that each change of a callback-subscribed "
    "item fired a callback. DiscoveryProtocol.tla gives the mechanism: one action per API call / handler invocation over the real data (views, callback entries incl. the "
    "empty entry one-shot callbacks leave behind, directory tables, channel contents); the invariants that hold are checked in every state (directory right when "
    "publications arrive in order, views converge for subscriptions never dropped, subscribed agents known to the directory), every transition (quick: 1 computation, 3 API "
    "calls with replicas, 3 with agent operations; thorough: 5 / 6 / 4, and 2 computations x 3 / 4) is replayed on the real objects; the statement itself is violated in the model, and TLC's counterexamples, executed on the "
    "real objects, must end in the model's final state and be judged as (known) violations.",
    "Trusted: TLC, vlib/agentrt.py, the channel interception in vlib/props/C20.py. An agent that left may register again with the same address; its own views are no "
    "longer compared. subscribe_all_agents is not modelled.", "DESIGN.md section 4 C20")

CHECKS["C21"] = ("exploration",
    "thread identity of every computation callback recorded in real-thread orchestrated runs (vlib/threadrt.py) and judged by TLC (Judge_C21)",
    "Real-thread solves (run_local_thread_dcop + deploy + run, as the solve command) of TLC-generated DCOPs with dpop, dsa, mgm, mgm2, maxsum, adsa under "
    "oneagent and random distributions and a perturbed switch interval; every start / on_message / pause of every computation added to an agent, every periodic "
    "action and every discovery callback registered from a computation callback is recorded with its thread; TLC checks that each runs on the hosting agent's "
    "own thread and that no agent has callbacks active on two threads at once.",
    "Trusted: TLC, vlib/threadrt.py (class-level wrappers installed from the harness). Thread schedules are those the OS produces: exploration level.",
    "DESIGN.md section 4 C21")
CHECKS["C22"] = ("model_checking",
    "orchestrated DPOP solves of TLC-generated DCOPs through the real Orchestrator/OrchestratedAgents (deterministic agent-step runtime with seeded interleavings, plus real threads), outcome judged by TLC against Dcop.tla (Judge_C22); TLC model checking of Orchestration.tla (the orchestration protocol at event level) and validation of every run's event trace against it (Judge_Orch)",
    "TLC (Gen_Dcop) draws DCOPs over 17 shapes with their optimum; each is solved with DPOP through the real orchestrator under oneagent / adhoc / gh_cgdp / random valid "
    "distributions on 1-3 agents, in vlib/orchrt.py (real objects, threads not started, seeded random interleaving of agent loop iterations through registration, "
    "deployment, run, value collection, end-of-computation and stop) and in real-thread runs with perturbed switch interval; TLC checks status OK (not TIMEOUT, not "
    "stuck), every computation reported its end, complete assignment, cost = Dcop!Opt, reported (violation, cost) = Dcop!SolutionCost.",
    "Trusted: TLC (Dcop.tla), vlib/orchrt.py and vlib/agentrt.py for the simulated runs. Interleavings are sampled (seeded), not exhausted; there is no behavioural "
    "TLA+ model of the orchestration protocol yet (DESIGN.md section 5).", "DESIGN.md section 4 C22")

CHECKS["C26"] = ("model_checking",
    "TLC-drawn discovery states x all departed sets with the repair information and constraint value tables defined by RepairInfo.tla, executed on the real reparation functions",
    "TLC (Gen_C26) draws discovery states (host map, replica sets, computation graph) over 3-4 (quick) / up to 5 agents and 3-4 computations, enumerates every non-trivial set "
    "of departed agents and prints orphaned computations, candidate agents, the per-candidate info triples and the value of each of the four repair constraints on every 0/1 "
    "assignment of its scope; the real _removal_* functions run on a real Discovery object with that state and the real create_*_constraint relations (variables built as "
    "ResilientAgent.setup_repair builds them) are evaluated on every assignment.", _NC, "DESIGN.md section 4 C26")

CHECKS["C25"] = ("model_checking",
    "TLC model checking of Ucs.tla (message-level model of the distributed uniform-cost search of dist_ucs_hostingcosts: every interleaving of replicate() calls and FIFO deliveries; termination, capacity rule, placement conditions, single token per computation) with replay of every explored transition on real UCSReplication objects and Judge_C25 on their message-level executions; TLC-drawn deployments replicated on real ResilientAgents through the real Orchestrator (deterministic agent-step runtime, seeded interleavings); outcome and every acceptance judged by TLC against Replication.tla (Judge_C25)",
    "TLC draws the DCOP (Gen_Dcop, 9 shapes) and the deployment (Gen_C25: capacities from tight to ample, symmetric route costs, hosting costs, placement, k in 1..3) for 3-4 "
    "(quick) / 3-6 agents sharing one process; the DSA computations are deployed through the real orchestrator and replicated with dist_ucs_hostingcosts under seeded "
    "interleavings of agent loop iterations; every _accept_replica call is recorded with what the agent held; TLC checks: all agents report done, hosts distinct, not the "
    "owner, at most k, recorded in the directory and actually held, and each acceptance satisfies remaining capacity >= footprint + worst case for k-1 owners. "
    "With 4 agents or more the first run of each deployment goes on: the agent holding replicas of the most owners is stopped (no repair), and the acceptances of "
    "the re-replication it triggers are judged by the same rule.",
    "Trusted: TLC (Replication.tla), vlib/orchrt.py + vlib/agentrt.py, the recorder around _accept_replica. Agent-level interleavings are sampled; the UCS search itself (budgets, "
    "paths tables) is modelled step by step in Ucs.tla and explored exhaustively for 3 (thorough: 4) agents; a departure in mid-placement is not modelled.", "DESIGN.md section 4 C25 and Part II")

CHECKS["C27"] = ("model_checking",
    "whole resilient runs on real objects (deploy, replicate, run, scenario removal event, MGM2 repair DCOP) in the deterministic orchestrated runtime with seeded interleavings; the state after the repair judged by TLC against Repair.tla (Judge_C27)",
    "TLC draws the DCOP (Gen_Dcop) and the deployment (Gen_C25, ample capacities, k in {1,2}); the DSA computations are deployed on real ResilientAgents through the real "
    "orchestrator, replicated, started, then every set of at most k agents (quick: 3 drawn sets) is removed by a scenario event, before the algorithm starts or after 40 / 200 "
    "agent steps, and in every other run a second event removes up to k of the survivors 100 / 400 agent steps after the first repair; each repair (candidate info, repair DCOP with MGM2, activation of replicas, repair_ready / repair_done barriers) runs under a seeded interleaving of agent "
    "loop iterations; TLC checks: the repair completes, every original computation is actually hosted by exactly one surviving agent and the directory names that agent, "
    "a re-hosted computation went to a holder of its replica, untouched computations stayed, status OK only then, and no handler raised.",
    "Trusted: TLC (Repair.tla, RepairProtocol.tla), vlib/orchrt.py + vlib/agentrt.py, vlib/orchproto.py (event recorder). Interleavings are sampled; real-thread repairs are not run.", "DESIGN.md section 4 C27")

CHECKS["C23"] = ("model_checking",
    "outcomes of the real distribution methods on TLC-drawn DCOPs and agent sets judged by TLC against Distribution.tla (Judge_C23)",
    "TLC draws DCOPs (Gen_Dcop, 8 shapes, built as constraints hyper-graph, factor graph and pseudo-tree) and agent sets (Gen_C25: 2-3 quick / 1-4 agents, capacities from "
    "too small to ample, hosting costs with default 0 or 4, symmetric routes), with and without a must_host hint; oneagent, adhoc, gh_cgdp, heur_comhost, ilp_compref, "
    "oilp_cgdp and ilp_fgdp are called through their API on the graph models they support with the algorithm's own footprint / load functions; TLC checks that a returned "
    "mapping hosts every computation exactly once on declared agents, honours the hint and (capacity-aware methods) the capacities; ImpossibleDistributionException and "
    "TimeoutError are accepted, any other exception is a violation.",
    "Trusted: TLC (Distribution.tla); the ILP models are solved by PuLP's CBC (glpsol is absent; the harness replaces the module attribute GLPK_CMD). The distribute "
    "command line and the SECP-specific methods are not exercised. Three known findings (hints ignored by all methods but adhoc; hosting cost 0 as pin in gh_cgdp / ilp_fgdp).",
    "DESIGN.md section 4 C23")

CHECKS["C24"] = ("model_checking",
    "results of oilp_cgdp and ilp_fgdp on TLC-drawn tiny instances compared by TLC with the minimum of the method's cost model over all feasible mappings (Judge_C24)",
    "TLC draws tiny DCOPs (Gen_Dcop, 6 shapes, as constraints hyper-graph and factor graph) and agent sets (Gen_C25: 2 (quick) / 2-3 agents, capacities tight to ample, "
    "hosting costs over a non-zero default with and without explicit zeros that pin computations, routes); the real methods run with PuLP's CBC; for every result TLC "
    "enumerates all |agents|^|computations| mappings, keeps those satisfying the method's hard rules (capacity, hosted once, zero-cost pinning, ilp_fgdp: every agent hosts "
    "something) and checks that the result is feasible and of minimal cost, that 'impossible' is only declared when no mapping is feasible, and that the method's own "
    "distribution_cost equals the cost model on its result.",
    "Trusted: TLC (Judge_C24), CBC solving the models to optimality, the numeric tables read through the methods' own helper functions.", "DESIGN.md section 4 C24")

CHECKS["C14"] = ("exploration",
    "TLC-drawn DCOPs and agent sets dumped to YAML and loaded back by every route (string, one file, several files); the loaded DCOP judged by TLC against the generated one (Judge_C14 / Wire.tla)",
    "TLC draws DCOPs (Gen_Dcop: 14 shapes, tables incl. negative and large costs, initial values, min/max) and agent sets (Gen_C25); the DCOP is built with int and str "
    "domains shared between variables, extensional (matrix) and intentional (expression) constraints, agents with capacities, partial symmetric route tables and "
    "default/specific hosting costs; dcop_yaml output is loaded from the string, from one file (name as str) and split over 2 and 3 files; TLC compares variables, domain "
    "values with their types, initial values, each constraint's value on every assignment (against TLC's own table), objective, capacities, route and hosting costs "
    "including the defaults.",
    "Trusted: TLC (Wire.tla), the construction / observation code of vlib/props/C14.py. The specification contributes the inputs and the definition of equivalence "
    "(thin use, DESIGN.md section 5). Cost-function variables, external variables and distribution hints are not dumped by dcop_yaml and are not generated.",
    "DESIGN.md section 4 C14")

CHECKS["C15"] = ("exploration",
    "objects collected from real executions (messages of 11 algorithms, of whole resilient orchestrated runs; computation definitions of the four graph models; agent definitions) passed through the real wire encoding / pickle; their observation before and after judged equal by TLC (Judge_C15 / Wire.tla)",
    "For TLC-drawn DCOPs: the ComputationDef of every node of the constraints hyper-graph, factor graph, pseudo-tree and ordered graph; a sample of each message type sent in real "
    "executions of dpop, syncbb, mgm, mgm2, dsa, adsa, dsatuto, dba, gdba, maxsum, amaxsum and in orchestrated runs with replication, agent removal and repair (deploy, run, "
    "value_change, discovery, ucs_replicate, setup_repair ...); AgentDef objects through pickle. Each goes through simple_repr -> json.dumps -> json.loads -> from_repr (what the "
    "HTTP transport does); the observation (all fields recursively, links with types and ends, relation values on every assignment, variable costs, derived accessors) is a set "
    "of facts that TLC compares. The evidence lists the message types of the package that were not exercised.",
    "Trusted: TLC (set equality), the observation function of vlib/props/C15.py. Thin use of the specification (DESIGN.md section 5). Sockets are not used.",
    "DESIGN.md section 4 C15")

CHECKS["C30"] = ("exploration",
    "TLC-enumerated generator arguments (Gen_C30); outputs of the real generators judged by TLC against Generators.tla (Judge_C30)",
    "Graph colouring: graph kind x sizes x colours x hard/soft x extensive/intentional x edge parameters x allow_subgraph x seeds, run through the command's generate(args) "
    "with an output file that is loaded back, compared with the graph the generator built (captured from the harness): requested variables and colours, exactly one "
    "constraint per edge, hard constraints are inequalities, soft costs in range. Ising: grids 2..4 x 2..4, intentional and extensive forms generated with the same seed "
    "must agree on every assignment, variable and factor-graph distributions host each computation exactly once. Scenario: each event removes the requested number of "
    "distinct agents never removed before.",
    "Trusted: TLC (Generators.tla), the graph capture and YAML re-loading in vlib/props/C30.py. Thin use of the specification (inputs and well-formedness predicates).",
    "DESIGN.md section 4 C30")
NOT_YET = "check not built yet in this snapshot (work in progress, see DESIGN.md section 9)"

fix_commits = subprocess.run(["git", "-C", "/repo", "log", "--format=%h %s", "aeaae91..HEAD"], capture_output=True, text=True).stdout.splitlines()
hook_commits = [l.split()[0] for l in fix_commits if l.split(" ", 1)[1].startswith("hook:")]

m = {
 "version": 1,
 "setup_cmd": "./tools/setup.sh",
 "hooks": {"guard": "PYDCOP_VERIF", "enable": "no build step: checks import pydcop from /repo's working tree and set PYDCOP_VERIF=1; all instrumentation is attribute replacement from the harness",
           "baseline_off_cmd": "cd /repo && env -u PYDCOP_VERIF /venv/bin/python -m pytest -ra -q -p no:cacheprovider --timeout=900 --continue-on-collection-errors",
           "source_commits": hook_commits, "add_only": True},
 "engines": [{"name": "tlc", "path": "/opt/veriftools/tla/tla2tools.jar", "serves_properties": sorted(CHECKS),
              "kind_free_text": "TLA+ specification in /verif/spec checked/evaluated by TLC; Python harness in /verif/vlib binds it to the real code"}],
 "checks": [], "not_applicable": [],
 "notes": "Model-based verification with an explicit TLA+ specification (spec/), see DESIGN.md. ./check <id> --tier quick|thorough. Exit 2 = machinery failure, never a violation.",
}
for p in props:
    i = p["id"]
    if i in CHECKS:
        cat, tech, text, note, ref = CHECKS[i]
        m["checks"].append({"property_id": i, "quick_cmd": "./check %s --tier quick" % i,
                            "thorough_cmd": "./check %s --tier thorough" % i,
                            "evidence_file": "/verif/evidence/%s.json" % i,
                            "replay_cmd_template": "./check %s --replay {path}" % i, "engine": "tlc",
                            "level_claimed": {"category": cat, "text": text, "design_ref": ref},
                            "level_note": note, "technique": tech})
    else:
        m["not_applicable"].append({"property_id": i, "reason": NOT_YET})
(V / "MANIFEST.json").write_text(json.dumps(m, indent=1) + "\n")
print("checks:", len(m["checks"]), "not_applicable:", len(m["not_applicable"]))
