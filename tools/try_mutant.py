#!/usr/bin/env python3
"""Confirm a seeded change and run the checks against it.
usage: try_mutant.py <mutant dir with patch.diff demo.py notes.md> <seeded id> <property> [<check> ...]
 1. fresh scratch worktree of /repo HEAD: demo passes; patch applies; demo fails
 2. patch applied to /repo: run ./check <prop> --tier quick for each check; undo
 3. store under /verif/seeded/<id>/ with meta.json"""
import json, os, shutil, subprocess, sys, time
src, sid, prop = sys.argv[1], sys.argv[2], sys.argv[3]
checks = sys.argv[4:] or [prop]
V = "/verif"
wt = "/tmp/mv_%s" % sid
def sh(cmd, **kw):
    return subprocess.run(cmd, shell=True, capture_output=True, text=True, **kw)
sh("git -C /repo worktree remove --force %s" % wt)
assert sh("git -C /repo worktree add -q --detach %s HEAD" % wt).returncode == 0
meta = {"property": prop, "source": src}
try:
    env = dict(os.environ, PYTHONPATH=wt, PYTHONHASHSEED="0")
    r0 = subprocess.run(["timeout", "300", "/venv/bin/python", os.path.join(src, "demo.py")], capture_output=True, text=True, env=env, cwd=wt)
    ap = sh("git -C %s apply %s/patch.diff" % (wt, src))
    if ap.returncode != 0:
        print("PATCH DOES NOT APPLY:", ap.stderr[:300]); meta["applies"] = False
        sys.exit(3)
    r1 = subprocess.run(["timeout", "300", "/venv/bin/python", os.path.join(src, "demo.py")], capture_output=True, text=True, env=env, cwd=wt)
    meta["demo_clean_rc"], meta["demo_patched_rc"] = r0.returncode, r1.returncode
    meta["demo_patched_out"] = (r1.stdout + r1.stderr)[-400:]
    print("demo clean rc=%d patched rc=%d" % (r0.returncode, r1.returncode))
finally:
    sh("git -C /repo worktree remove --force %s" % wt)
# the checks run against a scratch worktree of /repo HEAD with the patch applied (VERIF_REPO), their evidence and replay files
# go to a scratch directory (VERIF_OUT): /repo and /verif/evidence are not touched
wt2 = "/tmp/mvc_%s" % sid
out2 = "/tmp/mvo_%s" % sid
sh("git -C /repo worktree remove --force %s" % wt2)
assert sh("git -C /repo worktree add -q --detach %s HEAD" % wt2).returncode == 0
ap = sh("git -C %s apply %s/patch.diff" % (wt2, src))
assert ap.returncode == 0, ap.stderr
os.makedirs(out2, exist_ok=True)
meta["checks"] = {}
try:
    for c in checks:
        t0 = time.time()
        r = sh("cd %s && VERIF_REPO=%s VERIF_OUT=%s timeout 1500 ./check %s --tier quick" % (V, wt2, out2, c))
        vio = [l for l in r.stdout.splitlines() if l.startswith("VIOLATION")]
        meta["checks"][c] = {"rc": r.returncode, "violations": len(vio), "first": vio[:1], "wall_s": round(time.time() - t0, 1),
                             "tail": r.stdout.splitlines()[-1:] }
        print("check %s rc=%d violations=%d  %s" % (c, r.returncode, len(vio), (vio[:1] or [""])[0][:200]))
finally:
    sh("git -C /repo worktree remove --force %s" % wt2)
    shutil.rmtree(out2, ignore_errors=True)
meta["confirmed"] = meta.get("demo_clean_rc") == 0 and meta.get("demo_patched_rc") not in (0, None)
meta["detected_by"] = [c for c, x in meta["checks"].items() if x["rc"] == 1]
d = os.path.join(V, "seeded", sid)
os.makedirs(d, exist_ok=True)
for f in ("patch.diff", "demo.py", "notes.md"):
    if os.path.exists(os.path.join(src, f)):
        shutil.copy(os.path.join(src, f), d)
notes = open(os.path.join(d, "notes.md")).read() if os.path.exists(os.path.join(d, "notes.md")) else ""
meta["needs"] = notes[:1500]
meta["ran"] = "demo.py on a fresh worktree of /repo HEAD with and without the patch; ./check <prop> --tier quick with VERIF_REPO pointing to a scratch worktree of /repo HEAD with the patch applied"
try:
    prev = json.load(open(os.path.join(d, "meta.json")))
    for k in ("ported", "obsolete"):
        if k in prev:
            meta[k] = prev[k]
    if "ported" in prev:
        meta["confirmed"] = prev.get("confirmed", meta["confirmed"])
except Exception:
    pass
json.dump(meta, open(os.path.join(d, "meta.json"), "w"), indent=1)
print("confirmed=%s detected_by=%s" % (meta["confirmed"], meta["detected_by"]))
