#!/usr/bin/env python3-vt
import json, jsonschema, glob
m=json.load(open('/verif/MANIFEST.json')); s=json.load(open('/root/.vp/MANIFEST.schema.json'))
jsonschema.validate(m,s); print("manifest valid:", len(m["checks"]), "checks")
es=json.load(open('/root/.vp/EVIDENCE.schema.json'))
for f in sorted(glob.glob('/verif/evidence/*.json')):
    jsonschema.validate(json.load(open(f)), es)
print("evidence valid")
