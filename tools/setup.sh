#!/bin/sh
# offline setup: syntax-check every specification module and byte-compile the harness
cd "$(dirname "$0")/.." || exit 1
rc=0
for f in spec/*.tla; do
  out=$(java -DTLA-Library=spec -cp /opt/veriftools/tla/tla2tools.jar:/opt/veriftools/tla/CommunityModules-deps.jar tla2sany.SANY "$f" 2>&1)
  if echo "$out" | grep -q -i "error\|Could not"; then echo "SANY failed: $f"; echo "$out" | tail -20; rc=1; fi
done
/venv/bin/python -m compileall -q vlib >/dev/null || rc=1
mkdir -p evidence replays
exit $rc
