#!/bin/sh
# run the repository's suite with the guard off and compare with the pinned 649 tests
# (parallel run; the HTTP transport tests share fixed ports, so their file is re-run serially)
cd /repo && env -u PYDCOP_VERIF timeout 3000 /venv/bin/python -m pytest -q -p no:cacheprovider --timeout=900 --continue-on-collection-errors --junitxml=/tmp/base_run.xml -n 8 >/tmp/base_run.log 2>&1 || true
tail -1 /tmp/base_run.log
cd /repo && env -u PYDCOP_VERIF timeout 3000 /venv/bin/python -m pytest -q -p no:cacheprovider --timeout=900 --junitxml=/tmp/base_run2.xml tests/unit/test_infra_communication.py >/tmp/base_run2.log 2>&1 || true
/venv/bin/python /verif/tools/cmp_base.py /tmp/base_run.xml /tmp/base_run2.xml | cut -c1-600
rm -f /tmp/base_run.xml /tmp/base_run2.xml
