import json, sys, xml.etree.ElementTree as ET
base = set(json.load(open('/root/.vp/BASELINE.json'))['stable_pass'])
passed = set()
for f in sys.argv[1:]:
    t = ET.parse(f).getroot()
    for tc in t.iter('testcase'):
        if not any(ch.tag in ('failure', 'error', 'skipped') for ch in tc):
            passed.add(tc.get('classname') + '::' + tc.get('name'))
print('baseline', len(base), 'passed now', len(passed), 'baseline tests not passing now:', sorted(base - passed))
