#!/usr/bin/env python3
"""Prints the brief given to an independent sub-agent asked to break one property (only the property text; nothing of /verif).
usage: mutant_prompt.py C18 [n]   -> also creates the scratch worktree /tmp/mw_C18"""
import json, subprocess, sys
pid = sys.argv[1]
n = int(sys.argv[2]) if len(sys.argv) > 2 else 3
p = [json.loads(l) for l in open("/verif/properties.jsonl") if l.strip()]
p = [x for x in p if x["id"] == pid][0]
wt = "/tmp/mw_%s" % pid
subprocess.run(["git", "-C", "/repo", "worktree", "remove", "--force", wt], capture_output=True)
subprocess.run(["git", "-C", "/repo", "worktree", "add", "-q", "--detach", wt, "HEAD"], check=True)
print("""You are helping to evaluate a verification effort on the Python library pyDCOP (distributed constraint optimisation:
algorithms such as DPOP, MGM, MaxSum on a threaded message-passing agent runtime). You have your own scratch git worktree of
the repository at %(wt)s (use only that directory and /tmp/mut_out_%(pid)s; never touch /repo or /verif, and do not read /verif).
Run Python with `PYTHONPATH=%(wt)s /venv/bin/python` so that your worktree's sources are imported. There is no network.
Always wrap commands in `timeout` (e.g. `timeout 600 ...`).

This semantic property of the library is supposed to hold:

  id: %(id)s
  title: %(title)s
  statement: %(statement)s
  quantifier: %(qt)s
  code anchors: %(anchors)s

Task: produce %(n)d DIFFERENT, realistic source changes (mutants) to the library (files under %(wt)s/pydcop only), each of which
  (a) BREAKS the property above (a real behavioural violation of the statement, not a crash at import and not a cosmetic change),
  (b) still compiles and passes the repository's existing test-suite exactly as well as the unchanged tree does (the suite is run
      with `cd %(wt)s && timeout 3000 /venv/bin/python -m pytest -q -p no:cacheprovider --timeout=900 tests/unit tests/api`
      - note that a number of tests already fail on the unchanged tree in this environment; the set of failing tests must simply
      not grow; running the test files related to the changed module plus a full run once at the end is enough),
  (c) needs something SPECIFIC to manifest: a particular interleaving / message delivery order, a fault at a particular point, a
      multi-step sequence of operations, an unusual input, or two cooperating sites that each look fine alone. Changes that any
      ordinary use would expose at once are not interesting. Think of the kind of regression a maintainer could plausibly
      introduce in a refactoring or an "optimisation".
For each mutant i = 1..%(n)d write into /tmp/mut_out_%(pid)s/m<i>/ :
  - patch.diff : `git diff` of the change against the worktree HEAD (must apply with `git apply` on a clean checkout),
  - demo.py    : a self-contained program (run as `PYTHONPATH=<tree> /venv/bin/python demo.py`, cwd = the tree) that exits 0 on
                 the unchanged tree and exits non-zero (with a short message saying what was violated) when the patch is applied.
                 It must be deterministic (drive message delivery yourself or fix seeds; avoid real threads and sleeps where you can;
                 if threads are unavoidable keep it reliable) and finish within 2 minutes.
  - notes.md   : what was changed, why it breaks the property, what it needs in order to manifest, which tests you ran.
Between mutants, restore the worktree with `git -C %(wt)s checkout -- .`. Leave the worktree clean at the end.
Verify each mutant yourself: demo passes on the clean tree, fails with the patch; related unit tests still pass with the patch.
Final answer: a short list of the mutants (one line each) and anything that did not work.""" % dict(
    wt=wt, pid=pid, id=p["id"], title=p["title"], statement=p["statement"], qt=json.dumps(p["quantifier"]),
    anchors=json.dumps(p["anchors"]), n=n))
