#!/bin/sh
# usage: quickmut.sh <file under /repo> <sed expression> <check id> [tier]   - apply a one-off change, run the check, undo
f=$1; expr=$2; id=$3; tier=${4:-quick}
cd /repo || exit 2
[ -z "$(git status --porcelain)" ] || { echo "/repo not clean"; exit 2; }
sed -i "$expr" "$f"
git diff --stat | tail -1
if [ -z "$(git status --porcelain)" ]; then echo "sed changed nothing"; exit 2; fi
(cd /verif && timeout 1500 ./check "$id" --tier "$tier" 2>&1 | tail -4)
git checkout -- .
