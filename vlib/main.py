import argparse, importlib, os, sys, traceback
from .common import MachineryError


def main():
    ap = argparse.ArgumentParser()
    ap.add_argument("prop")
    ap.add_argument("--tier", default=os.environ.get("VERIF_TIER", "quick"), choices=["quick", "thorough"])
    ap.add_argument("--replay")
    a = ap.parse_args()
    try:
        mod = importlib.import_module("vlib.props." + a.prop)
        if a.replay:
            sys.exit(mod.replay(a.replay))
        sys.exit(mod.run(a.tier))
    except MachineryError as e:
        print("MACHINERY-FAILURE property=%s: %s" % (a.prop, e))
        sys.exit(2)
    except Exception:
        traceback.print_exc()
        print("MACHINERY-FAILURE property=%s: unexpected exception in the harness" % a.prop)
        sys.exit(2)


main()
