"""Binding of spec/Mgm.tla to pydcop.algorithms.mgm.MgmComputation."""
from .algomodel import Binding, _num

INVARIANTS_ALL = ["CostMonotone", "MoveAlone", "StagnationIsOneOpt", "FinishedAtStop", "QuietMeansFinished", "ValueInDomain",
                  "NoNestedFlush", "AtMostOnePostponed", "NeighbourSkew"]


class MgmBinding(Binding):
    algo = "mgm"
    module = "Mgm"

    def __init__(self, break_mode="lexic"):
        self.break_mode = break_mode

    def params(self, consts, inst=None):
        return {"stop_cycle": consts["StopCycle"], "break_mode": (inst or {}).get("break_mode", self.break_mode)}

    def _msg(self, w, src, m):
        if m.type == "mgm_value":
            return {"t": "v", "x": w.vidx(src, m.value)}
        return {"t": "g", "x": _num(m.value)}

    def project(self, w):
        loc = {}
        for n, c in w.comps.items():
            nb = sorted(c._neighbors)
            loc[n] = {"st": c._state, "val": w.vidx(n, c.current_value), "cyc": int(c.cycle_count or 0),
                      "nv": {x: (w.vidx(x, c._neighbors_values[x]) if x in c._neighbors_values else 0) for x in nb} or [],
                      "ngs": sorted(c._neighbors_gains),
                      "ng": {x: (_num(c._neighbors_gains[x][0]) if x in c._neighbors_gains else 0) for x in nb} or [],
                      "gain": _num(c._gain), "newv": w.vidx(n, c._new_value),
                      "ppv": [{"from": s, "x": w.vidx(s, m.value)} for s, m in c.__postponed_value_messages__],
                      "ppg": [{"from": s, "x": _num(m.value)} for s, m in c.__postponed_gain_messages__],
                      "fin": bool(w.fin[n])}
        chan = {}
        for n, c in w.comps.items():
            for x in c._neighbors:
                chan['<<"%s", "%s">>' % (n, x)] = [self._msg(w, n, m) for _, m in w.chan.get((n, x), [])]
        return {"started": sorted(n for n in w.comps if w.started[n]), "loc": loc, "chan": chan or [],
                "pre": {n: [dict(self._msg(w, s, m), **{"from": s}) for s, m, _ in c._paused_messages_recv] for n, c in w.comps.items()},
                "reinj": {n: [dict(self._msg(w, s, m), **{"from": s}) for s, _, m in w.reinj.get(n, [])] for n in w.comps}}

    def norm(self, p):
        p = dict(p)
        p["started"] = sorted(p["started"])
        p["loc"] = {n: dict(l, ngs=sorted(l["ngs"])) for n, l in p["loc"].items()}
        return p

    def force(self, w, a):
        if a.get("pick", 0) > 0:
            return [w.doms[a["c"]][a["pick"] - 1]]
        return []


STRUCT = ["NoNestedFlush", "AtMostOnePostponed", "NeighbourSkew"]
QUICK_SHAPES = ["pair", "pair3", "unarypair", "parallel", "path3", "fork3", "isolated", "isounary"]
THOROUGH_SHAPES = QUICK_SHAPES + ["triangle", "tern", "ternpair", "path3d3", "twocomp"]


def model_part(v, tier, invariants, clauses, props, seed_off=0, n_quick=1, shapes=None, stop=None, light=False):
    """Mgm.tla on TLC-drawn instances: every schedule and draw checked by TLC, every explored transition replayed on the real
    MgmComputation objects; break_mode 'random' is run against the same (lexical) model"""
    from . import algomodel as AM, algotrace as AT
    from .common import seed as vseed
    quick = tier == "quick"
    shapes = shapes or (QUICK_SHAPES if quick else THOROUGH_SHAPES)
    insts, gres = AT.gen_instances(shapes, [0, 1, 2, 5, -1], [0, 1, 3], n=n_quick if quick else 3, with_init=True,
                                   seed=vseed() + 500 + seed_off)
    v.add_tlc(gres, "instance generation (Gen_Dcop) for Mgm.tla")
    # half of the instances without initial values: the initial random draw is then explored too
    for i, inst in enumerate(insts):
        if i % 2 == 0:
            inst["init"] = {}
    if quick:
        insts = AM.spread(insts, 1, 9, offset=seed_off % 5) + AM.spread(insts, 1, 3, offset=11)
    consts = {"StopCycle": stop or (3 if quick else 4)}

    def widen():
        more, _ = AT.gen_instances([s for s in shapes if s in ("path3", "fork3", "triangle", "unarypair", "path3d3")] or shapes,
                                   [0, 1, 2, 5, -1], [0, 1, 3], n=12, with_init=False, seed=vseed() + 900 + seed_off)
        return more
    # tie-heavy instances (tables over {0, 1}, no own cost): equal positive gains between neighbours are frequent, so the
    # tie-break rule is exercised; they are run with both values of break_mode against the same (lexical) model
    ties, gres2 = AT.gen_instances(["pair", "path3", "triangle"] if quick else ["pair", "path3", "fork3", "triangle", "tern"], [0, 1], [0],
                                   n=1 if quick else 4, with_init=True, seed=vseed() + 700 + seed_off)
    v.add_tlc(gres2, "tie-heavy instance generation (Gen_Dcop) for Mgm.tla")
    for inst in ties:
        if inst["shape"] in ("pair", "path3") or not quick:
            inst["init"] = {}
        inst["_key"] = {"ties": True}
    rnd_insts = [dict(i, break_mode="random", _key={"break_mode": "random"}) for i in ties + [x for x in insts if x["shape"] in ("path3", "fork3")][:1 if quick else 8]]
    if light:
        insts, ties, rnd_insts = insts[:5], ties[:1], []
    tot = AM.run_model(v, MgmBinding("lexic"), insts + ties + rnd_insts, consts, invariants + STRUCT, clauses, props, widen=widen,
                       max_paths=800 if quick else None,
                       edges_for=(lambda i: True) if quick else (lambda i: AM.weight(i) <= 400))
    v.cov["mgm_model"] = dict(tot, stop_cycle=consts["StopCycle"], invariants=invariants + STRUCT)
    v.cov["replayed_paths"] = v.cov.get("replayed_paths", 0) + tot["paths"]
    v.cov["replayed_steps"] = v.cov.get("replayed_steps", 0) + tot["steps"]
    v.cov["model_edges"] = v.cov.get("model_edges", 0) + tot["edges"]
    return tot
