"""Running TLC (exhaustive / simulate / judge) and reading what it printed."""
import json, os, re, subprocess, time
from pathlib import Path
from .common import SPEC, scratch, MachineryError

JAR = "/opt/veriftools/tla/tla2tools.jar:/opt/veriftools/tla/CommunityModules-deps.jar"
_STR = re.compile(r'"((?:[^"\\]|\\.)*)"')
_FINAL = re.compile(r"(\d+) states generated, (\d+) distinct states found, (\d+) states left on queue")
_SIMFINAL = re.compile(r"The number of states generated: (\d+)")
_n = [0]
import threading
_lock = threading.Lock()


class TlcResult:
    def __init__(self):
        self.out = ""; self.cmd = ""; self.generated = 0; self.distinct = 0; self.wall = 0.0
        self.violated = []; self.errors = []; self.coverage = {}; self.rc = 0; self.trace = []; self.trace_json = None

    def tagged(self, tag):
        """All PrintT(<<tag, json-string, ...>>) tuples as lists of decoded JSON values."""
        out = []
        pat = '<<"%s"' % tag
        for line in self.out.splitlines():
            i = line.find(pat)
            if i < 0:
                continue
            parts = _STR.findall(line[i:])
            vals = []
            for p in parts[1:]:
                s = p.replace('\\"', '"').replace("\\\\", "\\")
                try:
                    vals.append(json.loads(s))
                except ValueError:
                    vals.append(s)
            # trailing bare integers (e.g. <<"REJECT", 3, 17>>)
            tail = line[i:]
            if len(parts) == 1:
                vals = [int(x) for x in re.findall(r"-?\d+", tail)]
            out.append(vals)
        return out


def tla(x):
    """Python value -> TLA+ expression (ints, strings, bools, lists = sequences, sets, dicts = records)"""
    if isinstance(x, bool):
        return "TRUE" if x else "FALSE"
    if isinstance(x, int):
        return str(x) if x >= 0 else "(%d)" % x
    if isinstance(x, str):
        return '"%s"' % x
    if isinstance(x, (list, tuple)):
        return "<<" + ", ".join(tla(v) for v in x) + ">>"
    if isinstance(x, (set, frozenset)):
        return "{" + ", ".join(tla(v) for v in sorted(x, key=repr)) + "}"
    if isinstance(x, dict):
        return "[" + ", ".join("%s |-> %s" % (k, tla(v)) for k, v in x.items()) + "]"
    raise TypeError(x)


def run(module, cfg, consts=None, env=None, workers=1, simulate=None, depth=None, seed=None, timeout=1800,
        coverage=False, deadlock=False, heap="4g", dfs=False, extra=(), xss=None):
    """module: name of a module in /verif/spec; cfg: text of the configuration file."""
    with _lock:
        _n[0] += 1
        work = scratch() / ("tlc%d_%d" % (os.getpid(), _n[0]))
    work.mkdir()
    if consts:
        # constants that a .cfg cannot express (sequences, negative numbers): wrapper module MC_<module>
        mc = "MC_" + module
        body = "---- MODULE %s ----\nEXTENDS %s\n" % (mc, module)
        cfg = cfg.rstrip("\n") + "\nCONSTANTS\n"
        for k, v in consts.items():
            # a string starting with "@" is a raw TLA+ expression
            body += "MC_%s == %s\n" % (k, v[1:] if isinstance(v, str) and v.startswith("@") else tla(v))
            cfg += " %s <- MC_%s\n" % (k, k)
        (work / (mc + ".tla")).write_text(body + "====\n")
        main = work / (mc + ".tla")
        module_for_cfg = mc
    else:
        main = SPEC / (module + ".tla")
        module_for_cfg = module
    cfgp = work / (module_for_cfg + ".cfg")
    cfgp.write_text(cfg)
    gc = ["-XX:+UseSerialGC", "-XX:TieredStopAtLevel=1"] if workers == 1 else ["-XX:+UseParallelGC"]
    cmd = ["java"] + gc + ["-Xmx" + heap] + (["-Xss" + xss] if xss else []) + ["-DTLA-Library=" + str(SPEC), "-Djava.io.tmpdir=" + str(work)]
    if dfs:
        cmd.append("-Dtlc2.tool.queue.IStateQueue=StateDeque")
    cmd += ["-cp", JAR, "tlc2.TLC", "-noGenerateSpecTE", "-metadir", str(work / "meta"),
            "-config", str(cfgp), "-workers", str(workers)]
    if not deadlock:
        cmd.append("-deadlock")
    if coverage:
        cmd += ["-coverage", "1"]
    if simulate is not None:
        cmd += ["-simulate", "num=%d" % simulate]
        if depth:
            cmd += ["-depth", str(depth)]
    if seed is not None:
        cmd += ["-seed", str(seed)]
    if simulate is None:
        cmd += ["-dumpTrace", "json", str(work / "cex.json")]     # a counterexample, if any, with the variables as JSON values
    cmd += list(extra)
    cmd.append(str(main))
    e = dict(os.environ)
    e.pop("JAVA_TOOL_OPTIONS", None)
    if env:
        e.update({k: str(v) for k, v in env.items()})
    t0 = time.time()
    try:
        p = subprocess.run(cmd, cwd=str(work), env=e, capture_output=True, text=True, timeout=timeout)
    except subprocess.TimeoutExpired as ex:
        if simulate is None:
            raise MachineryError("TLC timed out after %ss on %s" % (timeout, module))
        p = subprocess.CompletedProcess(cmd, 0, (ex.stdout or b"").decode() if isinstance(ex.stdout, bytes) else (ex.stdout or ""), "")
    r = TlcResult()
    r.out = p.stdout
    r.rc = p.returncode
    r.wall = time.time() - t0
    r.cmd = "tlc " + " ".join(cmd[cmd.index("tlc2.TLC") + 1:]).replace(str(work), "$SCRATCH")
    m = None
    for m in _FINAL.finditer(r.out):
        pass
    if m:
        r.generated, r.distinct = int(m.group(1)), int(m.group(2))
    else:
        m = _SIMFINAL.search(r.out)
        if m:
            r.generated = r.distinct = int(m.group(1))
    r.violated = re.findall(r"Invariant (\S+) is violated", r.out) + \
        re.findall(r"Action property (\S+) is violated", r.out) + \
        (["<temporal>"] if "Temporal properties were violated" in r.out else [])
    for line in r.out.splitlines():
        if line.startswith("Error:") and "is violated" not in line and "behavior up to this point" not in line:
            r.errors.append(line)
    if coverage:
        for mm in re.finditer(r"<(\w+) line \d+, col \d+ to line \d+, col \d+ of module (\w+)>: (\d+):(\d+)", r.out):
            r.coverage[mm.group(1)] = r.coverage.get(mm.group(1), 0) + int(mm.group(4))
    if r.violated:
        r.trace = parse_error_trace(r.out)
    r.trace_json = None
    cex = work / "cex.json"
    if cex.exists():
        try:
            r.trace_json = [st[1] for st in json.load(open(cex))["counterexample"]["state"]]
        except Exception:
            r.trace_json = None
    fatal = [x for x in r.errors if "Deadlock" not in x]
    if (fatal and not r.violated) or (p.returncode not in (0, 12, 13) and not r.violated and not m):
        raise MachineryError("TLC failed on %s (rc=%s):\n%s\n%s" % (module, p.returncode, r.out[-3000:], p.stderr[-1500:]))
    return r


def parse_error_trace(out):
    """States of a TLC counterexample as {var: text}; enough to pull the `act` history variable."""
    states = []
    cur = None
    for line in out.splitlines():
        if re.match(r"State \d+:", line):
            cur = {}
            states.append(cur)
        elif cur is not None and line.startswith("/\\ "):
            k, _, v = line[3:].partition(" = ")
            cur[k.strip()] = v.strip()
            last = k.strip()
        elif cur is not None and line.strip() == "":
            cur = None
        elif cur is not None and states and 'last' in dir():
            cur[last] = cur.get(last, "") + " " + line.strip()
    return states


def tla_record_to_py(text):
    """'[n |-> "start", c |-> "v0", pick |-> 1]' -> dict (flat records of strings / ints only)."""
    text = text.strip()
    assert text.startswith("[") and text.endswith("]"), text
    d = {}
    for kv in re.findall(r'(\w+) \|-> ("(?:[^"\\]|\\.)*"|-?\d+|TRUE|FALSE)', text):
        k, v = kv
        d[k] = json.loads(v) if v[0] in '"-0123456789' else (v == "TRUE")
    return d


def sany(path):
    p = subprocess.run(["java", "-DTLA-Library=" + str(SPEC), "-cp", JAR, "tla2sany.SANY", str(path)],
                       capture_output=True, text=True, cwd=str(SPEC))
    ok = p.returncode == 0 and "error" not in p.stdout.lower().replace("semantic errors:\n", "")
    return ok, p.stdout + p.stderr
