"""Binding of spec/SyncBB.tla to pydcop.algorithms.syncbb.SyncBBComputation (on the chain the real ordered graph gives)."""
from .algomodel import Binding, _num

INF = 1000000


def _b(x):
    """a bound: the float infinities of the code are the model's sentinels"""
    if x == float("inf"):
        return INF
    if x == float("-inf"):
        return -INF
    return _num(x)


class SyncBBBinding(Binding):
    algo = "syncbb"
    module = "SyncBB"

    def params(self, consts, inst=None):
        return {}

    def _msg(self, w, m):
        if m.type == "terminate":
            return {"t": "terminate", "path": [], "ub": 0}
        return {"t": m.type, "path": [[var, w.vidx(var, val), _num(cost)] for var, val, cost in m.current_path], "ub": _b(m.ub)}

    def project(self, w):
        loc = {}
        for n, c in w.comps.items():
            loc[n] = {"run": "running" if c._running else "idle", "ub": _b(c.upper_bound), "val": w.vidx(n, c.current_value),
                      "cyc": int(c.cycle_count), "fin": bool(w.fin[n])}
        chan = {}
        for n, c in w.comps.items():
            for x in (c.next_var, c.previous_var):
                if x is not None:
                    chan['<<"%s", "%s">>' % (n, x)] = [self._msg(w, m) for _, m in w.chan.get((n, x), [])]
        return {"started": sorted(n for n in w.comps if w.started[n]), "loc": loc, "chan": chan or [],
                "pre": {n: [{"from": s, "m": self._msg(w, m)} for s, m, _ in c._paused_messages_recv] for n, c in w.comps.items()},
                "reinj": {n: [{"from": s, "m": self._msg(w, m)} for s, _, m in w.reinj.get(n, [])] for n in w.comps}}

    def norm(self, p):
        p = dict(p)
        p["started"] = sorted(p["started"])
        return p


def binary_only(inst):
    return all(len(c["scope"]) == 2 for c in inst["cons"]) and not any(any(x != 0 for x in vc) for vc in inst["varcost"].values())


def model_part(v, tier, clauses, props, seed_off=0):
    """SyncBB.tla over every start and delivery order of TLC-drawn binary instances, every transition replayed on the real computations.
    Strata: non-negative costs over two alphabets, and costs of both signs (there the optimality invariant fails under min: TLC's
    counterexample, replayed on the real computations, must regenerate the known finding; the finding's own reproducer is always among
    the instances)."""
    import json
    from . import algomodel as AM, algotrace as AT
    from .common import seed as vseed, VERIF as ROOT
    quick = tier == "quick"
    shapes = (["single", "pair", "pair3", "pairrev", "parallel", "isolated", "isomid", "isofirst", "gap4", "path3", "path3d3", "fork3", "triangle", "twocomp"] if quick else
              ["single", "pair", "pair3", "pairrev", "parallel", "isolated", "isomid", "isofirst", "gap4", "path3", "path3d3", "fork3", "triangle", "twocomp", "path4", "star4", "cycle4", "tritail"])
    invs = ["QuietMeansFinished", "FirstFinishesFirst", "SingleToken", "ValueInDomain", "BoundIsACost", "PathsWellFormed", "TerminatedMeansOptimal"]
    allinsts, strata = [], {}
    for k, (stratum, alpha, n, shp, modes) in enumerate((("nonneg", [0, 1, 2, 5], 2 if quick else 8, shapes, ("min", "max")),
                                                        ("tiny", [0, 1, 2], 2 if quick else 12, shapes, ("min", "max")),
                                                        ("signed", [0, 1, -2, 3], 2 if quick else 6, ["path3", "path3d3", "triangle", "fork3"] + ([] if quick else ["path4", "cycle4"]), ("min", "max")))):
        insts, gres = AT.gen_instances(shp, alpha, [0], n=n, seed=vseed() + 1310 + seed_off + k, modes=modes)
        v.add_tlc(gres, "instance generation (Gen_Dcop) for SyncBB.tla, stratum %s" % stratum)
        insts = [i for i in insts if binary_only(i)]
        if quick:
            # two instances per shape, one of each objective where the generator gave both
            by = {}
            for i in insts:
                by.setdefault((i["shape"], i["mode"]), []).append(i)
            insts = [x[(seed_off + k) % len(x)] for x in by.values()]
        for i in insts:
            i["_key"] = {"costs": "signed" if any(x < 0 for c in i["cons"] for x in c["tab"]) else "nonneg"}
        strata[stratum] = len(insts)
        allinsts += insts
    rep = json.loads((ROOT / "findings" / "C02_syncbb_signed_min.json").read_text())["replay"]["meta"]["inst"]
    rep = dict(rep, _key={"costs": "signed"})
    allinsts.append(rep)
    tot = AM.run_model(v, SyncBBBinding(), allinsts, {}, invs, clauses, props, max_paths=400 if quick else None, stale_model_is_divergence=True)
    # liveness, without any constraint: under weak fairness of the steps every behaviour ends with all computations finished
    _, lres = AM.model_check("SyncBB", [AM.with_vrank(i) for i in allinsts], {}, [], False, workers=4, timeout=900, spec="FairSpec", properties=["Terminates"])
    v.add_tlc(lres, "SyncBB.tla: PROPERTY Terminates under SPECIFICATION FairSpec on the same %d instances" % len(allinsts))
    if lres.violated or not lres.distinct or any("emporal" in e for e in lres.errors):
        from .common import MachineryError
        raise MachineryError("SyncBB.tla: the liveness property Terminates fails in the model (or TLC failed): %s" % (lres.violated or lres.errors[:2] or lres.out[-300:]))
    tot["liveness"] = "PROPERTY Terminates (<>[](Quiet /\\ AllFinished)) under SPECIFICATION FairSpec (weak fairness of the steps), no state constraint"
    tot["liveness_checked_states"] = lres.distinct
    v.cov["syncbb_model"] = dict(tot, invariants=invs, instances_by_stratum=strata)
    v.cov["replayed_paths"] = v.cov.get("replayed_paths", 0) + tot["paths"]
    v.cov["replayed_steps"] = v.cov.get("replayed_steps", 0) + tot["steps"]
    v.cov["model_edges"] = v.cov.get("model_edges", 0) + tot["edges"]
    return tot
