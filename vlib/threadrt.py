"""Real-thread runs of the orchestrated runtime (pyDCOP's own run_local_thread_dcop, deploy_computations, run) with
recording wrappers installed from the harness: every start / on_message / pause call of a computation hosted on an agent,
every periodic action and every discovery callback registered while a computation callback is running are logged with the
thread they run on (global order from an atomic counter; no wall clock)."""
import itertools, sys, threading, functools
from .common import REPO  # noqa: F401
from pydcop.infrastructure import agents as _agents
from pydcop.infrastructure.discovery import Discovery

_seq = itertools.count()


class Recorder:
    def __init__(self):
        self.events = []
        self.owner = {}
        self.lock = threading.Lock()
        self.tids = {}
        self._orig = {}
        self._agent_of = threading.local()

    def tid(self):
        i = threading.get_ident()
        with self.lock:
            return self.tids.setdefault(i, len(self.tids) + 1)

    def log(self, agent, comp, kind, ph):
        self.events.append({"seq": next(_seq), "agent": agent, "comp": comp, "kind": kind, "tid": self.tid(), "ph": ph})

    def wrap(self, agent, comp, kind, f):
        rec = self

        @functools.wraps(f)
        def g(*a, **k):
            rec.log(agent, comp, kind, "enter")
            prev = getattr(rec._agent_of, "v", None)
            rec._agent_of.v = (agent, comp)
            try:
                return f(*a, **k)
            finally:
                rec._agent_of.v = prev
                rec.log(agent, comp, kind, "exit")
        return g

    def install(self):
        rec = self
        A = _agents.Agent
        self._orig = {"add": A.add_computation, "periodic": A.set_periodic_action, "run": A._run, "start": A.start,
                      "subc": Discovery.subscribe_computation, "suba": Discovery.subscribe_agent, "subr": Discovery.subscribe_replica,
                      "subaa": Discovery.subscribe_all_agents}

        def add_computation(agent, computation, comp_name=None, publish=True):
            name = comp_name or computation.name
            for kind in ("start", "on_message", "pause"):
                setattr(computation, kind, rec.wrap(agent.name, name, kind, getattr(computation, kind)))
            # a computation only posts from within its callbacks: a post from another thread means some of its code runs there
            if hasattr(computation, "post_msg"):
                setattr(computation, "post_msg", rec.wrap(agent.name, name, "post_msg", getattr(computation, "post_msg")))
            # the message handlers themselves too (a handler called directly, not through on_message, is still a callback of the
            # computation): the handler table of the instance, and the management computation's _orchestrator_* commands, which
            # on_message looks up by name
            handlers = getattr(computation, "_msg_handlers", None)
            if isinstance(handlers, dict):
                for mt, h in list(handlers.items()):
                    handlers[mt] = rec.wrap(agent.name, name, "handler", h)
            for attr in dir(type(computation)):
                if attr.startswith("_orchestrator_") and callable(getattr(computation, attr, None)):
                    setattr(computation, attr, rec.wrap(agent.name, name, "handler", getattr(computation, attr)))
            return rec._orig["add"](agent, computation, comp_name, publish)

        def set_periodic_action(agent, period, cb):
            who = getattr(rec._agent_of, "v", None)
            return rec._orig["periodic"](agent, period, rec.wrap(agent.name, who[1] if who else "?", "periodic", cb))

        def _run(agent):
            rec.owner[agent.name] = rec.tid()
            # the agent's own discovery computation is put into the computations table directly (Agent._on_start), not through
            # add_computation: its message handling is a callback of one of the agent's computations like any other
            dc = getattr(getattr(agent, "discovery", None), "discovery_computation", None)
            if dc is not None and not getattr(dc, "_verif_wrapped", False):
                dc._verif_wrapped = True
                dc.on_message = rec.wrap(agent.name, dc.name, "on_message", dc.on_message)
                handlers = getattr(dc, "_msg_handlers", None)
                if isinstance(handlers, dict):
                    for mt, h in list(handlers.items()):
                        handlers[mt] = rec.wrap(agent.name, dc.name, "handler", h)
            return rec._orig["run"](agent)

        def sub_all(orig_name):
            def subscribe_all(disc, cb=None, *a, **k):
                who = getattr(rec._agent_of, "v", None)
                if cb is not None and who is not None:      # registered by a computation of that agent (e.g. the replication computation)
                    cb = rec.wrap(who[0], who[1], "discovery_cb", cb)
                return rec._orig[orig_name](disc, cb, *a, **k)
            return subscribe_all

        def sub(orig_name):
            def subscribe(disc, item, cb=None, one_shot=False):
                who = getattr(rec._agent_of, "v", None)
                if cb is not None and who is not None:      # registered by a computation of that agent
                    cb = rec.wrap(who[0], who[1], "discovery_cb", cb)
                return rec._orig[orig_name](disc, item, cb, one_shot)
            return subscribe
        def start(agent, *a, **k):
            agent.t.daemon = True        # a run that does not end must not keep the checking process alive
            return rec._orig["start"](agent, *a, **k)
        A.add_computation, A.set_periodic_action, A._run, A.start = add_computation, set_periodic_action, _run, start
        Discovery.subscribe_computation, Discovery.subscribe_agent, Discovery.subscribe_replica = sub("subc"), sub("suba"), sub("subr")
        Discovery.subscribe_all_agents = sub_all("subaa")

    def uninstall(self):
        A = _agents.Agent
        A.add_computation, A.set_periodic_action, A._run, A.start = self._orig["add"], self._orig["periodic"], self._orig["run"], self._orig["start"]
        Discovery.subscribe_computation, Discovery.subscribe_agent, Discovery.subscribe_replica = \
            self._orig["subc"], self._orig["suba"], self._orig["subr"]
        Discovery.subscribe_all_agents = self._orig["subaa"]


def threaded_solve(dcop, algo_def, cg, dist, infinity=10000, timeout=20, switch=1e-5, replication=None, watchdog=45, scenario=None,
                   delay=None, collect_moment="value_change", period=None):
    """-> (orchestrator, Recorder, error text); the whole run is abandoned (error text "hung") after `watchdog` seconds"""
    from pydcop.infrastructure.run import run_local_thread_dcop
    rec = Recorder()
    rec.install()
    old = sys.getswitchinterval()
    sys.setswitchinterval(switch)
    box = {"err": "", "orch": None}

    def body():
        try:
            box["orch"] = orch = run_local_thread_dcop(algo_def, cg, dist, dcop, infinity, replication=replication, delay=delay,
                                                             collect_moment=collect_moment, period=period)
            try:
                orch.deploy_computations()
                orch.run(scenario=scenario, timeout=timeout)
            except Exception as e:
                box["err"] = "orchestrator raised %s: %s" % (type(e).__name__, str(e)[:100])
                orch.stop_agents(5)
                orch.stop()
        except Exception as e:
            box["err"] = "setup raised %s: %s" % (type(e).__name__, str(e)[:100])
    t = threading.Thread(target=body, daemon=True)
    import os
    from .common import scratch
    cwd = os.getcwd()
    os.chdir(str(scratch()))          # scenario events make the orchestrator write yaml files in the current directory
    try:
        t.start()
        t.join(watchdog)
        if t.is_alive():
            box["err"] = "hung: the run did not return within %d s" % watchdog
    finally:
        os.chdir(cwd)
        sys.setswitchinterval(old)
        rec.uninstall()
    return box["orch"], rec, box["err"]
