"""Shared driver of the behavioural algorithm checks (C01-C05, C07, C09, C10):
TLC generates the DCOP instances (Gen_Dcop.tla), the real computations are run on them under seeded
per-channel-FIFO schedules (simrt), the recorded executions are judged by TLC (AlgoMon.tla)."""
import json, os, random
from . import tlc
from .common import scratch, MachineryError, seed as vseed
from .simrt import World

GEN_CFG = "INIT Init\nNEXT Next\nINVARIANT Emit\n"
JUDGE_CFG = "INIT Init\nNEXT Next\nCONSTRAINT Reach\nPOSTCONDITION Accepted\nCHECK_DEADLOCK FALSE\n"


def gen_instances(shapes, alpha, vcalpha=(0,), n=5, exhaustive=False, modes=("min", "max"), with_init=False,
                  seed=0, workers=4):
    res = tlc.run("Gen_Dcop", GEN_CFG,
                  consts=dict(ShapeNames=set(shapes), Alpha=list(alpha), VCAlpha=list(vcalpha), NPerShape=n,
                              Exhaustive=exhaustive, Modes=set(modes), WithInit=with_init),
                  workers=workers, seed=seed)
    out = []
    for inst, meta in res.tagged("INST"):
        inst["opt"], inst["nopt"] = meta["opt"], meta["nopt"]
        out.append(inst)
    if len(out) != res.distinct:
        raise MachineryError("Gen_Dcop: parsed %d instances, TLC generated %d" % (len(out), res.distinct))
    out.sort(key=lambda i: json.dumps(i, sort_keys=True))
    return out, res


def slim_event(ev):
    e = {k: ev[k] for k in ("e", "c", "sel", "finev", "exc", "val", "cyc", "fin")}
    e["sent"] = [{kk: m[kk] for kk in ("src", "dst", "id", "reinj") if kk in m} for m in ev["sent"]]
    for k in ("src", "mid", "accept", "mval"):
        if k in ev:
            e[k] = ev[k]
    return e


# scheduling policies: the property statements quantify over all per-channel-FIFO orders
def bias_none(w, en):
    return en


def bias_starts_first(w, en):
    return [s for s in en if s[0] == "start"]


def bias_lag(who, r):
    """keep one computation late (others run ahead: postponed-message paths); fair: it still runs 1 time in 8"""
    def f(w, en):
        if r.random() < 0.125:
            return en
        rest = [s for s in en if not (s[0] in ("deliver", "reinj") and s[-1] == who) and not (s[0] == "start" and s[1] == who)]
        return rest
    return f


def bias_barrier(w, en):
    """prefer the computations that are behind in cycle count: equal-cycle instants become frequent"""
    cy = {n: int(getattr(c, "cycle_count", 0) or 0) for n, c in w.comps.items()}
    def target(s):
        return s[1] if s[0] in ("start", "reinj") else s[2] if s[0] == "deliver" else None
    ts = [(cy.get(target(s), 0), s) for s in en if target(s) is not None]
    if not ts:
        return en
    m = min(x for x, _ in ts)
    return [s for x, s in ts if x == m]


POLICIES = ["random", "starts_first", "barrier", "lag"]


def run_one(inst, algo, params, sched_seed, policy="random", wire=False, max_steps=3000, timers=False, stop=None):
    w = World(inst, algo, params, seed=sched_seed, wire_mode=wire)
    r = random.Random(sched_seed * 7919 + 13)
    if policy == "random":
        b = None
    elif policy == "starts_first":
        b = bias_starts_first
    elif policy == "barrier":
        b = bias_barrier
    else:
        b = bias_lag(r.choice(sorted(w.comps)), random.Random(sched_seed + 1))
    w.run_random(r, max_steps=max_steps, timers=timers, bias=b, stop=stop)
    return w


def trace_record(tid, w, props, k=0, infinity=10000):
    inst = {x: w.inst[x] for x in ("vars", "dsize", "cons", "varcost", "mode")}
    return {"tid": tid, "inst": inst, "comps": sorted(w.comps), "props": props, "k": k, "infinity": infinity,
            "ev": [slim_event(e) for e in w.events]}


def _judge_chunk(records, what):
    f = scratch() / ("traces_%d_%d.ndjson" % (os.getpid(), random.getrandbits(40)))
    with open(f, "w") as fh:
        for r in records:
            fh.write(json.dumps(r) + "\n")
    res = tlc.run(what, JUDGE_CFG, env={"TRACE_FILE": str(f)}, workers=1, heap="3g")
    f.unlink()
    return res


def judge(records, what="AlgoMon", procs=8):
    """-> ({tid: verdict}, rejected {tid: at}, TlcResult).  The batch is split over several TLC processes (each single-worker:
    the per-trace progress registers are per worker); the returned TlcResult carries the summed state counts."""
    if not records:
        raise MachineryError("no trace to judge")
    from concurrent.futures import ThreadPoolExecutor
    nev = sum(len(r["ev"]) for r in records)
    k = max(1, min(procs, nev // 4000 + 1, len(records)))
    # balance chunks by number of events
    chunks = [[] for _ in range(k)]
    load = [0] * k
    for r in sorted(records, key=lambda r: -len(r["ev"])):
        j = load.index(min(load))
        chunks[j].append(r)
        load[j] += len(r["ev"])
    with ThreadPoolExecutor(max_workers=k) as ex:
        results = list(ex.map(lambda c: _judge_chunk(c, what), chunks))
    verdicts, rejected = {}, {}
    for res in results:
        for (v,) in res.tagged("VERDICT"):
            verdicts[v["tid"]] = v
        for (v,) in res.tagged("REJECT"):
            rejected[v["tid"]] = v["at"]
    missing = [r["tid"] for r in records if r["tid"] not in verdicts and r["tid"] not in rejected]
    if missing:
        raise MachineryError("judge gave no verdict for traces %s\n%s" % (missing[:5], results[0].out[-2000:]))
    total = results[0]
    total.generated = sum(r.generated for r in results)
    total.distinct = sum(r.distinct for r in results)
    total.wall = max(r.wall for r in results)
    total.cmd += "   (x%d processes over a split batch)" % k
    return verdicts, rejected, total
