"""Spec -> code replay: TLC prints every transition of a behavioural model as (projection, action, projection')
(ACTION_CONSTRAINT Edge, history variable `act` hidden by VIEW); a set of paths from the initial state covering every
printed edge is computed here and each path is stepped through the real objects by a property-specific driver, the
projection of the real state being compared with the model's after every step."""
import json
from collections import defaultdict, deque
from . import tlc
from .common import MachineryError


def key(st):
    return json.dumps(st, sort_keys=True)


class Graph:
    def __init__(self, edges):
        """edges: list of (src projection, action, dst projection) as decoded JSON"""
        self.out = defaultdict(list)      # state key -> [(action key, action, dst key)]
        self.states = {}
        seen = set()
        for s, a, d in edges:
            ks, kd, ka = key(s), key(d), key(a)
            self.states[ks], self.states[kd] = s, d
            if (ks, ka, kd) in seen:
                continue
            seen.add((ks, ka, kd))
            self.out[ks].append((ka, a, kd))
        self.nedges = len(seen)

    def cover(self, init, max_len=60):
        """paths (lists of (action, expected projection)) from `init` that together cover every edge"""
        k0 = key(init)
        if k0 not in self.states:
            raise MachineryError("initial projection not in the dumped graph")
        # BFS tree for shortest prefixes
        parent = {k0: None}
        dq = deque([k0])
        while dq:
            u = dq.popleft()
            for ka, a, v in self.out[u]:
                if v not in parent:
                    parent[v] = (u, a)
                    dq.append(v)
        covered = set()
        paths = []
        order = [(u, ka, a, v) for u in parent for ka, a, v in self.out[u]]
        for u, ka, a, v in order:
            if (u, ka, v) in covered:
                continue
            # prefix to u
            pre = []
            x = u
            while parent[x] is not None:
                px, pa = parent[x]
                pre.append((pa, self.states[x]))
                covered.add((px, key(pa), x))
                x = px
            pre.reverse()
            path = pre + [(a, self.states[v])]
            covered.add((u, ka, v))
            # greedy extension through uncovered edges
            cur = v
            while len(path) < max_len:
                nxt = [(ka2, a2, v2) for ka2, a2, v2 in self.out[cur] if (cur, ka2, v2) not in covered]
                if not nxt:
                    break
                ka2, a2, v2 = nxt[0]
                covered.add((cur, ka2, v2))
                path.append((a2, self.states[v2]))
                cur = v2
            paths.append(path)
        return paths


def walks(g, init, n, max_len, rnd, weight=None):
    """n random walks of the dumped graph from `init` (lists of (action, expected projection)); weight(action, step) biases the
    choice of the next edge (default: uniform)"""
    k0 = key(init)
    out = []
    for _ in range(n):
        cur, path = k0, []
        while len(path) < max_len and g.out[cur]:
            es = g.out[cur]
            ws = [max(weight(a, len(path)), 1e-9) if weight else 1.0 for _, a, _ in es]
            _, a, v = rnd.choices(es, weights=ws)[0]
            path.append((a, g.states[v]))
            cur = v
        out.append(path)
    return out


def dump_edges(module, cfg, consts=None, env=None, heap="4g", timeout=1800, norm=None):
    """run TLC (single worker: PrintT lines must not interleave) and return (Graph, TlcResult);
    norm: optional function bringing a printed projection to the harness's JSON shape (sets sorted, empty functions as {})"""
    res = tlc.run(module, cfg, consts=consts, env=env, workers=1, heap=heap, timeout=timeout)
    edges = [tuple(e) for e in res.tagged("EDGE")]
    if not edges:
        raise MachineryError("%s: no edge printed" % module)
    for e in edges:
        if len(e) != 3:
            raise MachineryError("%s: malformed edge line %r" % (module, e))
    if norm:
        edges = [(norm(s), a, norm(d)) for s, a, d in edges]
    return Graph(edges), res


def first_diff(a, b, path=""):
    if type(a) != type(b) and not (isinstance(a, (int, float)) and isinstance(b, (int, float))):
        return "%s: %r vs %r" % (path or ".", a, b)
    if isinstance(a, dict):
        for k in sorted(set(a) | set(b)):
            if k not in a or k not in b:
                return "%s.%s: %r vs %r" % (path, k, a.get(k, "<absent>"), b.get(k, "<absent>"))
            d = first_diff(a[k], b[k], path + "." + k)
            if d:
                return d
        return None
    if isinstance(a, list):
        if len(a) != len(b):
            return "%s: %r vs %r" % (path or ".", a, b)
        for i, (x, y) in enumerate(zip(a, b)):
            d = first_diff(x, y, "%s[%d]" % (path, i))
            if d:
                return d
        return None
    return None if a == b else "%s: %r vs %r" % (path or ".", a, b)
