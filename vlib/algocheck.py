"""Generic body of the algorithm-level checks: instances from TLC, executions of the real computations,
verdicts from TLC (AlgoMon).  A property module only states which algorithms, instance families, monitor
clauses and witness rule apply."""
import json
from .common import Verdict, seed as vseed, MachineryError
from . import algotrace as AT


def run_algo_check(prop, tier, level, plans, clauses, nontrivial, rule, key_extra=None, assumptions=()):
    """plans: list of dicts {algo, params, props, k, shapes, alpha, vcalpha, n, modes, with_init, scheds, policies,
    wire (bool), timers (bool), max_steps, infinity, stop}.  clauses: the AlgoMon clause names this property owns (others are
    ignored here; they belong to other properties).  nontrivial(verdict, record) -> bool."""
    v = Verdict(prop, tier, level)
    s0 = vseed()
    records, meta = [], {}
    tid = 0
    for pi, plan in enumerate(plans):
        insts, gres = AT.gen_instances(plan["shapes"], plan["alpha"], plan.get("vcalpha", (0,)), n=plan.get("n", 3),
                                       exhaustive=plan.get("exhaustive", False), modes=plan.get("modes", ("min", "max")),
                                       with_init=plan.get("with_init", False), seed=s0 + pi + 1)
        v.add_tlc(gres, "instance generation (Gen_Dcop) for %s" % plan["algo"])
        if plan.get("filter"):
            insts = [i for i in insts if plan["filter"](i)]
        for inst in insts:
            for si in range(plan.get("scheds", 3)):
                pol = plan.get("policies", AT.POLICIES)[si % len(plan.get("policies", AT.POLICIES))]
                sseed = s0 * 1000003 + tid
                try:
                    w = AT.run_one(inst, plan["algo"], plan.get("params", {}), sseed, policy=pol, wire=plan.get("wire", False),
                                   max_steps=plan.get("max_steps", 3000), timers=plan.get("timers", False), stop=plan.get("stop"))
                except Exception as ex:   # the computations could not even be built
                    what = "building the %s computations raised %s: %s" % (plan["algo"], type(ex).__name__, str(ex)[:80])
                    if "EXC" in clauses:
                        v.violation({"algo": plan["algo"], "clause": "BUILD_EXC", "shape": inst["shape"], "params": plan.get("params", {})},
                                    what, {"inst": inst, "params": plan.get("params", {})})
                    else:
                        v.notes.append(what + " on shape " + inst["shape"])
                    continue
                rec = AT.trace_record(tid, w, plan["props"], k=plan.get("k", 0), infinity=plan.get("infinity", 10000))
                records.append(rec)
                meta[tid] = {"algo": plan["algo"], "params": plan.get("params", {}), "inst": inst, "sched_seed": sseed,
                             "policy": pol, "wire": plan.get("wire", False), "steps": len(w.events),
                             "timers": plan.get("timers", False), "max_steps": plan.get("max_steps", 3000)}
                tid += 1
    verdicts, rejected, jres = AT.judge(records)
    v.add_tlc(jres, "trace validation of %d executions (AlgoMon)" % len(records))
    for t, at in rejected.items():
        v.divergence("trace %d (%s) is not a behaviour of the network model at event %d" % (t, meta[t]["algo"], at))
    if len(rejected) > len(records) // 20:
        raise MachineryError("%d of %d traces rejected by the network model - harness and AlgoMon disagree" % (len(rejected), len(records)))
    seen = set()
    for t, vd in sorted(verdicts.items()):
        m = meta[t]
        v.cov["evaluations"] += 1
        v.cov["traces_validated_against_impl"] += 1
        sig = json.dumps([m["algo"], m["inst"], m["policy"], m["sched_seed"] % 7], sort_keys=True)
        if nontrivial(vd, m) and sig not in seen:
            seen.add(sig)
            v.cov["distinct_nontrivial"] += 1
        fails = sorted({b[0] for b in vd["bad"] if b[0] in clauses})
        for cl in fails:
            at = min(b[1] for b in vd["bad"] if b[0] == cl)
            ctx = [b[2] for b in vd["bad"] if b[0] == cl and b[1] == at][0]
            key = {"algo": m["algo"], "mode": m["inst"]["mode"], "clause": cl, "shape": m["inst"]["shape"],
                   "varcosts": any(any(x) for x in m["inst"]["varcost"].values()), "wire": m["wire"], "cycle": ctx}
            if key_extra:
                key.update(key_extra(vd, m))
            v.violation(key, "%s on %s/%s: %s at event %d (schedule seed %d, policy %s)" % (
                cl, m["algo"], m["inst"]["shape"], cl, at, m["sched_seed"], m["policy"]),
                {"meta": m, "failing_event": at, "final": vd})
        if not fails and nontrivial(vd, m):
            v.sample({"algo": m["algo"], "instance": m["inst"], "policy": m["policy"], "sched_seed": m["sched_seed"],
                      "events": m["steps"], "verdict": vd}, cap=2)
    v.cov["rule"] = rule
    v.cov["exhaustive"] = False
    v.cov["trusted_base"] = ["TLC evaluation of AlgoMon.tla/Dcop.tla", "vlib/simrt.py message plumbing (its FIFO discipline is itself validated by AlgoMon's network clauses)"]
    v.assumptions = list(assumptions)
    return v


def replay(path):
    """Re-run the executions recorded in a replay file and print the monitor's verdict."""
    d = json.load(open(path))
    m = d["replay"]["meta"]
    w = AT.run_one(m["inst"], m["algo"], m["params"], m["sched_seed"], policy=m["policy"], wire=m["wire"],
                   max_steps=m.get("max_steps", 3000), timers=m.get("timers", False))
    props = ["quiet_fin", "opt", "optq", "stop", "c03", "c04", "sat"]
    rec = AT.trace_record(0, w, props, k=m["params"].get("stop_cycle", 0))
    verdicts, rejected, _ = AT.judge([rec])
    print(json.dumps({"verdict": verdicts.get(0), "rejected": rejected, "final_values": w.values()}, indent=1))
    bad = verdicts.get(0, {}).get("bad", [])
    return 1 if any(b[0] == d["key"].get("clause") for b in bad) else 0
