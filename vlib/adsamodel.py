"""Binding of spec/Adsa.tla to pydcop.algorithms.adsa.ADsaComputation (periodic actions are steps of the harness)."""
from .algomodel import Binding, _num
from .common import MachineryError


class AdsaBinding(Binding):
    algo = "adsa"
    module = "Adsa"
    constraint = "Bounded"

    def params(self, consts, inst=None):
        return {"variant": (inst or {}).get("variant", "B"), "probability": 0.5, "period": 1}

    def world(self, inst, consts, seed=1):
        return super().world(inst, consts, seed).use_rnd_for_numpy()

    def _phase(self, c, started):
        if not started:
            return "none"
        if c._start_handle is not None:
            return "delay"
        if c._tick_handle is not None and c._running:
            return "tick"
        return "off"

    def project(self, w):
        loc = {}
        for n, c in w.comps.items():
            nb = sorted(c.neighbors)
            loc[n] = {"run": "running" if c._running else ("stopped" if w.started[n] else "idle"), "ph": self._phase(c, w.started[n]),
                      "val": w.vidx(n, c.current_value),
                      "ca": {x: (w.vidx(x, c.current_assignment[x]) if x in c.current_assignment else 0) for x in nb} or [],
                      "fin": bool(w.fin[n])}
        chan = {}
        for n, c in w.comps.items():
            for x in c.neighbors:
                chan['<<"%s", "%s">>' % (n, x)] = [w.vidx(n, m.value) for _, m in w.chan.get((n, x), [])]
        return {"started": sorted(n for n in w.comps if w.started[n]), "loc": loc, "chan": chan or [],
                "pre": {n: [{"from": s, "x": w.vidx(s, m.value)} for s, m, _ in c._paused_messages_recv] for n, c in w.comps.items()},
                "reinj": {n: [{"from": s, "x": w.vidx(s, m.value)} for s, _, m in w.reinj.get(n, [])] for n in w.comps}}

    def norm(self, p):
        p = dict(p)
        p["started"] = sorted(p["started"])
        return p

    def force(self, w, a):
        f = []
        if a["n"] == "start":
            return [("K", "random", 0.0 if a.get("coin") == 1 else 0.999)]
        if a["n"] == "timer":
            c = w.comps[a["c"]]
            if c._start_handle is not None:
                if a.get("pick", 0) > 0:
                    f.append(("K", "np_randint", a["pick"] - 1))
                return f
            # probability 0.5 > random(): coin 1 = the change is made
            if a.get("coin", 0) == 1:
                f.append(("K", "random", 0.0))
            elif a.get("coin", 0) == 2:
                f.append(("K", "random", 0.999))
            if a.get("pick", 0) > 0:
                f.append(("K", "choice", w.doms[a["c"]][a["pick"] - 1]))
        return f

    def apply(self, w, a):
        if a["n"] != "timer":
            return super().apply(w, a)
        w.rnd.forced.clear()
        for x in self.force(w, a):
            w.rnd.forced.append(x)
        idx = [i for i, t in enumerate(w.timers) if w._timer_owner(t) == a["c"]]
        if len(idx) != 1:
            raise KeyError("computation %s has %d periodic actions armed" % (a["c"], len(idx)))
        import contextlib, io
        with contextlib.redirect_stdout(io.StringIO()):      # (tick() prints while it waits for neighbour values)
            ev = w.step(("timer", idx[0]))
        left = list(w.rnd.forced)
        w.rnd.forced.clear()
        return ev, left


INVS = ["MovesAreBestResponses", "ValueInDomain", "AloneFinishes"]


def model_part(v, tier, clauses, props, seed_off=0):
    from . import algomodel as AM, algotrace as AT
    from .common import seed as vseed
    quick = tier == "quick"
    # (three computations ticking three times each is beyond 20 minutes of TLC with the edge dump: the thorough tier stays with two
    # connected computations, all three variants)
    shapes = ["pair", "unarypair", "isolated"] if quick else ["pair", "pair3", "unarypair", "parallel", "isolated", "isounary"]
    insts, gres = AT.gen_instances(shapes, [0, 1, 2, -1], [0, 1, 3], n=1, seed=vseed() + 2100 + seed_off)
    v.add_tlc(gres, "instance generation (Gen_Dcop) for Adsa.tla")
    if quick:
        insts = AM.spread(insts, 1, 3, offset=seed_off % 2)
    all_i = []
    for k, inst in enumerate(insts):
        for var in (("A", "B", "C") if not quick else ("ABC"[k % 3], "ABC"[(k + 1) % 3])):
            all_i.append(dict(inst, variant=var, _key={"variant": var}))
    consts = {"MaxTicks": 2}
    tot = AM.run_model(v, AdsaBinding(), all_i, consts, INVS, clauses, props, max_paths=400 if quick else 1500)
    v.cov["adsa_model"] = dict(tot, invariants=INVS, max_ticks=consts["MaxTicks"])
    v.cov["replayed_paths"] = v.cov.get("replayed_paths", 0) + tot["paths"]
    v.cov["replayed_steps"] = v.cov.get("replayed_steps", 0) + tot["steps"]
    v.cov["model_edges"] = v.cov.get("model_edges", 0) + tot["edges"]
    return tot
