"""Binding of spec/Dsa.tla to pydcop.algorithms.dsa.DsaComputation (variants A, B, C)."""
from .algomodel import Binding

STRUCT = ["NeighbourSkew", "NextOnlyWhenCurrent"]


class DsaBinding(Binding):
    algo = "dsa"
    module = "Dsa"
    random_options = [0.0, 0.999]
    best_response = True

    def __init__(self, variant="A", probability=0.7):
        self.variant, self.probability = variant, probability

    def params(self, consts, inst=None):
        return {"stop_cycle": consts["StopCycle"], "variant": (inst or {}).get("variant", self.variant), "probability": self.probability}

    def world(self, inst, consts, seed=1):
        return super().world(inst, consts, seed).use_rnd_for_numpy()

    def project(self, w):
        loc = {}
        for n, c in w.comps.items():
            nb = sorted(c.neighbors)
            loc[n] = {"run": "running" if c._running else ("stopped" if w.started[n] else "idle"),
                      "val": w.vidx(n, c.current_value), "cyc": int(c.cycle_count or 0),
                      "cur": {x: (w.vidx(x, c.current_cycle[x]) if x in c.current_cycle else 0) for x in nb} or [],
                      "nxt": {x: (w.vidx(x, c.next_cycle[x]) if x in c.next_cycle else 0) for x in nb} or [],
                      "fin": bool(w.fin[n])}
        chan = {}
        for n, c in w.comps.items():
            for x in c.neighbors:
                chan['<<"%s", "%s">>' % (n, x)] = [w.vidx(n, m.value) for _, m in w.chan.get((n, x), [])]
        return {"started": sorted(n for n in w.comps if w.started[n]), "loc": loc, "chan": chan or [],
                "pre": {n: [{"from": s, "x": w.vidx(s, m.value)} for s, m, _ in c._paused_messages_recv] for n, c in w.comps.items()},
                "reinj": {n: [{"from": s, "x": w.vidx(s, m.value)} for s, _, m in w.reinj.get(n, [])] for n in w.comps}}

    def norm(self, p):
        p = dict(p)
        p["started"] = sorted(p["started"])
        return p

    def force(self, w, a):
        f = []
        if a["n"] == "start":
            if a.get("pick", 0) > 0:
                f.append(("K", "np_randint", a["pick"] - 1))
            return f
        if a.get("coin", 0) == 1:
            f.append(("K", "random", 0.0))
        elif a.get("coin", 0) == 2:
            f.append(("K", "random", 0.999))
        if a.get("pick", 0) > 0:
            f.append(("K", "choice", w.doms[a["c"]][a["pick"] - 1]))
        return f


def model_part(v, tier, invariants, clauses, props, variants=("A", "B", "C"), seed_off=0, stop=None, shapes=None, n=1):
    """Dsa.tla on TLC-drawn instances: every schedule and draw checked by TLC, every explored transition replayed on the real
    DsaComputation objects"""
    from . import algomodel as AM, algotrace as AT
    from .common import seed as vseed
    quick = tier == "quick"
    shapes = shapes or (["pair", "pair3", "unarypair", "isolated", "path3"] if quick else
                        ["pair", "pair3", "unarypair", "parallel", "isolated", "isounary", "path3", "fork3", "triangle", "tern"])
    allinsts = []
    for vi, variant in enumerate(variants):
        insts, gres = AT.gen_instances(shapes, [0, 1, 2, -1], [0, 1, 3], n=n if quick else 2, with_init=False,
                                       seed=vseed() + 600 + seed_off + vi)
        v.add_tlc(gres, "instance generation (Gen_Dcop) for Dsa.tla variant %s" % variant)
        if quick:
            insts = AM.spread(insts, 1, 5, offset=vi * 3)
        for i in insts:
            i["variant"] = variant
            i["_key"] = {"variant": variant}
        allinsts += insts
    consts = {"StopCycle": stop or (2 if quick else 3)}
    tot = AM.run_model(v, DsaBinding(), allinsts, consts, invariants + STRUCT, clauses, props, max_paths=600 if quick else None,
                       edges_for=(lambda i: True) if quick else (lambda i: AM.weight(i) <= 400))
    v.cov["dsa_model"] = dict(tot, invariants=invariants + STRUCT)
    v.cov["replayed_paths"] = v.cov.get("replayed_paths", 0) + tot["paths"]
    v.cov["replayed_steps"] = v.cov.get("replayed_steps", 0) + tot["steps"]
    v.cov["model_edges"] = v.cov.get("model_edges", 0) + tot["edges"]
    return tot
