"""Deterministic orchestrated runtime: the REAL Orchestrator (AgentsMgt, Directory), OrchestratedAgent / ResilientAgent
objects and computations, in-process transport, no thread started.  The facade calls of Orchestrator that block on
threading.Event.wait() (deploy_computations, run, start_replication) are replaced by "step agents until the event is
set"; everything else is pyDCOP's own code.  A step = one loop iteration of one agent (vlib/agentrt.py)."""
import random
from time import perf_counter
from .agentrt import AgentWorld
from pydcop.infrastructure.communication import InProcessCommunicationLayer
from pydcop.infrastructure.orchestrator import Orchestrator
from pydcop.infrastructure.orchestratedagents import OrchestratedAgent, ORCHESTRATOR_MGT


class OrchWorld(AgentWorld):
    def __init__(self, dcop, algo_def, cg, distribution, infinity=10000, replication=None, seed=0, agents=None, metrics_on="value_change"):
        super().__init__(seed)
        # the algorithms and the repair code draw from the global generators: seed them so that a run can be replayed
        random.seed(seed)
        try:
            import numpy
            numpy.random.seed(seed % (2 ** 32))
        except ImportError:
            pass
        self.dcop = dcop
        self.orch = Orchestrator(algo_def, cg, distribution, InProcessCommunicationLayer(), dcop, infinity,
                                 collect_moment=metrics_on)
        oa = self.orch._own_agt
        self.agents["orchestrator"] = oa
        self.dir_agent, self.directory = oa, self.orch.directory
        # Orchestrator.start() followed by the head of Agent._run (run_computations=True), on the caller's thread
        oa.add_computation(self.orch.mgt, ORCHESTRATOR_MGT)
        oa._running = True
        oa.run_computations = True
        oa._start_t = perf_counter()
        oa._on_start()
        oa.run()
        self.booted.add("orchestrator")
        for name in (agents or dcop.agents):
            a = OrchestratedAgent(dcop.agents[name], InProcessCommunicationLayer(), self.orch.address,
                                  metrics_on=metrics_on, replication=replication)
            self.agents[name] = a
        self.phase_steps = {}

    def boot_all(self, order=None, lazy=False, hold=()):
        """lazy: the agents' threads "start" (Agent._on_start) at arbitrary moments of the run, as schedulable steps;
        hold: agents that are not started here at all (solve(late=...) starts them)"""
        names = [n for n in self.agents if n != "orchestrator" and n not in hold]
        if order:
            order.shuffle(names)
        self.unbooted = []
        for i, n in enumerate(names):
            if lazy and i > 0:
                self.unbooted.append(n)
            else:
                self.boot(n, start_directory=False)

    def runnable(self):
        return super().runnable() + ["boot:" + n for n in getattr(self, "unbooted", [])]

    def step(self, name, periodic=False):
        if name.startswith("boot:"):
            n = name[5:]
            self.unbooted.remove(n)
            self.boot(n, start_directory=False)
            return None
        return super().step(name, periodic)

    def until(self, cond, what, max_steps=40000):
        n = self.run(max_steps=max_steps, until=cond)
        self.phase_steps[what] = n
        return cond()

    def mgt(self, method, arg=None):
        self.orch._mgt_method(method, arg)

    def solve(self, late=(), last=()):
        """deploy_computations() + run(), the way commands/solve.py drives the orchestrator.
        late: agents (hosting nothing) whose thread only starts after the orchestrator has handled the run request
        last: agents whose thread only starts once every other agent has registered and the orchestrator is idle"""
        m = self.orch.mgt
        for n in list(late) + list(last):
            if n in getattr(self, "unbooted", []):
                self.unbooted.remove(n)
        if last:
            self.run(max_steps=40000, until=lambda: m.all_registered.is_set())
            for n in last:
                if n not in self.booted:
                    # (the orchestrator may already - wrongly - consider everybody registered: the deployment then goes ahead
                    # without this agent, exactly as it would with real threads)
                    self.unbooted = getattr(self, "unbooted", []) + [n]
        if not self.until(lambda: m.all_registered.is_set(), "registration"):
            return "not all agents registered"
        self.mgt("_orchestrator_deploy_computations")
        if not self.until(lambda: m.ready_to_run.is_set(), "deployment"):
            return "deployment never completed"
        self.orch.repair_only = False
        self.mgt("_orchestrator_run_computations")
        if late:
            self.until(lambda: any(s == "running" for s in m._agts_state.values()), "run request handled", max_steps=2000)
            for n in late:
                if n not in self.booted:
                    self.boot(n, start_directory=False)
        if not self.until(lambda: m._all_agt_stopped.is_set(), "run"):
            return "quiescent before all agents stopped"
        return None

    # ---- resilience -----------------------------------------------------------
    def deploy(self):
        m = self.orch.mgt
        if not self.until(lambda: m.all_registered.is_set(), "registration"):
            return "not all agents registered"
        self.mgt("_orchestrator_deploy_computations")
        if not self.until(lambda: m.ready_to_run.is_set(), "deployment"):
            return "deployment never completed"
        return None

    def replicate(self, k):
        """Orchestrator.start_replication(k)"""
        import threading
        m = self.orch.mgt
        m.ready_to_run = threading.Event()
        self.accepts = []
        for name, a in self.agents.items():
            rc = getattr(a, "replication_comp", None)
            if rc is None:
                continue
            orig = rc._accept_replica

            def accept(origin_agt, comp_def, footprint, _o=orig, _rc=rc, _n=name):
                self.accepts.append({"a": _n, "c": comp_def.name, "owner": origin_agt, "fp": footprint,
                                     "held": sorted(_rc.hosted_replicas), "remaining": _rc._remaining_capacity()})
                return _o(origin_agt, comp_def, footprint)
            rc._accept_replica = accept
        self.mgt("_orchestrator_start_replication", k)
        if not self.until(lambda: m.ready_to_run.is_set(), "replication"):
            return "replication never reported done by all agents"
        return None

    def run_algo(self, steps=150):
        """Orchestrator.run() without scenario: start the computations and let them exchange messages for a while"""
        self.orch.repair_only = False
        self.mgt("_orchestrator_run_computations")
        self.run(max_steps=steps)

    def remove_agents(self, leaving, max_steps=60000):
        """a scenario event removing the agents `leaving`; returns the repair status the orchestrator reported (None: never)"""
        import os
        from pydcop.dcop.scenario import DcopEvent, EventAction
        from .common import scratch
        m = self.orch.mgt
        self.repair_status = []
        orig = m._dump_repair_metrics

        def dump(status, duration, _o=orig):
            self.repair_status.append(status)
            cwd = os.getcwd()
            os.chdir(str(scratch()))          # the orchestrator writes evtdist_N.yaml / events.yaml in the current directory
            try:
                return _o(status, duration)
            finally:
                os.chdir(cwd)
        m._dump_repair_metrics = dump
        cwd = os.getcwd()
        os.chdir(str(scratch()))
        try:
            evt = DcopEvent("e1", actions=[EventAction("remove_agent", agent=a) for a in leaving])
            self.mgt("_orchestrator_scenario_event", evt)
            self.until(lambda: bool(self.repair_status), "repair", max_steps=max_steps)
        finally:
            os.chdir(cwd)
        # let the resume requests and the re-replication messages flow
        self.run(max_steps=400)
        return self.repair_status[0] if self.repair_status else None
