"""Binding of spec/Dba.tla to pydcop.algorithms.dba.DbaComputation."""
from .algomodel import Binding, _num


class DbaBinding(Binding):
    algo = "dba"
    module = "Dba"
    constraint = "Bounded"     # the exploration is cut after MaxCyc rounds

    def params(self, consts, inst=None):
        return {"max_distance": consts["MaxDistance"], "infinity": consts["Infinity"]}

    def _msg(self, w, src, m):
        if m.type == "dba_ok":
            return {"t": "ok", "x": w.vidx(src, m.value), "ev": 0, "tc": 0}
        if m.type == "dba_improve":
            return {"t": "imp", "x": _num(m.improve), "ev": _num(m.current_eval), "tc": int(m.termination_counter)}
        return {"t": "end", "x": 0, "ev": 0, "tc": 0}

    def project(self, w):
        loc = {}
        for n, c in w.comps.items():
            nb = sorted(c._neighbors)
            names = [r.name for r in c.constraints]
            loc[n] = {"mode": c._mode, "val": w.vidx(n, c.current_value), "cyc": int(c.cycle_count or 0), "cost": _num(c.current_cost),
                      "wt": {nm: int(x) for nm, x in zip(names, c.__constraints_weights__)} or [],
                      "viol": sorted(names[i] for i in c._violated_constraints),
                      "nv": {x: (w.vidx(x, c._neighbors_values[x]) if x in c._neighbors_values else 0) for x in nb} or [],
                      "ni": sorted(c._neighbors_improvements),
                      "tc": int(c._termination_counter), "cons": {None: "none", True: "yes", False: "no"}[c._consistent],
                      "canmove": bool(c._can_move), "qlm": bool(c._quasi_local_minimum), "imp": _num(c._my_improve),
                      "newv": w.vidx(n, c._new_value),
                      "ppo": [{"from": s, "m": self._msg(w, s, m)} for s, m in c.__postponed_ok_messages__],
                      "ppi": [{"from": s, "m": self._msg(w, s, m)} for s, m in c.__postponed_improve_messages__],
                      "fin": bool(w.fin[n])}
        chan = {}
        for n, c in w.comps.items():
            for x in c._neighbors:
                chan['<<"%s", "%s">>' % (n, x)] = [self._msg(w, n, m) for _, m in w.chan.get((n, x), [])]
        return {"started": sorted(n for n in w.comps if w.started[n]), "loc": loc, "chan": chan or [],
                "pre": {n: [{"from": s, "m": self._msg(w, s, m)} for s, m, _ in c._paused_messages_recv] for n, c in w.comps.items()},
                "reinj": {n: [{"from": s, "m": self._msg(w, s, m)} for s, _, m in w.reinj.get(n, [])] for n in w.comps}}

    def norm(self, p):
        p = dict(p)
        p["started"] = sorted(p["started"])
        p["loc"] = {n: dict(l, ni=sorted(l["ni"]), viol=sorted(l["viol"])) for n, l in p["loc"].items()}
        return p

    def force(self, w, a):
        if a.get("pick", 0) > 0:
            return [w.doms[a["c"]][a["pick"] - 1]]
        return []


DIAM = {"pair": 1, "pair3": 1, "parallel": 1, "triangle": 1, "path3": 2, "path3d3": 2, "fork3": 2}
INVS = ["FinishedOnlySolution", "ValueInDomain", "CounterBounded", "WeightsPositive", "AtMostOnePostponed", "NeighbourSkew"]


def model_part(v, tier, clauses, props, seed_off=0):
    """Dba.tla on TLC-drawn CSP instances: every start order, FIFO delivery order and draw up to MaxCyc rounds checked by TLC,
    every explored transition replayed on the real DbaComputation objects"""
    from . import algomodel as AM, algotrace as AT
    from .common import seed as vseed
    quick = tier == "quick"
    inf = 10000
    tot_all = {}
    invs = [x.replace("FinishedOnlySolution", "FinishedOnlyOnSolution") for x in INVS]
    for d in (1, 2):
        shapes = [s for s, x in DIAM.items() if x == d and (not quick or s in ("pair", "parallel", "path3"))]
        insts, gres = AT.gen_instances(shapes, [0, 0, inf], [0], n=1 if quick else 3, modes=("min",), seed=vseed() + 1700 + seed_off + d)
        v.add_tlc(gres, "CSP instance generation (Gen_Dcop) for Dba.tla, diameter %d" % d)
        if quick:
            insts = AM.spread(insts, 1, 3, offset=seed_off % 2)
        for md in ((d,) if quick else (d, d + 1)):
            consts = {"MaxDistance": md, "Infinity": inf, "MaxCyc": md + (1 if quick and d > 1 else 2 if quick else 3)}
            for i in insts:
                i["_key"] = {"max_distance_minus_diameter": md - d, "infinity": inf}
            tot = AM.run_model(v, DbaBinding(), insts, consts, invs, clauses, props, max_paths=500 if quick else 4000,
                               edges_for=(lambda i: True) if quick else (lambda i: len(i["vars"]) <= 2 or md == d))
            for k, x in tot.items():
                if isinstance(x, (int, float)) and not isinstance(x, bool):
                    tot_all[k] = tot_all.get(k, 0) + x
                elif isinstance(x, dict):
                    dd = tot_all.setdefault(k, {})
                    for kk, xx in x.items():
                        dd[kk] = dd.get(kk, 0) + xx
    v.cov["dba_model"] = dict(tot_all, invariants=invs, infinity=inf, max_distance="diameter" + ("" if quick else ", diameter + 1"))
    v.cov["replayed_paths"] = v.cov.get("replayed_paths", 0) + tot_all.get("paths", 0)
    v.cov["replayed_steps"] = v.cov.get("replayed_steps", 0) + tot_all.get("steps", 0)
    v.cov["model_edges"] = v.cov.get("model_edges", 0) + tot_all.get("edges", 0)
    return tot_all
