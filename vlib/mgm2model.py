"""Binding of spec/Mgm2.tla to pydcop.algorithms.mgm2.Mgm2Computation."""
from .algomodel import Binding, _num

STRUCT = ["NeighbourSkew", "AtMostOnePostponed"]
STATES = ["value", "offer", "answer?", "gain", "go?"]


class Mgm2Binding(Binding):
    algo = "mgm2"
    module = "Mgm2"
    random_options = [0.0, 0.999]

    def params(self, consts, inst=None):
        return {"stop_cycle": (inst or {}).get("stop", consts["StopCycle"]), "favor": (inst or {}).get("favor", "unilateral"), "threshold": 0.5}

    def world(self, inst, consts, seed=1):
        w = super().world(inst, consts, seed)
        w.pairs = []
        for n, c in w.comps.items():
            orig = c._handle_offer_messages

            def hom(_o=orig, _c=c, _n=n):
                cyc = int(_c.cycle_count or 0)
                offerer = _c._is_offerer
                r = _o()
                # (the acceptor's state may already have moved on when the handler returns: read what the call decided)
                if not offerer and getattr(_c, "_last_accept", None):
                    w.pairs.append([cyc, _c._last_accept, _n])
                _c._last_accept = None
                return r
            c._handle_offer_messages = hom
            c._last_accept = None
            origpost = c.post_msg

            def post(target, msg, prio=None, on_error=None, _o=origpost, _c=c):
                if msg.type == "answer?" and msg.accept:
                    _c._last_accept = target
                return _o(target, msg, prio, on_error)
            c.post_msg = post
        return w

    def pairs(self, w):
        return [list(p) for p in getattr(w, "pairs", [])]

    def _msg(self, w, src, dst, m):
        if m.type == "value":
            return {"t": "value", "x": w.vidx(src, m.value)}
        if m.type == "gain":
            return {"t": "gain", "x": _num(m.value)}
        if m.type == "offer":
            tab = sorted([w.vidx(src, k[0]), w.vidx(dst, k[1]), _num(g)] for k, g in m.offers.items())
            return {"t": "offer", "off": bool(m.is_offering), "tab": tab}
        if m.type == "answer?":
            return {"t": "answer?", "acc": bool(m.accept), "x": w.vidx(dst, m.value) if m.accept else 0, "g": _num(m.gain) if m.accept else 0}
        return {"t": "go?", "go": bool(m.go)}

    def project(self, w):
        loc = {}
        for n, c in w.comps.items():
            nb = sorted(v.name for v in c._neighbors)
            loc[n] = {"st": c._state or "none", "val": w.vidx(n, c.current_value), "cyc": int(c.cycle_count or 0), "cost": _num(c.current_cost),
                      "nv": {x: (w.vidx(x, c._neighbors_values[x]) if x in c._neighbors_values else 0) for x in nb} or [],
                      "ngs": sorted(c._neighbors_gains), "ng": {x: _num(c._neighbors_gains.get(x)) for x in nb} or [],
                      "offers": [{"from": s, "off": bool(m.is_offering),
                                  "tab": sorted([w.vidx(s, k[0]), w.vidx(n, k[1]), _num(g)] for k, g in m.offers.items())} for s, m in c._offers],
                      "partner": c._partner.name if c._partner is not None else "", "committed": bool(c._committed), "offerer": bool(c._is_offerer),
                      "pgain": _num(c._potential_gain), "pval": w.vidx(n, c._potential_value), "canmove": bool(c._can_move),
                      "pp": {s: [{"from": f, "m": self._msg(w, f, n, m)} for f, m, _ in c._postponed_msg[s]] for s in STATES},
                      "fin": bool(w.fin[n])}
        chan = {}
        for n, c in w.comps.items():
            for x in (v.name for v in c._neighbors):
                chan['<<"%s", "%s">>' % (n, x)] = [self._msg(w, n, x, m) for _, m in w.chan.get((n, x), [])]
        return {"started": sorted(n for n in w.comps if w.started[n]), "loc": loc, "chan": chan or [],
                "pre": {n: [{"from": s, "m": self._msg(w, s, n, m)} for s, m, _ in c._paused_messages_recv] for n, c in w.comps.items()},
                "reinj": {n: [{"from": s, "m": self._msg(w, s, n, m)} for s, _, m in w.reinj.get(n, [])] for n in w.comps}}

    def norm(self, p):
        def msg(m):
            if m.get("t") == "offer":
                m = dict(m, tab=sorted(m["tab"]))
            return m
        p = dict(p)
        p["started"] = sorted(p["started"])
        p["loc"] = {n: dict(l, ngs=sorted(l["ngs"]), offers=[dict(o, tab=sorted(o["tab"])) for o in l["offers"]],
                            pp={s: [dict(e, m=msg(e["m"])) for e in q] for s, q in l["pp"].items()}) for n, l in p["loc"].items()}
        p["chan"] = {k: [msg(m) for m in q] for k, q in p["chan"].items()} if p["chan"] else p["chan"]
        p["pre"] = {n: [dict(e, m=msg(e["m"])) for e in q] for n, q in p["pre"].items()}
        p["reinj"] = {n: [dict(e, m=msg(e["m"])) for e in q] for n, q in p["reinj"].items()}
        return p

    def force(self, w, a):
        f = []
        c = w.comps[a["c"]]
        for d in a.get("draws", []):
            k, x = d["k"], d["x"]
            if k == "value":
                f.append(("K", "choice", w.doms[a["c"]][x - 1]))
            elif k == "offerer":
                f.append(("K", "uniform", 0.0 if x == 1 else 0.999))
            elif k == "partner":
                f.append(("K", "choice", next(v for v in c._neighbors if v.name == x)))
            elif k == "favor":
                f.append(("K", "uniform", 0.999 if x == 1 else 0.0))
            elif k == "offer":
                vp, mv, partner = x
                f.append(("K", "choice", (w.doms[partner][vp - 1], w.doms[a["c"]][mv - 1], partner)))
        return f


def model_part(v, tier, invariants, clauses, props, seed_off=0, stop=None, shapes=None, regen=None):
    """Mgm2.tla on TLC-drawn instances (all schedules and draws; every explored transition replayed on the real Mgm2Computation
    objects).  regen = (finding file, full invariant, stop_cycle): the known finding is regenerated from the model - TLC's
    counterexample to the unrestricted invariant is replayed on the real computations and judged."""
    import json
    from . import algomodel as AM, algotrace as AT
    from .common import seed as vseed, VERIF
    quick = tier == "quick"
    shapes = shapes or (["pair", "pair3", "unarypair", "path3"] if quick else ["pair", "pair3", "unarypair", "parallel", "isolated", "path3", "fork3", "path3d3"])
    insts, gres = AT.gen_instances(shapes, [0, 1, 2, 5, -1], [0, 1, 3], n=1 if quick else 2, with_init=True, seed=vseed() + 800 + seed_off)
    v.add_tlc(gres, "instance generation (Gen_Dcop) for Mgm2.tla")
    for i, inst in enumerate(insts):
        inst["favor"] = ["unilateral", "coordinated", "no"][i % 3]
        inst["_key"] = {"favor": inst["favor"]}
        two = len(inst["vars"]) - sum(1 for x in inst["vars"] if not any(x in c["scope"] and len(c["scope"]) > 1 for c in inst["cons"])) <= 2
        if i % 3 == 0 and two:
            inst["init"] = {}
        # two connected variables: three cycles (what a cycle leaves behind meets the next one); three: two cycles in the quick tier
        inst["stop"] = stop or (3 if two or not quick else 2)
    if quick:
        insts = AM.spread(insts, 2, 8)
    consts = {"StopCycle": stop or 2}
    tot = AM.run_model(v, Mgm2Binding(), insts, consts, invariants + STRUCT, clauses, props, max_paths=500 if quick else None,
                       edges_for=(lambda i: True) if quick else (lambda i: AM.weight(i) <= 200))
    if regen:
        fname, inv, sc = regen
        d = json.load(open(VERIF / "findings" / fname))
        finst = dict(d["replay"]["meta"]["inst"], favor="unilateral")
        t2 = AM.run_model(v, Mgm2Binding(), [finst], {"StopCycle": sc}, [inv], clauses, props, edges_for=lambda i: False, workers=8)
        tot["regenerated_finding_states"] = t2["model_states"]
    v.cov["mgm2_model"] = dict(tot, stop_cycle=consts["StopCycle"], invariants=invariants + STRUCT)
    v.cov["replayed_paths"] = v.cov.get("replayed_paths", 0) + tot["paths"]
    v.cov["replayed_steps"] = v.cov.get("replayed_steps", 0) + tot["steps"]
    v.cov["model_edges"] = v.cov.get("model_edges", 0) + tot["edges"]
    return tot
