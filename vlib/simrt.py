"""Deterministic computation-level runtime: the REAL computation objects of pyDCOP, built by the
repository's own graph builders and build_computation(), with message passing replaced by explicit
per-(src, dst) FIFO channels.  A step is start(c), deliver(src, dst), reinj(dst) (a message buffered
before start and re-injected at priority 19) or timer(i).  Nothing of pyDCOP's logic is re-implemented
here; the harness only moves messages and records what the computations do."""
import collections, importlib, json, random as _stdrandom
import numpy as np
from .common import REPO  # noqa: F401
from pydcop.dcop.objects import Variable, Domain, VariableWithCostDict, VariableWithCostFunc, VariableNoisyCostFunc
from pydcop.dcop.relations import NAryMatrixRelation, constraint_from_str, UnaryFunctionRelation
from pydcop.dcop.dcop import DCOP
from pydcop.algorithms import AlgorithmDef, ComputationDef, load_algorithm_module
from pydcop.infrastructure.computations import build_computation, VariableComputation
from pydcop.utils.simple_repr import simple_repr, from_repr
from pydcop.utils.expressionfunction import ExpressionFunction


class Rnd:
    """Seedable, recording, forcible replacement of the stdlib `random` module inside algorithm modules."""

    def __init__(self, seed=0):
        self.r = _stdrandom.Random(seed)
        self.log = []
        self.forced = collections.deque()   # values to return instead of drawing
        self.choices_seen = []              # the option lists of the choice() calls
        self.draws_seen = []                # (kind, outcomes) of every enumerable draw (exploration of the real code)
        self.explore = False
        self.random_options = [0.0, 0.999]  # outcomes of random() that matter to a probability threshold strictly between them

    def _take(self, kind, draw, ok=lambda x: True):
        # a forced entry ("K", kind, value) only serves a draw of that kind; a bare value serves the next draw
        tagged = bool(self.forced) and isinstance(self.forced[0], tuple) and len(self.forced[0]) == 3 and self.forced[0][0] == "K"
        if self.forced and (not tagged or self.forced[0][1] == kind):
            v = self.forced.popleft()
            if tagged:
                v = v[2]
            if not ok(v):
                raise ForcedMismatch("forced draw %r not possible for %s" % (v, kind))
        else:
            v = draw()
        self.log.append([kind, v if isinstance(v, (int, float, str, bool)) or v is None else repr(v)])
        return v

    # every draw records its kind and its possible outcomes (draws_seen); in exploration mode (explore=True) an unforced draw
    # returns the first outcome, so that the harness can enumerate the others by re-execution
    def choice(self, seq):
        seq = list(seq)
        self.choices_seen.append(seq)
        self.draws_seen.append(("choice", seq))
        return self._take("choice", lambda: seq[0] if self.explore else self.r.choice(seq), lambda v: v in seq)

    def random(self):
        self.draws_seen.append(("random", list(self.random_options)))
        return self._take("random", lambda: self.random_options[0] if self.explore else self.r.random())

    def uniform(self, a, b):
        opts = [a + (b - a) * x for x in self.random_options]
        self.draws_seen.append(("uniform", opts))
        return self._take("uniform", lambda: opts[0] if self.explore else self.r.uniform(a, b))

    def randint(self, a, b):
        return self._take("randint", lambda: self.r.randint(a, b))

    def np_randint(self, n):
        """numpy.random.randint(n): 0 <= result < n"""
        self.draws_seen.append(("np_randint", list(range(n))))
        return self._take("np_randint", lambda: 0 if self.explore else self.r.randrange(n), lambda v: 0 <= v < n)

    def sample(self, pop, k):
        return self.r.sample(list(pop), k)

    def shuffle(self, x):
        self.r.shuffle(x)

    def seed(self, *a):
        pass


class ForcedMismatch(Exception):
    pass


def build_dcop(inst, ext=None):
    """inst: abstract instance (vars, doms | dsize, cons[{name, scope, tab, kind?}], varcost?, init?, mode);
    ext: {variable: value index} = external variables (the DCOP is then assembled the way the YAML loader does)"""
    # concrete domain values: never the positions 0..n-1 (an index must not pass for a value), ints for even-ranked
    # variables and strings for odd-ranked ones, neither in sorted order
    doms = inst.get("doms") or {v: ([7, 3, 5, 11] if i % 2 == 0 else ["R", "G", "B", "A"])[:inst["dsize"][v]]
                                for i, v in enumerate(inst["vars"])}
    vars_ = {}
    vc = inst.get("varcost") or {}
    init = inst.get("init") or {}
    for v in inst["vars"]:
        d = Domain("d_" + v, "", doms[v])
        iv = doms[v][init[v] - 1] if init.get(v) else None
        costs = vc.get(v)
        kind = (inst.get("varkind") or {}).get(v, "dict")
        if ext and v in ext:
            from pydcop.dcop.objects import ExternalVariable
            vars_[v] = ExternalVariable(v, d, doms[v][ext[v] - 1])
        elif costs and any(costs):
            table = dict(zip(doms[v], costs))
            if kind == "func":
                expr = " + ".join("(%d if %s == %r else 0)" % (c, v, x) for x, c in table.items())
                vars_[v] = VariableWithCostFunc(v, d, ExpressionFunction(expr), initial_value=iv)
            else:
                vars_[v] = VariableWithCostDict(v, d, table, initial_value=iv)
        else:
            vars_[v] = Variable(v, d, initial_value=iv)
    dcop = DCOP("case", inst.get("mode", "min"))
    for v in vars_.values():
        if not (ext and v.name in ext):
            dcop.add_variable(v)
    if ext:
        dcop.external_variables = {v: vars_[v] for v in ext}
    for i, c in enumerate(inst["cons"]):
        sc = [vars_[s] for s in c["scope"]]
        shape = [len(doms[s]) for s in c["scope"]]
        tab = [float("inf") if x == "inf" else x for x in c["tab"]]
        m = np.array(tab).reshape(shape)
        rel = NAryMatrixRelation(sc, m, name=c.get("name", "c%d" % i))
        if ext:
            dcop._constraints[rel.name] = rel
        else:
            dcop.add_constraint(rel)
    return dcop, doms


def _plain(x):
    if isinstance(x, (np.integer,)):
        return int(x)
    if isinstance(x, (np.floating,)):
        return float(x)
    if isinstance(x, (np.str_,)):
        return str(x)
    if isinstance(x, dict):
        return {str(k): _plain(v) for k, v in x.items()}
    if isinstance(x, (list, tuple, set, frozenset)):
        return [_plain(v) for v in x]
    if isinstance(x, (int, float, str, bool)) or x is None:
        return x
    return repr(x)


def payload(msg):
    """A JSON projection of a message: its type and its public content."""
    try:
        r = simple_repr(msg)
        r = {k: v for k, v in r.items() if not k.startswith("__")}
    except Exception:
        r = {"unrepresentable": True}
    out = _plain(r)
    out["t"] = msg.type
    if hasattr(msg, "cycle_id"):
        out["cycle_id"] = msg.cycle_id
    return out


def wire(msg):
    """What HttpCommunicationLayer.send_msg / MPCHttpHandler.do_POST do to a message."""
    r = json.loads(json.dumps(simple_repr(msg)))
    return from_repr(r)


class World:
    def __init__(self, inst, algo, params=None, seed=0, wire_mode=False, graph=None, dcop=None):
        self.inst, self.algo = inst, algo
        if dcop is None:
            dcop, self.doms = build_dcop(inst)
        else:
            self.doms = {v.name: list(v.domain) for v in dcop.variables.values()}
        self.dcop = dcop
        self.mod = load_algorithm_module(algo)
        self.rnd = Rnd(seed)
        _stdrandom.seed(seed)
        np.random.seed(seed % (2 ** 32))
        self._patch_random()
        import pydcop.infrastructure.computations as _cm, numpy.random as _npr
        _cm.random = _npr                   # a binding may install an adapter on self.rnd afterwards (use_rnd_for_numpy)
        gm = importlib.import_module("pydcop.computations_graph." + (graph or self.mod.GRAPH_TYPE))
        self.cg = gm.build_computation_graph(dcop)
        self.algo_def = AlgorithmDef.build_with_default_param(
            algo, params or {}, mode=dcop.objective, parameters_definitions=self.mod.algo_params)
        self.wire_mode = wire_mode
        self.comps, self.started, self.fin = {}, {}, {}
        self.chan = collections.defaultdict(list)     # (src, dst) -> [(mid, msg)]
        self.reinj = collections.defaultdict(list)    # dst -> [(src, mid, msg)]
        self.timers = []                              # [(comp name, period, cb)]
        self.events = []
        self.lost = []
        self.mid = 0
        self._cur = None
        for node in self.cg.nodes:
            cdef = ComputationDef(node, self.algo_def)
            if wire_mode:
                cdef = from_repr(json.loads(json.dumps(simple_repr(cdef))))
            c = build_computation(cdef)
            self._install(c)

    def use_rnd_for_numpy(self):
        """VariableComputation.random_value_selection draws with numpy.random.randint: route it through self.rnd too"""
        import pydcop.infrastructure.computations as _cm
        rnd = self.rnd

        class _Np:
            @staticmethod
            def randint(n):
                return rnd.np_randint(n)
        _cm.random = _Np
        return self

    # ---- plumbing ----------------------------------------------------
    def _patch_random(self):
        import random as stdr
        mods = [self.mod, importlib.import_module("pydcop.dcop.relations"),
                importlib.import_module("pydcop.dcop.objects")]
        for m in mods:
            if getattr(m, "random", None) is stdr or isinstance(getattr(m, "random", None), Rnd):
                m.random = self.rnd
            if getattr(m, "choice", None) is not None and (getattr(m, "choice") == stdr.choice or
                                                           getattr(getattr(m, "choice"), "__self__", None).__class__ is Rnd):
                m.choice = self.rnd.choice

    def _install(self, c):
        name = c.name
        self.comps[name] = c
        self.started[name] = False
        self.fin[name] = False
        c.message_sender = self._sender
        c._periodic_action_handler = self
        w = self

        def finished(*a, **k):
            w.fin[name] = True
            if w._cur is not None:
                w._cur["finev"].append(name)
        c.finished = finished
        if isinstance(c, VariableComputation):
            orig = c.value_selection

            def value_selection(val, cost=0, _orig=orig):
                if w._cur is not None:
                    w._cur["sel"].append([name, w.vidx(name, val)])
                return _orig(val, cost)
            c.value_selection = value_selection

    # periodic action handler protocol (Agent provides it in the real system)
    def set_periodic_action(self, period, cb):
        h = (len(self.timers), period, cb)
        self.timers.append(h)
        return h

    def remove_periodic_action(self, handle):
        self.timers = [t for t in self.timers if t is not handle]

    def _sender(self, src, dst, msg, prio=None, on_error=None):
        if dst not in self.comps:
            # addressed to a computation that does not exist: it can never be delivered
            self.lost.append((src, repr(dst), msg.type))
            return
        self.mid += 1
        rec = {"id": self.mid, "dst": dst, "p": payload(msg)}
        if self.wire_mode:
            msg = wire(msg)
        if prio == 19:
            self.reinj[dst].append((src, self.mid, msg))
            rec["reinj"] = True
        else:
            self.chan[(src, dst)].append((self.mid, msg))
        if self._cur is not None:
            rec["src"] = src
            self._cur["sent"].append(rec)

    def vidx(self, comp, val):
        """1-based index of a value in the domain of comp's variable; 0 = unset; -1 = not a domain value"""
        if val is None:
            return 0
        c = self.comps[comp]
        var = getattr(c, "variable", None)
        dom = list(var.domain) if var is not None else self.doms.get(comp, [])
        for i, d in enumerate(dom):
            if type(val) is bool or type(d) is bool:
                if val is d:
                    return i + 1
            elif d == val:
                return i + 1
        return -1

    # ---- steps -------------------------------------------------------
    def enabled(self):
        steps = [("start", n) for n in self.comps if not self.started[n]]
        for dst, q in self.reinj.items():
            if q:
                steps.append(("reinj", dst))
        for (s, d), q in self.chan.items():
            if q and not self.reinj[d]:
                steps.append(("deliver", s, d))
        for i, t in enumerate(self.timers):
            if self.started.get(self._timer_owner(t), True):
                steps.append(("timer", i))
        return steps

    def _timer_owner(self, t):
        cb = t[2]
        for cell in (getattr(cb, "__closure__", None) or ()):
            obj = cell.cell_contents
            if hasattr(obj, "name") and getattr(obj, "name", None) in self.comps:
                return obj.name
            owner = getattr(obj, "__self__", None)
            if owner is not None and getattr(owner, "name", None) in self.comps:
                return owner.name
        return None

    def step(self, st):
        kind = st[0]
        ev = {"e": kind, "c": "?", "sent": [], "sel": [], "finev": [], "exc": "", "val": 0, "cyc": 0, "fin": False}
        self._cur = ev
        nlog = len(self.rnd.log)
        try:
            if kind == "start":
                c = self.comps[st[1]]
                ev["c"] = st[1]
                self.started[st[1]] = True
                c.start()
            elif kind == "deliver":
                s, d = st[1], st[2]
                mid, msg = self.chan[(s, d)].pop(0)
                ev.update(src=s, c=d, mid=mid, mt=msg.type)
                self._annotate(ev, s, msg)
                self.comps[d].on_message(s, msg, 0)
            elif kind == "reinj":
                d = st[1]
                s, mid, msg = self.reinj[d].pop(0)
                ev.update(src=s, c=d, mid=mid, mt=msg.type)
                self._annotate(ev, s, msg)
                self.comps[d].on_message(s, msg, 0)
            elif kind == "timer":
                t = self.timers[st[1]]
                ev["c"] = self._timer_owner(t) or "?"
                t[2]()
        except ForcedMismatch:
            raise
        except Exception as e:
            ev["exc"] = type(e).__name__ + ": " + str(e)[:200].replace('"', "'").replace("\\", "/")
        finally:
            self._cur = None
        c = self.comps.get(ev.get("c"))
        ev["rnd"] = self.rnd.log[nlog:]
        if c is not None:
            ev["val"] = self.vidx(c.name, getattr(c, "current_value", None)) if isinstance(c, VariableComputation) else 0
            ev["cyc"] = int(getattr(c, "cycle_count", 0) or 0)
            ev["fin"] = self.fin[c.name]
        self.events.append(ev)
        return ev

    def _annotate(self, ev, src, msg):
        """observables of the delivered message that the monitors refer to"""
        if msg.type == "answer?" and getattr(msg, "accept", False) is True:
            ev["accept"] = True
        if msg.type in ("dsa_value", "adsa_value") and src in self.comps:
            ev["mval"] = self.vidx(src, msg.value)

    def quiet(self):
        return all(self.started.values()) and not any(self.chan.values()) and not any(self.reinj.values())

    def values(self):
        return {n: self.vidx(n, c.current_value) for n, c in self.comps.items() if isinstance(c, VariableComputation)}

    def run_random(self, sched_rnd, max_steps=5000, timers=False, stop=None, bias=None):
        """Drive to quiescence under a seeded random per-channel-FIFO schedule."""
        import contextlib, io
        with contextlib.redirect_stdout(io.StringIO()):
            return self._run_random(sched_rnd, max_steps, timers, stop, bias)

    def _run_random(self, sched_rnd, max_steps, timers, stop, bias):
        n = 0
        while n < max_steps:
            en = self.enabled()
            if not timers:
                en = [s for s in en if s[0] != "timer"]
            if not en:
                break
            if bias:
                en = bias(self, en) or en
            ev = self.step(sched_rnd.choice(en))
            n += 1
            if ev["exc"] or (stop and stop(self, ev)):
                break
        return n


def var_names(world):
    return [n for n, c in world.comps.items() if isinstance(c, VariableComputation)]
