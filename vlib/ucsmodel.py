"""Ucs.tla bound to pydcop.replication.dist_ucs_hostingcosts.UCSReplication: real replication computations of several agents (one
real Discovery object and one real AgentDef each; the agent itself is a stub that only lists its active computations), messages
held in harness-owned FIFO lists per ordered pair of agents; one step = replicate(k) on one agent or the delivery of the oldest
message of one channel.  TLC explores every interleaving of Ucs.tla on TLC-drawn deployments; every transition it explored is
applied to the real objects and the whole state (held replicas, pending requests, in-progress set, reported hosts, every message
with its paths table) compared."""
import json, random, collections
from . import algomodel as AM, replay as RP
from .common import MachineryError
from pydcop.dcop.objects import AgentDef
from pydcop.infrastructure.discovery import Discovery
from pydcop.computations_graph.objects import ComputationNode
from pydcop.algorithms import AlgorithmDef, ComputationDef
from pydcop.replication import dist_ucs_hostingcosts as UCS

H = "__hosting__"


class _Active:
    def __init__(self, name, fp):
        self.name, self._fp = name, fp

    def footprint(self):
        return self._fp


class _StubAgent:
    """what UCSReplication reads of its agent: name, agent_def, computations() with footprints"""
    def __init__(self, name, agent_def, comps):
        self.name, self.agent_def, self._comps = name, agent_def, comps

    def computations(self, include_technical=False):
        return list(self._comps)


class UcsWorld:
    def __init__(self, D):
        self.D = D
        self.rep, self.done, self.exc, self.accepts = {}, {}, [], []
        self.chan = collections.defaultdict(list)
        self.started = set()
        algo = AlgorithmDef.build_with_default_param("dsa", {}, mode="min")
        for a in D["agents"]:
            adef = AgentDef(a, capacity=D["cap"][a], default_route=1, routes={b: D["route"][a][b] for b in D["agents"] if b != a},
                            default_hosting_cost=0, hosting_costs=dict(D["hc"][a]))
            disc = Discovery(a, "addr_" + a)
            disc.discovery_computation.message_sender = lambda *x, **k: None
            for b in D["agents"]:
                disc.register_agent(b, "addr_" + b, publish=False)
            for c, o in D["owner"].items():
                disc.register_computation(c, o, publish=False)
            stub = _StubAgent(a, adef, [_Active(c, D["fp"][c]) for c in D["order"][a]])
            r = UCS.UCSReplication(stub, disc, k_target=D["kt"])
            r.message_sender = self._sender
            r._running = True
            for c in D["order"][a]:
                r.add_computation(ComputationDef(ComputationNode(c, neighbors=list(D["cnbr"][c])), algo), D["fp"][c])
            self.done[a] = False
            orig = r._accept_replica

            def acc(origin, comp_def, footprint, _o=orig, _r=r, _a=a):
                self.accepts.append({"a": _a, "c": comp_def.name, "held": sorted(_r._hosted_replicas)})
                return _o(origin, comp_def, footprint)
            r._accept_replica = acc
            r.replication_done = (lambda hosts, _a=a: self.done.__setitem__(_a, True))
            self.rep[a] = r

    def _sender(self, src, dst, msg, prio=None, on_error=None):
        s, d = src[len("_replication_"):], dst[len("_replication_"):]
        self.chan[(s, d)].append(msg)

    def enabled(self):
        return [("replicate", a) for a in self.D["agents"] if a not in self.started] + [("deliver", s, d) for (s, d), q in self.chan.items() if q]

    def step(self, st):
        try:
            if st[0] == "replicate":
                self.started.add(st[1])
                self.rep[st[1]].replicate(self.D["k"])
            else:
                m = self.chan[(st[1], st[2])].pop(0)
                self.rep[st[2]].on_message("_replication_" + st[1], m, 0)
        except Exception as e:    # noqa
            self.exc.append("%s: %s: %s" % (st, type(e).__name__, e))

    def run_random(self, rnd, max_steps=4000):
        n = 0
        while n < max_steps:
            en = self.enabled()
            if not en:
                break
            self.step(rnd.choice(sorted(en)))
            n += 1
        return n

    def outcome(self, rid):
        """the record Judge_C25 / Replication.tla judges (termination, placement conditions, capacity rule at every acceptance)"""
        D = self.D
        dirreps = {}
        for c in D["comps"]:
            dirreps[c] = sorted(a for a in D["agents"] if a in (self.rep[a].discovery._replicas_data.get(c) or ()))
        return {"id": rid, "agents": D["agents"], "comps": D["comps"], "cap": D["cap"], "owner": D["owner"], "fp": D["fp"], "k": D["k"],
                "done": [a for a in D["agents"] if self.done[a]] if not self.enabled() else [],
                "hosts": {c: sorted(self.rep[D["owner"][c]]._replica_hosts.get(c, ())) for c in D["comps"]},
                "held": {a: sorted(self.rep[a]._hosted_replicas) for a in D["agents"]}, "dirReps": dirreps,
                "accepts": list(self.accepts), "exc": list(self.exc)}

    def _msg(self, m):
        return {"kind": "request" if m.rep_msg_type == "replicate_request" else "answer", "budget": AM._num(m.budget), "spent": AM._num(m.spent),
                "rq": list(m.rq_path), "paths": [[AM._num(c), list(p)] for c, p in m.paths], "visited": list(m.visited),
                "c": m.computation_def.name, "rc": int(m.replica_count), "hosts": list(m.hosts)}

    def project(self):
        loc = {}
        for a, r in self.rep.items():
            loc[a] = {"held": sorted(r._hosted_replicas), "pend": sorted([t, c] for t, c in r._pending_requests),
                      "inprog": sorted(r._replication_in_progress.in_progress()),
                      "rhosts": {c: sorted(r._replica_hosts.get(c, ())) for c in self.D["order"][a]} or [], "done": bool(self.done[a])}
        ags = self.D["agents"]
        chan = {'<<"%s", "%s">>' % (s, d): [self._msg(m) for m in self.chan.get((s, d), [])] for s in ags for d in ags if s != d}
        return {"started": sorted(self.started), "loc": loc, "chan": chan, "err": bool(self.exc)}


def norm(p):
    p = dict(p)
    p["started"] = sorted(p["started"])
    p["loc"] = {a: dict(l, held=sorted(l["held"]), pend=sorted(l["pend"]), inprog=sorted(l["inprog"]),
                        rhosts={c: sorted(x) for c, x in l["rhosts"].items()} if l["rhosts"] else [])
                for a, l in p["loc"].items()}
    return p


def deployment_of(dep, cnbr, comps, upper=False, ties=False):
    """a Gen_C25 deployment (capacities, symmetric routes, hosting costs, placement, k) + a computation graph -> instance of Ucs.tla"""
    names = [("A%d" if upper else "a%d") % i for i in range(1, dep["nag"] + 1)]
    owner = {c: names[ai - 1] for c, ai in zip(comps, dep["place"])}
    hc = {a: {c: ({0: 1, 3: 2, 8: 5}[dep["hosting"][i][k]] if ties else dep["hosting"][i][k]) for k, c in enumerate(comps)} for i, a in enumerate(names)}
    return {"agents": names, "comps": comps, "cap": {a: dep["cap"][i] for i, a in enumerate(names)},
            "route": {a: {b: (dep["route"][i][j] if i != j else 0) for j, b in enumerate(names)} for i, a in enumerate(names)},
            "hc": hc, "fp": {c: 2 + (k % 2) for k, c in enumerate(comps)}, "owner": owner, "cnbr": cnbr,
            "order": {a: [c for c in comps if owner[c] == a] for a in names}, "k": dep["k"], "kt": 3,
            "rank": {n: i for i, n in enumerate(sorted(names + [H]))}}


INVS = ["QuietMeansDone", "NoHandlerError", "AcceptRule", "ReplicasSafe", "HostsAreHolders", "ToldEverything", "OneToken", "CountConsistent", "TablesSorted"]


def _replay(args):
    D, edges, max_paths, sd = args
    g = RP.Graph(edges)
    w0 = UcsWorld(D)
    paths = g.cover(norm(w0.project()), max_len=80)
    if max_paths and len(paths) > max_paths:
        random.Random(sd).shuffle(paths)
        paths = paths[:max_paths]
    nsteps, divs, recs = 0, [], []
    for pi, path in enumerate(paths):
        w = UcsWorld(D)
        for k, (a, exp) in enumerate(path):
            st = ("replicate", a["a"]) if a["n"] == "replicate" else ("deliver", a["src"], a["a"])
            nsteps += 1
            if st not in w.enabled():
                divs.append("path %d step %d %s: the model's step is not enabled in the code" % (pi, k, json.dumps(a, sort_keys=True)))
                w.run_random(random.Random(pi), 4000)
                recs.append((w.outcome(0), [x for x, _ in path[:k]], pi))
                break
            w.step(st)
            d = RP.first_diff(exp, norm(w.project()))
            if d:
                divs.append("path %d step %d %s: state differs from Ucs.tla at %s (expected vs real)%s" % (
                    pi, k, json.dumps(a, sort_keys=True), d, (" - handler raised " + w.exc[-1]) if w.exc else ""))
                # the real objects go on alone to quiescence; what they end in is judged on its own (Replication.tla)
                w.run_random(random.Random(pi), 4000)
                recs.append((w.outcome(0), [x for x, _ in path[:k + 1]], pi))
                break
        if len(divs) >= 8:
            break
    # seeded random schedules of the real objects on the same deployment, judged the same way (they also cover the end of the runs,
    # which the covering paths only reach by their shortest prefixes)
    for si in range(6):
        w = UcsWorld(D)
        w.run_random(random.Random(sd * 100 + si), 4000)
        recs.append((w.outcome(0), None, sd * 100 + si))
    return len(paths), nsteps, divs, g.nedges, recs


def model_part(v, insts, tier, label="Ucs.tla"):
    """TLC over the batch (invariants + edge dump), then the replay of every instance's graph on the real objects"""
    import multiprocessing as mp
    quick = tier == "quick"
    batches = [insts[i::8] for i in range(8) if insts[i::8]]
    jobs = [(b, k) for k, b in enumerate(batches)]
    with mp.get_context("fork").Pool(len(jobs)) as pool:
        outs = pool.map(_batch, [(b, 300 if quick else None, k) for b, k in jobs], chunksize=1)
    allrecs = []
    tot = {"instances": 0, "model_states": 0, "edges": 0, "paths": 0, "steps": 0, "divergences": 0, "invariants": INVS}
    for b, (res_info, reps) in zip(batches, outs):
        res = __import__("vlib.tlc", fromlist=["TlcResult"]).TlcResult()
        res.cmd, res.generated, res.distinct, res.wall = res_info["cmd"], res_info["generated"], res_info["distinct"], res_info["wall"]
        v.add_tlc(res, "%s: every interleaving of %d deployments" % (label, len(b)))
        tot["model_states"] += res.distinct
        if res_info.get("liveness"):
            tot["liveness_checked_states"] = tot.get("liveness_checked_states", 0) + res_info["liveness"]["distinct"]
            tot["liveness"] = "PROPERTY Terminates (<>[](Quiet /\\ AllDone)) under SPECIFICATION FairSpec (weak fairness of the steps), no state constraint"
        if res_info["violated"] or res_info["deadlock"]:
            tot.setdefault("model_invariant_violations", []).append({"what": res_info["violated"] or ["Deadlock"], "acts": res_info["acts"], "batch": [json.dumps(x)[:300] for x in b][:1]})
            continue
        for D, (np_, ns, divs, ne, recs) in zip(b, reps):
            for rec, prefix, sd in recs:
                rec["id"] = len(allrecs)
                allrecs.append((rec, D, prefix, sd))
            tot["instances"] += 1
            tot["paths"] += np_
            tot["steps"] += ns
            tot["edges"] += ne
            v.cov["traces_validated_against_impl"] += np_
            v.cov["evaluations"] += np_
            for d in divs:
                tot["divergences"] += 1
                v.divergence("Ucs %s k=%d: %s" % (D["owner"], D["k"], d))
    if allrecs:
        from .judge import judge
        verdicts, jres = judge("Judge_C25", [r for r, _, _, _ in allrecs], chunk=400)
        v.add_tlc(jres, "Judge_C25 / Replication.tla on %d executions of the real UCSReplication objects at message level" % len(allrecs))
        tot["real_message_level_runs_judged"] = len(allrecs)
        for rec, D, prefix, sd in allrecs:
            v.cov["evaluations"] += 1
            v.cov["traces_validated_against_impl"] += 1
            if rec["accepts"]:
                v.cov["distinct_nontrivial"] += 1
            for clause in verdicts[rec["id"]]:
                v.violation({"clause": clause, "k": rec["k"], "via": "message_level_run"},
                            "%s (message-level run of real UCSReplication objects, %d agents, k=%d): hosts %s, done %s, %s" % (
                                clause, len(rec["agents"]), rec["k"], rec["hosts"], rec["done"], rec["exc"][:1]),
                            {"ucs_instance": D, "model_prefix": prefix, "then_seed": sd, "outcome": rec})
    return tot


def _batch(args):
    b, max_paths, k = args
    g, res = AM.model_check("Ucs", b, {}, INVS, True, workers=1, norm=norm, timeout=900)
    info = {"cmd": res.cmd, "generated": res.generated, "distinct": res.distinct, "wall": res.wall, "violated": list(res.violated),
            "deadlock": any("Deadlock" in e for e in res.errors) and not res.violated, "acts": AM.counterexample_actions(res) if (res.violated or res.errors) else None}
    if g is not None:
        # liveness on the same batch, without any constraint: under weak fairness of the steps every behaviour ends with all agents done
        _, lres = AM.model_check("Ucs", b, {}, [], False, workers=2, timeout=900, spec="FairSpec", properties=["Terminates"])
        info["liveness"] = {"violated": list(lres.violated) + [e for e in lres.errors if "emporal" in e], "distinct": lres.distinct, "cmd": lres.cmd}
        if info["liveness"]["violated"] or not lres.distinct:
            raise MachineryError("Ucs.tla: the liveness property Terminates fails in the model (or TLC failed): %s" % (info["liveness"]["violated"] or lres.out[-300:]))
    if g is None:
        if not info["violated"] and not info["deadlock"]:
            raise MachineryError("Ucs.tla: TLC failed: %s" % (res.errors[:2] or res.out[-400:]))
        return info, []
    return info, [_replay((D, g.get(i + 1, []), max_paths, k * 100 + i)) for i, D in enumerate(b)]
