"""Generic body of the call-level checks: TLC enumerates (or samples) the calls together with the result the
specification defines for them; every case is executed on the real code; only equality is decided here."""
from .common import Verdict, MachineryError
from . import tlc

CFG = "INIT Init\nNEXT Next\nINVARIANT Emit\n"


def generate(module, consts=None, cfg=CFG, workers=4, tag="CASE", seed=None, env=None, timeout=1800, heap="4g", silent_states=0):
    res = tlc.run(module, cfg, consts=consts, workers=workers, seed=seed, env=env, timeout=timeout, heap=heap)
    cases = [c[0] for c in res.tagged(tag)]
    if not cases or len(cases) < res.distinct - silent_states:
        raise MachineryError("%s: parsed %d cases, TLC reports %d distinct states" % (module, len(cases), res.distinct))
    return cases, res


def run_cases(v, cases, execute, key_of, nontrivial=lambda c: True, sample_cap=3, group=lambda c: c.get("op", "case")):
    """execute(case) -> None (agrees with the expectation) or a message; an exception of the driver itself must be
    turned into a message by execute when it is an observation of the real code."""
    groups = {}
    for case in cases:
        try:
            msg = execute(case)
        except MachineryError:
            raise
        except Exception as e:  # a crash of the real function where the specification defines a result
            msg = "raised %s: %s" % (type(e).__name__, str(e)[:120])
        v.cov["evaluations"] += 1
        g = group(case)
        groups[g] = groups.get(g, 0) + 1
        nt = nontrivial(case)
        if nt:
            v.cov["distinct_nontrivial"] += 1
        if msg:
            v.violation(key_of(case, msg), "%s: %s" % (g, msg), case)
        elif nt:
            v.sample(case, cap=sample_cap)
    v.cov["traces_validated_against_impl"] += len(cases)
    v.cov.setdefault("per_group", {}).update(groups)
    return groups
