"""Recorder of the orchestration protocol's observable events (spec/Orchestration.tla) around the REAL AgentsMgt /
OrchestratedAgent methods: class-level wrappers that call the original method and append one event, under a lock, in the order
things happen (a 'send' is logged before the message leaves, a reception when its handler runs: causal order is kept also with
real threads).  Nothing of the protocol is re-implemented."""
import threading
from .common import REPO  # noqa: F401
from pydcop.infrastructure.orchestrator import AgentsMgt
from pydcop.infrastructure.agents import Agent


class ProtocolRecorder:
    def __init__(self, comps):
        self.comps = set(comps)
        self.ev = []
        self.lock = threading.Lock()
        self._orig = {}
        self._ended = False

    def log(self, **e):
        with self.lock:
            self.ev.append(e)

    def _check_end(self, mgt):
        if mgt._all_agt_stopped.is_set() and not self._ended:
            self._ended = True
            self.log(e="end")

    def install(self):
        rec = self
        o_reg = AgentsMgt._cb_agent_registration
        o_creg = AgentsMgt._cb_computation_registration
        o_send = AgentsMgt._send_mgt_msg
        o_end = AgentsMgt._on_computation_end_msg
        o_stop = AgentsMgt._orchestrator_stop_agents
        o_run = Agent.run
        self._orig = {(AgentsMgt, "_cb_agent_registration"): o_reg, (AgentsMgt, "_cb_computation_registration"): o_creg,
                      (AgentsMgt, "_send_mgt_msg"): o_send, (AgentsMgt, "_on_computation_end_msg"): o_end,
                      (AgentsMgt, "_orchestrator_stop_agents"): o_stop, (Agent, "run"): o_run}

        def cb_agent(self, evt, agent, *a):
            if agent != "orchestrator":
                rec.log(e="register" if evt == "agent_added" else "stopped", a=agent)
            r = o_reg(self, evt, agent, *a)
            rec._check_end(self)
            return r

        def cb_comp(self, evt, computation, agent):
            if evt == "computation_added" and computation in rec.comps:
                rec.log(e="deployed", c=computation, a=agent)
            return o_creg(self, evt, computation, agent)

        def send(self, agt, msg):
            t = getattr(msg, "type", "")
            if t == "deploy":
                rec.log(e="deploy_send", c=msg.comp_def.node.name, a=agt)
            elif t == "run_computations":
                rec.log(e="run_send", a=agt)
            elif t == "stop":
                rec.log(e="stop_send", a=agt)
            return o_send(self, agt, msg)

        def on_end(self, sender, msg, t):
            rec.log(e="finish", c=msg.computation)
            return o_end(self, sender, msg, t)

        def stop_agents(self, *a):
            r = o_stop(self, *a)
            rec._check_end(self)
            return r

        def run(self, computations=None):
            if isinstance(computations, (list, tuple)) and self.name != "orchestrator":
                for c in computations:
                    if c in rec.comps:
                        rec.log(e="start", c=c, a=self.name)
            elif isinstance(computations, str) and computations in rec.comps and self.name != "orchestrator":
                rec.log(e="start", c=computations, a=self.name)
            return o_run(self, computations)
        AgentsMgt._cb_agent_registration = cb_agent
        AgentsMgt._cb_computation_registration = cb_comp
        AgentsMgt._send_mgt_msg = send
        AgentsMgt._on_computation_end_msg = on_end
        AgentsMgt._orchestrator_stop_agents = stop_agents
        Agent.run = run
        return self

    def uninstall(self):
        for (cls, name), f in self._orig.items():
            setattr(cls, name, f)
        self._orig = {}

    def timeout(self):
        self.log(e="timeout")

    def record(self, rid, dist, over, agents):
        comps = sorted(self.comps)
        return {"id": rid, "agents": sorted(agents), "dagents": sorted(dist.agents), "comps": comps, "host": {c: dist.agent_for(c) for c in comps},
                "ev": list(self.ev), "over": bool(over)}
