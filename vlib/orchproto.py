"""Recorder of the orchestration protocol's observable events (spec/Orchestration.tla) around the REAL AgentsMgt /
OrchestratedAgent methods: class-level wrappers that call the original method and append one event, under a lock, in the order
things happen (a 'send' is logged before the message leaves, a reception when its handler runs: causal order is kept also with
real threads).  Nothing of the protocol is re-implemented."""
import threading
from .common import REPO  # noqa: F401
from pydcop.infrastructure.orchestrator import AgentsMgt
from pydcop.infrastructure.agents import Agent


class ProtocolRecorder:
    def __init__(self, comps):
        self.comps = set(comps)
        self.ev = []
        self.lock = threading.Lock()
        self._orig = {}
        self._ended = False
        self.removals = []        # one record per removal event: configuration + the repair protocol's events

    def log(self, **e):
        with self.lock:
            self.ev.append(e)

    def _check_end(self, mgt):
        if mgt._all_agt_stopped.is_set() and not self._ended:
            self._ended = True
            self.log(e="end")

    def install(self):
        rec = self
        o_reg = AgentsMgt._cb_agent_registration
        o_creg = AgentsMgt._cb_computation_registration
        o_send = AgentsMgt._send_mgt_msg
        o_end = AgentsMgt._on_computation_end_msg
        o_stop = AgentsMgt._orchestrator_stop_agents
        o_run = Agent.run
        self._orig = {(AgentsMgt, "_cb_agent_registration"): o_reg, (AgentsMgt, "_cb_computation_registration"): o_creg,
                      (AgentsMgt, "_send_mgt_msg"): o_send, (AgentsMgt, "_on_computation_end_msg"): o_end,
                      (AgentsMgt, "_orchestrator_stop_agents"): o_stop, (Agent, "run"): o_run}

        def cb_agent(self, evt, agent, *a):
            if agent != "orchestrator":
                rec.log(e="register" if evt == "agent_added" else "stopped", a=agent)
            r = o_reg(self, evt, agent, *a)
            rec._check_end(self)
            return r

        def cb_comp(self, evt, computation, agent):
            if evt == "computation_added" and computation in rec.comps:
                rec.log(e="deployed", c=computation, a=agent)
            return o_creg(self, evt, computation, agent)

        def send(self, agt, msg):
            t = getattr(msg, "type", "")
            if t == "deploy":
                rec.log(e="deploy_send", c=msg.comp_def.node.name, a=agt)
            elif t == "run_computations":
                rec.log(e="run_send", a=agt)
            elif t == "stop":
                rec.log(e="stop_send", a=agt)
            elif t in ("pause_computations", "agent_removed", "setup_repair", "repair_run", "resume_computations"):
                rec.rlog(e={"pause_computations": "pause_send", "agent_removed": "removed_send", "setup_repair": "setup_send",
                            "repair_run": "run_send", "resume_computations": "resume_send"}[t], a=agt)
            return o_send(self, agt, msg)

        def on_end(self, sender, msg, t):
            rec.log(e="finish", c=msg.computation)
            return o_end(self, sender, msg, t)

        def stop_agents(self, *a):
            r = o_stop(self, *a)
            rec._check_end(self)
            return r

        def run(self, computations=None):
            if isinstance(computations, (list, tuple)) and self.name != "orchestrator":
                for c in computations:
                    if c in rec.comps:
                        rec.log(e="start", c=c, a=self.name)
            elif isinstance(computations, str) and computations in rec.comps and self.name != "orchestrator":
                rec.log(e="start", c=computations, a=self.name)
            return o_run(self, computations)
        # ---- repair orchestration (spec/RepairProtocol.tla) ----
        from pydcop.reparation.removal import _removal_orphaned_computations
        o_rem = AgentsMgt._agents_removal
        o_ready = AgentsMgt._on_repair_ready
        o_done = AgentsMgt._on_repair_done
        o_dump = AgentsMgt._dump_repair_metrics
        self._orig.update({(AgentsMgt, "_agents_removal"): o_rem, (AgentsMgt, "_on_repair_ready"): o_ready,
                           (AgentsMgt, "_on_repair_done"): o_done, (AgentsMgt, "_dump_repair_metrics"): o_dump})

        def rlog(**e):
            with rec.lock:
                # (what the orchestrator sends before it processes a removal - pause requests, the notice to the leaving agents -
                # opens the record of the NEXT removal once the previous repair has ended)
                opens_next = e["e"] in ("pause_send", "removed_send") and (
                    not rec.removals or any(x["e"] == "repair_end" for x in rec.removals[-1]["ev"]))
                if rec.removals and not opens_next:
                    rec.removals[-1]["ev"].append(e)
                else:
                    rec.pending.append(e)

        def agents_removal(self, leaving_agents):
            orphaned = sorted(_removal_orphaned_computations(leaving_agents, self.discovery))
            reps = {}
            for c in orphaned:
                try:
                    reps[c] = sorted(self.discovery.replica_agents(c))
                except Exception:
                    reps[c] = []
            with rec.lock:
                rec.removals.append({"leaving": sorted(leaving_agents), "orphaned": orphaned, "reps": reps, "ev": list(rec.pending) + [{"e": "removal"}]})
                rec.pending = []
            return o_rem(self, leaving_agents)

        def on_ready(self, sender_name, msg, t):
            rlog(e="ready", a=msg.agent)
            return o_ready(self, sender_name, msg, t)

        def on_done(self, sender_name, msg, t):
            rlog(e="done", a=msg.agent, sel=sorted(msg.selected_computations))
            return o_done(self, sender_name, msg, t)

        def dump(self, status, duration):
            rlog(e="repair_end", status=status)
            return o_dump(self, status, duration)
        rec.pending = []
        rec.rlog = rlog
        AgentsMgt._agents_removal = agents_removal
        AgentsMgt._on_repair_ready = on_ready
        AgentsMgt._on_repair_done = on_done
        AgentsMgt._dump_repair_metrics = dump
        AgentsMgt._cb_agent_registration = cb_agent
        AgentsMgt._cb_computation_registration = cb_comp
        AgentsMgt._send_mgt_msg = send
        AgentsMgt._on_computation_end_msg = on_end
        AgentsMgt._orchestrator_stop_agents = stop_agents
        Agent.run = run
        return self

    def uninstall(self):
        for (cls, name), f in self._orig.items():
            setattr(cls, name, f)
        self._orig = {}

    def timeout(self):
        self.log(e="timeout")

    def record(self, rid, dist, over, agents):
        comps = sorted(self.comps)
        return {"id": rid, "agents": sorted(agents), # (the agents the deployment waits for: those of the distribution - at least the ones hosting something; a Distribution
                # built on a defaultdict grows agents with empty lists as it is looked up, so only the hosting ones are required)
                "dagents": sorted({dist.agent_for(c) for c in comps}), "comps": comps, "host": {c: dist.agent_for(c) for c in comps},
                "ev": list(self.ev), "over": bool(over)}
