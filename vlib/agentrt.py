"""Deterministic agent-level runtime: REAL Agent / Messaging / Discovery / Directory / Orchestrator objects with the
in-process transport; agent threads are never started.  A step is "agent a performs one iteration of its loop", i.e. exactly
the statements of Agent._run's loop body: next_msg, _handle_message, _process_periodic_action.  Nothing of pyDCOP's logic
is re-implemented here; the harness only decides which agent runs next and records what happens."""
import random
from time import perf_counter
from .common import REPO  # noqa: F401
import pydcop.infrastructure.agents as _agents_mod
from pydcop.infrastructure.agents import Agent
from pydcop.infrastructure.communication import InProcessCommunicationLayer
from pydcop.infrastructure.discovery import Directory

_agents_mod.sleep = lambda *_a, **_k: None     # Agent._on_stop / _on_start wait with sleep(): no thread, no waiting


class AgentWorld:
    def __init__(self, seed=0):
        self.agents = {}          # name -> Agent, in creation order
        self.booted = set()
        self.stopped = set()
        self.rnd = random.Random(seed)
        self.log = []             # (agent, sender, dest, message type) of every handled message
        self.exc = []
        self.directory = None
        self.dir_agent = None

    # ---- construction ---------------------------------------------------
    def add_directory_agent(self, name="orchestrator"):
        """an agent hosting the Directory, the way Orchestrator.__init__ sets it up"""
        a = Agent(name, InProcessCommunicationLayer())
        self.directory = Directory(a.discovery)
        a.add_computation(self.directory.directory_computation)
        a.discovery.use_directory(name, a.address)
        self.agents[name] = a
        self.dir_agent = a
        return a

    def add_agent(self, name, agent=None, **kw):
        a = agent if agent is not None else Agent(name, InProcessCommunicationLayer(), **kw)
        if self.dir_agent is not None and a is not self.dir_agent:
            a.discovery.use_directory(self.dir_agent.name, self.dir_agent.address)
        self.agents[name] = a
        return a

    def boot(self, name, start_directory=True):
        """what Agent.start() + the head of Agent._run do, on the caller's thread"""
        a = self.agents[name]
        a._running = True
        a.run_computations = False
        a._start_t = perf_counter()
        a._on_start()
        if a is self.dir_agent and start_directory:
            a.run(self.directory.directory_computation.name)
        self.booted.add(name)

    # ---- stepping ---------------------------------------------------------
    def pending(self, name):
        return self.agents[name]._messaging._queue.qsize()

    def runnable(self):
        return [n for n in self.agents if n in self.booted and n not in self.stopped and self.pending(n) > 0]

    def step(self, name, periodic=False):
        """one loop iteration of agent `name`; returns the handled message as (sender, dest, type) or None"""
        a = self.agents[name]
        full_msg, t = a._messaging.next_msg(0)
        ev = None
        if full_msg is not None:
            sender, dest, msg, _ = full_msg
            ev = (name, sender, dest, getattr(msg, "type", "?"))
            try:
                if not a._stopping.is_set():
                    a._handle_message(sender, dest, msg, t)
            except Exception as e:      # Agent._run would log it and leave its loop
                self.exc.append((name, sender, dest, getattr(msg, "type", "?"), "%s: %s" % (type(e).__name__, str(e)[:160])))
                ev = ev + ("EXC " + type(e).__name__,)
            self.log.append(ev)
        if periodic:
            a._process_periodic_action()
        if a._stopping.is_set() and name not in self.stopped:
            self.finalize(name)
        return ev

    def finalize(self, name):
        """the `finally` clause of Agent._run"""
        a = self.agents[name]
        a._running = False
        a._comm.shutdown()
        try:
            a._on_stop()
        except Exception as e:      # (Agent._run calls it in its `finally`: the exception ends the thread with the clean-up half done)
            self.exc.append((name, "", "", "_on_stop", "%s: %s" % (type(e).__name__, str(e)[:160])))
        self.stopped.add(name)

    def run(self, max_steps=20000, until=None, choose=None):
        """seeded random scheduling of the runnable agents until nothing is pending (or `until()` holds)"""
        n = 0
        while n < max_steps:
            if until is not None and until():
                break
            r = self.runnable()
            if not r:
                break
            name = choose(r) if choose else self.rnd.choice(r)
            self.step(name)
            n += 1
        return n

    def drain(self, name, max_steps=10000):
        n = 0
        while self.pending(name) and n < max_steps:
            self.step(name)
            n += 1
        return n
