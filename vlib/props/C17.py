"""C17 - the pseudo-tree is a valid DFS forest for every constraint graph.
Inputs: the exhaustive / sampled DCOP structures of Gen_C16 (TLC), plus deterministic scale families (chains, stars, sparse
random graphs, cliques, several components) up to thousands of variables.  The real pseudotree.build_computation_graph is
run on each; its output (or the exception) is judged by TLC: Graphs!PTBad for small graphs (full definition with ancestor
closure), Graphs!PTBadCert for large ones (local nesting conditions over DFS numbers the harness attaches to the output)."""
import json, random, sys, time
import numpy as np
from ..common import Verdict, seed, scratch, MachineryError
from .. import callcheck as CC, tlc
from pydcop.dcop.objects import Variable, Domain
from pydcop.dcop.dcop import DCOP
from pydcop.dcop.relations import NAryMatrixRelation
from pydcop.computations_graph import pseudotree as PT

JUDGE_CFG = "INIT Init\nNEXT Next\nINVARIANT Emit\n"


def build_dcop(inst, shuffle=None):
    d = Domain("d", "", [0, 1])
    vs = {v: Variable(v, d) for v in inst["vars"]}
    dcop = DCOP("g", "min")
    order = list(inst["vars"])
    if shuffle:
        shuffle.shuffle(order)
    for v in order:
        dcop.add_variable(vs[v])
    for c in inst["cons"]:
        sc = [vs[s] for s in c["scope"]]
        dcop.add_constraint(NAryMatrixRelation(sc, np.zeros([2] * len(sc)), name=c["name"]))
    return dcop


def project(cg):
    t = {}
    for n in cg.nodes:
        parent, pps, children, pcs = PT.get_dfs_relations(n)
        if n.name in t:
            t[n.name + "#dup"] = {"parent": "", "children": [], "pparents": [], "pchildren": [], "cons": []}
        t[n.name] = {"parent": parent or "", "children": list(children), "pparents": list(pps), "pchildren": list(pcs),
                     "cons": [c.name for c in n.constraints]}
    return t


def dfs_numbers(t):
    """entry / exit numbers of an iterative DFS over the children links of the REAL output (0 = never reached)"""
    pre = {v: 0 for v in t}
    post = {v: 0 for v in t}
    clock = 0
    for r in sorted(v for v in t if t[v]["parent"] == ""):
        if pre[r]:
            continue
        clock += 1
        pre[r] = clock
        stack = [(r, iter(t[r]["children"]))]
        while stack:
            v, it = stack[-1]
            nxt = next(it, None)
            if nxt is None:
                clock += 1
                post[v] = clock
                stack.pop()
            elif nxt in t and not pre[nxt]:
                clock += 1
                pre[nxt] = clock
                stack.append((nxt, iter(t[nxt]["children"])))
    return pre, post


def slim(inst):
    return {"vars": inst["vars"], "cons": [{"name": c["name"], "scope": c["scope"]} for c in inst["cons"]]}


def scale_family(kind, n, rnd):
    vs = ["v%05d" % i for i in range(n)]
    cons = []
    def add(*sc):
        cons.append({"name": "c%d" % len(cons), "scope": list(sc)})
    if kind == "chain":
        for i in range(n - 1):
            add(vs[i], vs[i + 1])
    elif kind == "star":
        for i in range(1, n):
            add(vs[0], vs[i])
    elif kind == "sparse":
        for i in range(1, n):
            add(vs[rnd.randrange(max(0, i - 6), i)], vs[i])
        for _ in range(n // 3):
            a, b = rnd.sample(range(n), 2)
            if abs(a - b) < 12:
                add(vs[a], vs[b])
    elif kind == "clique":
        for i in range(n):
            for j in range(i + 1, n):
                add(vs[i], vs[j])
    elif kind == "forest":      # several components, some isolated variables, n-ary constraints
        i = 0
        while i < n - 3:
            k = rnd.choice([1, 2, 3, 5])
            grp = vs[i:i + k]
            if k == 3:
                add(*grp)
            elif k > 1:
                for a, b in zip(grp[:-1], grp[1:]):
                    add(a, b)
                add(grp[0], grp[-1]) if k > 2 else None
            i += k
    return {"vars": vs, "cons": cons, "shape": "%s%d" % (kind, n)}


def run_builder(inst, rnd):
    dcop = build_dcop(inst, shuffle=rnd)
    t0 = time.time()
    try:
        cg = PT.build_computation_graph(dcop)
        return project(cg), "", time.time() - t0
    except RecursionError as e:
        return {}, "RecursionError", time.time() - t0
    except Exception as e:
        return {}, "%s: %s" % (type(e).__name__, str(e)[:80]), time.time() - t0


def run(tier):
    quick = tier == "quick"
    v = Verdict("C17", tier, "model_checking")
    rnd = random.Random(seed() + 17)
    consts = dict(MaxVars=4 if quick else 5, MaxCons=3, SVars=9 if quick else 12, SCons=8 if quick else 12, NSample=200 if quick else 3000)
    cases, gres = CC.generate("Gen_C16", consts=consts, workers=4 if quick else 16, seed=seed() + 7, heap="6g")
    v.add_tlc(gres, "DCOP structures (Gen_C16, %s)" % consts)
    insts = [dict(slim(c["inst"]), shape="gen%d" % len(c["inst"]["vars"])) for c in cases]
    insts.sort(key=lambda i: json.dumps(i, sort_keys=True))
    sizes = [(k, n) for k in ("chain", "star", "sparse") for n in ((60, 400, 1200) if quick else (60, 400, 1200, 2000, 3000))] + ([("chain", 2500)] if quick else [])
    sizes += [("forest", n) for n in ((60, 250) if quick else (60, 250, 600))]   # construction time grows cubically with the number of components
    sizes += [("clique", n) for n in ((6, 14) if quick else (6, 14, 30))]
    big = [scale_family(k, n, rnd) for k, n in sizes]
    f = scratch() / "c17.ndjson"
    meta = {}
    with open(f, "w") as fh:
        for i, inst in enumerate(insts + big):
            t, exc, wall = run_builder(inst, rnd)
            rec = {"id": i, "inst": slim(inst), "t": t, "exc": exc, "mode": "full" if len(inst["vars"]) <= 12 else "cert"}
            if rec["mode"] == "cert" and not exc:
                rec["pre"], rec["post"] = dfs_numbers(t)
            meta[i] = (inst, exc, wall)
            fh.write(json.dumps(rec) + "\n")
    jres = tlc.run("Judge_C17", JUDGE_CFG, env={"TRACE_FILE": str(f)}, workers=4 if quick else 16, heap="8g", timeout=3000)
    v.add_tlc(jres, "judging %d real pseudo-trees (Judge_C17 / Graphs.tla)" % len(meta))
    verdicts = {x[0]["id"]: x[0]["bad"] for x in jres.tagged("VERDICT")}
    if len(verdicts) != len(meta):
        raise MachineryError("judge returned %d verdicts for %d cases" % (len(verdicts), len(meta)))
    scale = {}
    for i, (inst, exc, wall) in sorted(meta.items()):
        v.cov["evaluations"] += 1
        v.cov["traces_validated_against_impl"] += 1
        if inst["cons"]:
            v.cov["distinct_nontrivial"] += 1
        if len(inst["vars"]) > 12:
            scale[inst["shape"]] = {"variables": len(inst["vars"]), "constraints": len(inst["cons"]), "build_s": round(wall, 2),
                                    "verdict": verdicts[i] or "valid"}
        for clause in verdicts[i]:
            key = {"clause": clause, "family": inst["shape"].rstrip("0123456789"), "exception": exc.split(":")[0]}
            if clause == "construction_raised":
                key["variables_at_least"] = 400 if len(inst["vars"]) >= 400 else 0
            v.violation(key, "%s on %s (%d variables, %d constraints)%s" % (
                clause, inst["shape"], len(inst["vars"]), len(inst["cons"]), " : " + exc if exc else ""),
                {"inst": inst if len(inst["vars"]) <= 60 else {"family": inst["shape"], "seed": seed()}, "bad": verdicts[i]})
        if not verdicts[i] and 3 <= len(inst["vars"]) <= 6 and len(inst["cons"]) >= 3:
            v.sample({"inst": inst, "verdict": "valid pseudo-tree"}, cap=2)
    v.cov["scale_series"] = scale
    v.cov["exhaustive"] = True
    v.cov["rule"] = ("exhaustive: every multiset of <= 3 constraints of arity 1-3 over 1..%d variables; sampled: %d structures with %d constraints over %d "
                     "variables; scale: chains, stars, sparse random graphs, forests with isolated variables and ternary constraints (%s variables), "
                     "cliques; variables are added to the DCOP in shuffled order; graphs up to 12 variables are judged with the full definition "
                     "(ancestor closure), larger ones through DFS-number certificates; non-trivial = at least one constraint" % (
                         consts["MaxVars"], consts["NSample"], consts["SCons"], consts["SVars"], "/".join(str(n) for n in sorted({n for _, n in sizes if n > 30}))))
    v.cov["trusted_base"] = ["TLC evaluation of Graphs.tla (PTBad, PTBadCert)", "vlib/props/C17.py projection of the real nodes via get_dfs_relations and the DFS numbering"]
    return v.finish()


def replay(path):
    d = json.load(open(path))
    inst = d["replay"]["inst"]
    if "vars" not in inst:
        kind = inst["family"].rstrip("0123456789")
        inst = scale_family(kind, int(inst["family"][len(kind):]), random.Random(inst["seed"] + 17))
    t, exc, _ = run_builder(inst, random.Random(1))
    print("exception: %r; nodes: %d" % (exc, len(t)))
    return 1 if exc else 0
