"""C16 - computation graphs faithfully mirror the DCOP.
TLC (Gen_C16 / Graphs.tla) enumerates DCOP structures and prints, for each, the constraints hyper-graph, the factor graph
and the ordered graph as Graphs.tla defines them; the three real build_computation_graph functions are run on the
corresponding DCOP (both call forms) and their nodes / constraints / neighbours / links / order links compared."""
import json
import numpy as np
from ..common import Verdict, seed
from .. import callcheck as CC
from pydcop.dcop.objects import Variable, Domain
from pydcop.dcop.dcop import DCOP
from pydcop.dcop.relations import NAryMatrixRelation, constraint_from_str
from pydcop.computations_graph import constraints_hypergraph as CH, factor_graph as FG, ordered_graph as OG

# concrete names: sorted() order must be the order of inst.vars (the specification's lexical order); numeric order differs
NAMES = ["a10", "a9", "b", "b0", "ba", "c", "x1", "x10", "x2", "z"]
assert NAMES == sorted(NAMES)


def build(inst, n):
    ren = dict(zip(inst["vars"], NAMES))
    d = Domain("d", "", [0, 1])
    vs = {v: Variable(ren[v], d) for v in inst["vars"]}
    dcop = DCOP("g", "min")
    order = list(inst["vars"])
    if n % 2:
        order.reverse()          # the insertion order of the variables must not matter
    for v in order:
        dcop.add_variable(vs[v])
    for i, c in enumerate(inst["cons"]):
        sc = [vs[s] for s in c["scope"]]
        if (n + i) % 3 == 0:
            rel = constraint_from_str(c["name"], " + ".join(s.name for s in sc), list(vs.values()))
        else:
            rel = NAryMatrixRelation(sc, np.zeros([2] * len(sc)), name=c["name"])
        dcop.add_constraint(rel)
    return dcop, ren


def names(xs):
    return sorted(xs)


def check_hyper(cg, exp, ren, ordered=None):
    nodes = {n.name: n for n in cg.nodes}
    if sorted(nodes) != sorted(ren[v] for v in exp) or len(cg.nodes) != len(exp):
        return "nodes %s, expected one per variable %s" % (sorted(n.name for n in cg.nodes), sorted(ren[v] for v in exp))
    for v, e in exp.items():
        n = nodes[ren[v]]
        if n.variable.name != ren[v]:
            return "node %s holds variable %s" % (n.name, n.variable.name)
        got = sorted(c.name for c in n.constraints)
        if got != sorted(e["cons"]):
            return "node %s lists constraints %s, expected %s" % (n.name, got, sorted(e["cons"]))
        if ordered is None:
            if sorted(n.neighbors) != sorted(ren[u] for u in e["nbrs"]):
                return "node %s has neighbours %s, expected %s" % (n.name, sorted(n.neighbors), sorted(ren[u] for u in e["nbrs"]))
            got = sorted((l.name, tuple(sorted(l.nodes))) for l in n.links)
            want = sorted((l["name"], tuple(sorted(ren[u] for u in l["nodes"]))) for l in e["links"])
            if got != want:
                return "node %s has links %s, expected %s" % (n.name, got, want)
        else:
            nx, pv = n.get_next(), n.get_previous()
            if (nx or "") != (ren.get(e["next"], "")) or (pv or "") != (ren.get(e["prev"], "")):
                return "node %s has next=%s previous=%s, expected next=%s previous=%s" % (
                    n.name, nx, pv, ren.get(e["next"], None), ren.get(e["prev"], None))
            if sum(1 for l in n.links if l.type == "next") > 1 or sum(1 for l in n.links if l.type == "previous") > 1:
                return "node %s has several next / previous links" % n.name
    if ordered is None:
        # symmetry, as a property of the output itself
        for n in cg.nodes:
            for m in n.neighbors:
                if n.name not in nodes[m].neighbors:
                    return "neighbourhood not symmetric: %s -> %s" % (n.name, m)
    return None


def check_factor(cg, exp, ren):
    nodes = {n.name: n for n in cg.nodes}
    want = sorted([ren[v] for v in exp["vars"]] + list(exp["factors"]))
    if sorted(n.name for n in cg.nodes) != want:
        return "nodes %s, expected %s" % (sorted(n.name for n in cg.nodes), want)
    for v, e in exp["vars"].items():
        n = nodes[ren[v]]
        if n.type != "VariableComputation":
            return "node %s has type %s" % (n.name, n.type)
        if sorted(n.neighbors) != sorted(e["nbrs"]):
            return "variable node %s has neighbours %s, expected the factors %s" % (n.name, sorted(n.neighbors), sorted(e["nbrs"]))
        if sorted(n.constraints_names) != sorted(e["nbrs"]):
            return "variable node %s names constraints %s, expected %s" % (n.name, sorted(n.constraints_names), sorted(e["nbrs"]))
        got = sorted((l.factor_node, l.variable_node) for l in n.links)
        if got != sorted((f, n.name) for f in e["nbrs"]):
            return "variable node %s has links %s" % (n.name, got)
    for f, e in exp["factors"].items():
        n = nodes[f]
        if n.type != "FactorComputation":
            return "node %s has type %s" % (n.name, n.type)
        w = sorted(ren[u] for u in e["nbrs"])
        if sorted(n.neighbors) != w:
            return "factor node %s has neighbours %s, expected its scope %s" % (f, sorted(n.neighbors), w)
        if n.factor.name != f or sorted(v.name for v in n.variables) != w:
            return "factor node %s holds %s over %s" % (f, n.factor.name, [v.name for v in n.variables])
        got = sorted((l.factor_node, l.variable_node) for l in n.links)
        if got != sorted((f, u) for u in w):
            return "factor node %s has links %s" % (f, got)
    return None


_n = [0]


def execute(case):
    _n[0] += 1
    n = _n[0]
    inst = case["inst"]
    case["factor"]["factors"] = case["factor"]["factors"] or {}      # ToJson prints an empty function as []
    dcop, ren = build(inst, n)
    via_dcop = n % 4 < 2
    vs, cs = list(dcop.variables.values()), list(dcop.constraints.values())
    for mod, label in ((CH, "hyper"), (FG, "factor"), (OG, "ordered")):
        cg = mod.build_computation_graph(dcop) if via_dcop else mod.build_computation_graph(None, variables=vs, constraints=cs)
        if label == "hyper":
            msg = check_hyper(cg, case["hyper"], ren)
        elif label == "factor":
            msg = check_factor(cg, case["factor"], ren)
        else:
            msg = check_hyper(cg, case["ordered"], ren, ordered=True)
        if msg:
            return "%s graph: %s" % (label, msg)
    return None


def key_of(case, msg):
    return {"graph": msg.split(" ")[0], "symptom": " ".join(msg.split(":")[1].split()[:1] + msg.split(":")[1].split()[2:4])[:60],
            "nvars": len(case["inst"]["vars"])}


def run(tier):
    v = Verdict("C16", tier, "model_checking")
    quick = tier == "quick"
    consts = dict(MaxVars=4, MaxCons=3, SVars=8, SCons=6, NSample=150 if quick else 3000)
    cases, res = CC.generate("Gen_C16", consts=consts, workers=4 if quick else 16, seed=seed() + 5, heap="6g")
    v.add_tlc(res, "DCOP structures with the three graphs Graphs.tla defines (Gen_C16, %s)" % consts)
    cases.sort(key=lambda c: json.dumps(c["inst"], sort_keys=True))
    CC.run_cases(v, cases, execute, key_of, nontrivial=lambda c: len(c["inst"]["cons"]) > 0,
                 group=lambda c: "%d vars" % len(c["inst"]["vars"]))
    v.cov["exhaustive"] = True
    v.cov["rule"] = ("exhaustive: every multiset of at most %d constraints with scopes of arity 1-3 over 1..4 variables (isolated variables, unary, "
                     "parallel and n-ary constraints included; scope order alternating); sampled: %d structures with 6 constraints over 8 variables; "
                     "variable names chosen so that lexical order differs from numeric order; each structure built as a DCOP (matrix and expression "
                     "constraints, both insertion orders, both call forms of build_computation_graph) and the real hyper-graph, factor graph and "
                     "ordered graph compared node by node with Graphs.tla; non-trivial = at least one constraint" % (consts["MaxCons"], consts["NSample"]))
    v.cov["trusted_base"] = ["TLC evaluation of Graphs.tla/Dcop.tla", "vlib/props/C16.py construction of the DCOP"]
    return v.finish()


def replay(path):
    d = json.load(open(path))
    for n in range(4):
        _n[0] = n
        msg = execute(d["replay"])
        if msg:
            print(msg)
            return 1
    print("case agrees with the specification")
    return 0
