"""C26 - repair DCOP constraints and candidate info encode the repair rules.
TLC (Gen_C26 / RepairInfo.tla) draws discovery states, enumerates every set of departed agents and prints the repair
information and the value of each repair constraint on every 0/1 assignment; the real reparation functions are run on a
real Discovery object populated with the same state."""
import json, itertools
from ..common import Verdict, seed
from .. import callcheck as CC
from ..cases import num_eq
from pydcop.infrastructure.discovery import Discovery
from pydcop.computations_graph.objects import ComputationGraph, ComputationNode
from pydcop.dcop.objects import create_binary_variables
from pydcop.reparation import removal as RM
from pydcop import reparation as RP

FP = {"c1": 3, "c2": 5}
HC = lambda a: (lambda c: 4 if a == "a1" else (0 if c == "c2" else 7))
COMM = lambda c, n, b: (2 if c == "c1" else 1) * (3 if b == "a2" else 1) + (1 if n == "c3" else 0)


def fp(c):
    return FP.get(c, 2)


def discovery_of(S):
    d = Discovery("observer", "addr_observer")
    for a in S["agents"]:
        d.register_agent(a, "addr_" + a, publish=False)
    for c, a in S["host"].items():
        d.register_computation(c, a, publish=False)
    for c, agts in S["reps"].items():
        for a in agts:
            d.register_replica(c, a, publish=False)
    cg = ComputationGraph(nodes=[ComputationNode(c, neighbors=list(S["nbr"][c])) for c in S["comps"]])
    return d, cg


def morph(d, S0, S):
    """bring the Discovery object from state S0 to state S through its own API (same agents): the object has a history"""
    for c, agts in S0["reps"].items():
        for a in agts:
            if a not in S["reps"].get(c, []):
                d.unregister_replica(c, a, publish=False)
    for c, a in S0["host"].items():
        if S["host"].get(c) != a:
            d.unregister_computation(c, a, publish=False)
    for c, a in S["host"].items():
        if S0["host"].get(c) != a:
            d.register_computation(c, a, publish=False)
    for c, agts in S["reps"].items():
        for a in agts:
            if a not in S0["reps"].get(c, []):
                d.register_replica(c, a, publish=False)


def norm_info(info):
    agts, fixed, cand = info
    return {"agts": sorted(agts), "fixed": dict(fixed), "cand": {n: sorted(x) for n, x in cand.items()}}


def binvars_for(info_by_comp):
    """the binary variables as ResilientAgent.setup_repair creates them"""
    bv = {}
    for c, (agts, _, neighbors) in info_by_comp.items():
        bv.update(create_binary_variables("B", ([c], list(agts))))
        for n, nagts in neighbors.items():
            bv.update(create_binary_variables("B", ([n], list(nagts))))
    return bv


def execute(case):
    S, D = case["S"], sorted(case["D"])
    if case["op"] == "info" and case.get("prev"):
        # the same departed set is first asked on an EARLIER state of the same Discovery object (an agent can leave, come back and
        # leave again; the directory changes in between): the answers must follow the current state
        d, cg0 = discovery_of(case["prev"])
        try:
            RM._removal_orphaned_computations(D, d)
            for a in RM._removal_candidate_agents(D, d):
                RM._removal_candidate_agt_info(a, D, cg0, d)
        except Exception:    # noqa  (the earlier state is only a history; what it answers is judged by its own case)
            pass
        morph(d, case["prev"], S)
        cg = ComputationGraph(nodes=[ComputationNode(c, neighbors=list(S["nbr"][c])) for c in S["comps"]])
        msg = _execute_info(case, S, D, d, cg)
        return msg and msg + " (Discovery object that was first in another state, asked for the same departed agents, then changed through its API)"
    d, cg = discovery_of(S)
    if case["op"] == "info":
        return _execute_info(case, S, D, d, cg)
    return _execute_con(case, S, D, d, cg)


def _execute_info(case, S, D, d, cg):
    if True:
        got = sorted(RM._removal_orphaned_computations(D, d))
        if got != sorted(case["orphaned"]):
            return "orphaned computations %s, expected %s" % (got, sorted(case["orphaned"]))
        got = sorted(RM._removal_candidate_agents(D, d))
        if got != sorted(case["candidates"]) or len(got) != len(set(got)):
            return "candidate agents %s, expected %s" % (got, sorted(case["candidates"]))
        exp_all = case["info"] or {}
        for a in case["candidates"]:
            info = RM._removal_candidate_agt_info(a, D, cg, d)
            exp = exp_all[a] or {}
            if sorted(info) != sorted(exp):
                return "agent %s is candidate for %s, expected %s" % (a, sorted(info), sorted(exp))
            for c in exp:
                g = norm_info(info[c])
                e = {"agts": sorted(exp[c]["agts"]), "fixed": dict(exp[c]["fixed"] or {}), "cand": {n: sorted(x) for n, x in (exp[c]["cand"] or {}).items()}}
                if g != e:
                    return "info of %s for agent %s is %s, expected %s" % (c, a, g, e)
                if any(h in D for h in g["fixed"].values()):
                    return "fixed neighbour of %s hosted on a departed agent: %s" % (c, g["fixed"])
        return None


def _execute_con(case, S, D, d, cg):
    a = case["a"]
    info = RM._removal_candidate_agt_info(a, D, cg, d)
    bv = binvars_for(info)
    scope = [tuple(p) for p in case["scope"]]
    if case["op"] == "hosted":
        c = case["c"]
        vars_c = {k: v for k, v in bv.items() if k[0] == c and k[1] in info[c][0]}
        con = RP.create_computation_hosted_constraint(c, vars_c)
    elif case["op"] == "capacity":
        con = RP.create_agent_capacity_constraint(a, case["remaining"], fp, {k: v for k, v in bv.items() if k[1] == a and k[0] in info})
    elif case["op"] == "hosting":
        con = RP.create_agent_hosting_constraint(a, HC(a), {k: v for k, v in bv.items() if k[1] == a and k[0] in info})
    else:
        con = RP.create_agent_comp_comm_constraint(a, case["c"], info[case["c"]], COMM, bv)
    names = {bv[k].name: k for k in bv}
    got_scope = sorted(names[v.name] for v in con.dimensions)
    if got_scope != sorted(scope):
        return "%s constraint has scope %s, expected %s" % (case["op"], got_scope, sorted(scope))
    for row in case["tab"]:
        ones = {tuple(p) for p in row["x"]}
        asg = {v.name: (1 if names[v.name] in ones else 0) for v in con.dimensions}
        val = con(**asg)
        if not num_eq(val, row["v"]) and not (isinstance(val, float) and val == row["v"]):
            return "%s constraint of %s = %r on %s, expected %r" % (case["op"], a, val, sorted(ones), row["v"])
    return None


def key_of(case, msg):
    return {"op": case["op"], "symptom": msg.split(" ")[0] + " " + (msg.split(" ")[1] if " " in msg else "")}


def run(tier):
    v = Verdict("C26", tier, "model_checking")
    quick = tier == "quick"
    for i, (nag, nc) in enumerate([(3, 3), (4, 3)] if quick else [(3, 3), (4, 3), (4, 4), (5, 4)]):
        cases, res = CC.generate("Gen_C26", consts=dict(NAg=nag, NC=nc, NStates=0), workers=8, seed=seed() + 26 + i, heap="6g")
        v.add_tlc(res, "discovery states x departed sets with repair info and constraint tables (Gen_C26, %d agents, %d computations)" % (nag, nc))
        # every info case is also run as the second half of a two-state history of one Discovery object (previous case's state,
        # same agents and computations)
        states, extra = [], []
        for c in cases:
            if c["op"] == "info" and c["S"] not in states:
                states.append(c["S"])
        k = 0
        for c in cases:
            if c["op"] == "info" and c["orphaned"]:
                for j in range(2):
                    k += 1
                    prev = states[(states.index(c["S"]) + 1 + (k * 7 + j * 3) % max(1, len(states) - 1)) % len(states)]
                    if prev != c["S"] and prev["agents"] == c["S"]["agents"] and prev["comps"] == c["S"]["comps"]:
                        extra.append(dict(c, prev=prev))
        cases = cases + extra
        v.cov["two_state_histories"] = v.cov.get("two_state_histories", 0) + len(extra)
        CC.run_cases(v, cases, execute, key_of, nontrivial=lambda c: (c["op"] == "info" and len(c["orphaned"]) > 0) or (c["op"] != "info" and len(c["scope"]) > 0))
    v.cov["exhaustive"] = False
    v.cov["rule"] = ("36 TLC-drawn discovery states per size (host map, replica sets, computation graph) x every non-trivial set of departed agents; "
                     "repair info compared as sets / maps; each of the four repair constraints built as ResilientAgent.setup_repair does and evaluated on "
                     "every 0/1 assignment of its scope (expected values from RepairInfo.tla); every info case also as the second state of a two-state history of ONE Discovery object (the same departed set asked before and after the directory changed through its API); non-trivial = some computation is orphaned / the scope is not empty")
    v.cov["trusted_base"] = ["TLC (RepairInfo.tla)", "vlib/props/C26.py population of the Discovery object"]
    return v.finish()


def replay(path):
    d = json.load(open(path))
    msg = execute(d["replay"])
    print(msg or "case agrees with the specification")
    return 1 if msg else 0
