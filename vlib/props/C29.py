"""C29 - batch parameter expansion is an exact cartesian product, in a deterministic order (several PYTHONHASHSEED)."""
import json, os, subprocess, sys
from ..common import Verdict, seed as vseed, scratch, VERIF, MachineryError
from .. import callcheck as CC


def run(tier):
    quick = tier == "quick"
    v = Verdict("C29", tier, "model_checking")
    consts = dict(NParams=3 if quick else 4, MaxVals=3 if quick else 4, MaxCases=1500 if quick else 20000)
    cases, res = CC.generate("Gen_C29", consts=consts, workers=4 if quick else 16, seed=vseed() + 3, heap="8g")
    v.add_tlc(res, "parameter definitions with their expansion as a set (Gen_C29, %s)" % consts)
    cases.sort(key=lambda c: json.dumps(c, sort_keys=True))
    cf = scratch() / "c29_cases.json"
    cf.write_text(json.dumps(cases))
    seeds = ["0", "1", "12345"] if quick else ["0", "1", "2", "12345", "987654"]
    procs = []
    for hs in seeds:
        of = scratch() / ("c29_out_%s.json" % hs)
        env = dict(os.environ, PYTHONHASHSEED=hs)
        procs.append((hs, of, subprocess.Popen([sys.executable, "-m", "vlib.props.C29_worker", str(cf), str(of), hs],
                                               cwd=str(VERIF), env=env, stdout=subprocess.DEVNULL, stderr=subprocess.PIPE)))
    first = None
    for hs, of, p in procs:
        _, err = p.communicate(timeout=3000)
        if p.returncode != 0 or not of.exists():
            raise MachineryError("C29 worker failed for hash seed %s: %s" % (hs, err.decode()[-800:]))
        out = json.load(open(of))
        if first is None:
            first = out
        for n, (case, (msg, seq)) in enumerate(zip(cases, out)):
            v.cov["evaluations"] += 1
            nested = any(p_["kind"] == "sub" for p_ in case["def"].values())
            if hs == seeds[0] and case["n"] > 1:
                v.cov["distinct_nontrivial"] += 1
            if not msg and first[n][1] is not None and seq != first[n][1]:
                msg = "the order of the expansion depends on PYTHONHASHSEED (%s vs %s)" % (hs, seeds[0])
            if msg:
                key = {"nested": nested, "symptom": msg.split(":")[0].split("(")[0].strip()[:50]}
                v.violation(key, "hash seed %s: %s" % (hs, msg), {"case": case, "n": n, "hashseed": hs})
            elif hs == seeds[0] and nested and case["n"] > 3:
                v.sample({"def": case["def"], "n": case["n"]}, cap=2)
    v.cov["traces_validated_against_impl"] = len(cases) * len(seeds)
    v.cov["hash_seeds"] = seeds
    v.cov["exhaustive"] = len(cases) < consts["MaxCases"]
    v.cov["rule"] = ("parameter definitions with 1..%d parameters, each a list of 1..%d values (numbers and strings, shuffled), a scalar, or a "
                     "dict of 1-2 sub-parameters with 1-2 values; the list returned by parameters_configuration(regularize_parameters(.)) "
                     "must have no duplicate, be exactly Batch!Combos as a set, be identical for a second expansion and across "
                     "PYTHONHASHSEED values; build_option_for_parameters of each combination must split into exactly Batch!Tokens; "
                     "non-trivial = more than one combination" % (consts["NParams"], consts["MaxVals"]))
    v.cov["trusted_base"] = ["TLC evaluation of Batch.tla", "vlib/props/C29_worker.py construction of the YAML-shaped input"]
    return v.finish()


def replay(path):
    d = json.load(open(path))
    from .C29_worker import execute
    msg, _ = execute(d["replay"]["case"], d["replay"]["n"], d["replay"]["hashseed"])
    print(msg or "case agrees with the specification")
    return 1 if msg else 0
