"""C04 - a complete MGM / MGM2 cycle without any move means the assignment is 1-opt."""
from ..algocheck import run_algo_check, replay  # noqa: F401
from .C03 import plans

CLAUSES = {"C04_stagnation_not_one_opt"}


def run(tier):
    v = run_algo_check("C04", tier, "model_checking", plans(tier, ["c04"]), CLAUSES,
                       nontrivial=lambda vd, m: vd["wit"]["stagnations"] > 0,
                       rule="same executions as C03 (MGM, MGM2; min and max; with and without own-value costs); AlgoMon checks "
                            "OneOpt(assignment) (Dcop.tla: no single variable can strictly improve the global cost) whenever two "
                            "consecutive equal-cycle snapshots are identical; non-trivial = at least one such stagnating cycle observed. "
                            "MODEL: Mgm.tla checked by TLC over every start order, FIFO delivery order and random draw on TLC-drawn "
                            "instances (invariant StagnationIsOneOpt over the cycle-boundary history, plus the structural ones), every "
                            "explored transition replayed on the real MgmComputation objects; if they leave the model, their own "
                            "reachable graph (and that of further instances) is explored and judged by TLC (Judge_Hist)")
    from ..mgmmodel import model_part
    model_part(v, tier, ["StagnationIsOneOpt"], CLAUSES, ["c04"], seed_off=4)
    # MGM2: Mgm2.tla; the invariant restricted to the cycles without an accepted offer must hold; the unrestricted one is checked on
    # the instance of the known finding, which TLC's counterexample - replayed on the real computations - regenerates
    from ..mgm2model import model_part as mgm2_part
    mgm2_part(v, tier, ["StagnationIsOneOptSolo"], CLAUSES, ["c04"], seed_off=4, regen=("C04_mgm2_pair.json", "StagnationIsOneOpt", 3))
    return v.finish()
