"""C05 - Max-Sum without damping is exact on acyclic factor graphs with a unique optimum."""
from ..algocheck import run_algo_check, replay  # noqa: F401

TREES = ["single", "unary1", "pair", "pair3", "pairrev", "unarypair", "upath", "ustar", "uall", "isolated", "isounary", "path3", "path3d3", "fork3", "tern",
         "twocomp", "path4", "star4"]
LARGE = ["path5", "tree5", "tern5"]
CLAUSES = {"EXC", "end_on_non_optimal_assignment"}
# (`stability` keeps its default 0.1: the statement only fixes damping and noise)
PARAMS = {"damping": 0, "noise": 0}


def rounds_needed(inst):
    n = len(inst["vars"]) + len(inst["cons"])
    return 3 * n + 10


def stop_sync(w, ev):
    r = rounds_needed(w.inst)
    return all(w.started.values()) and all(int(c.cycle_count or 0) >= r for c in w.comps.values() if c.neighbors)


def diagnose(vd, m):
    """the same execution with stability 0 (a message is then only "the same as the previous one" when it is identical): if it ends
    on the optimum, what went wrong is the stability cut-off (approx_match + SAME_COUNT)"""
    from .. import algotrace as AT
    out = {"start_messages": m["params"]["start_messages"], "five_or_more_variables": len(m["inst"]["vars"]) >= 5}
    if not any(b[0] == "end_on_non_optimal_assignment" for b in vd["bad"]):
        return out
    try:
        w = AT.run_one(m["inst"], m["algo"], dict(m["params"], stability=0), m["sched_seed"], policy=m["policy"], wire=m["wire"],
                       max_steps=m.get("max_steps", 3000), timers=False, stop=stop_sync if m["algo"] == "maxsum" else None)
        rec = AT.trace_record(0, w, ["endopt"])
        verdicts, _, _ = AT.judge([rec])
        out["exact_with_stability_0"] = not any(b[0] == "end_on_non_optimal_assignment" for b in verdicts.get(0, {}).get("bad", []))
    except Exception as ex:        # (the diagnosis must not hide the violation)
        out["exact_with_stability_0"] = "diagnosis failed: %s" % type(ex).__name__
    return out


def run(tier):
    quick = tier == "quick"
    plans = []
    shapes = TREES if quick else TREES + LARGE
    for sm in ("leafs", "leafs_vars", "all"):
        plans.append(dict(algo="maxsum", params=dict(PARAMS, start_messages=sm), props=["endopt"], shapes=shapes,
                          alpha=[0, 1, 2, 4, 8, -4], vcalpha=[0] if sm != "all" else [0, 2, 4], n=3 if quick else 8, scheds=2 if quick else 4,
                          filter=lambda i: i["nopt"] == 1, stop=stop_sync, max_steps=6000, policies=["random", "lag", "starts_first"]))
        plans.append(dict(algo="amaxsum", params=dict(PARAMS, start_messages=sm), props=["endopt"], shapes=shapes,
                          alpha=[0, 1, 2, 4, 8, -4], vcalpha=[0] if sm != "all" else [0, 2, 4], n=3 if quick else 8, scheds=2 if quick else 4,
                          filter=lambda i: i["nopt"] == 1, max_steps=4000, policies=["random", "lag", "starts_first"]))
    # near ties between costs of the same magnitude: corrections far below the default `stability` of 10% decide the optimum
    for algo, extra in (("maxsum", dict(stop=stop_sync, max_steps=6000)), ("amaxsum", dict(max_steps=4000))):
        plans.append(dict(algo=algo, params=dict(PARAMS, start_messages="leafs"), props=["endopt"], shapes=shapes,
                          alpha=[64, 65, 66, 68, 72, 60], vcalpha=[0], n=2 if quick else 6, scheds=2 if quick else 4,
                          filter=lambda i: i["nopt"] == 1, policies=["random", "lag", "starts_first"], **extra))
    v = run_algo_check("C05", tier, "model_checking", plans, CLAUSES,
                       nontrivial=lambda vd, m: len(m["inst"]["cons"]) > 0,
                       key_extra=diagnose,
                       rule="instances: tree/forest-shaped Gen_Dcop shapes (chains, stars, a ternary factor, unary factors, isolated variables, two "
                            "components) with tables over {0,1,2,4,8,-4} (dyadic: float arithmetic exact) and over {60,64,65,66,68,72} (near ties: differences far below "
                            "the default 10% `stability` decide the optimum), kept only when TLC finds exactly one optimal "
                            "assignment; maxsum (synchronous) is run until every computation completed 3*|nodes|+10 rounds, amaxsum until quiescence "
                            "or 4000 deliveries; damping 0, noise 0, all three start_messages modes; at the end of the execution AlgoMon requires the "
                            "selected assignment to be the optimum; non-trivial = at least one constraint")
    return v.finish()
