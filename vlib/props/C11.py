"""C11 - relations evaluate and slice consistently with their definition (all eight kinds, all slicing walks,
several PYTHONHASHSEED values)."""
import json, os, subprocess, sys
from ..common import Verdict, seed as vseed, scratch, VERIF, MachineryError
from .. import tlc

CFG = "INIT Init\nNEXT Next\nINVARIANT Emit\n"


def run(tier):
    quick = tier == "quick"
    v = Verdict("C11", tier, "model_checking")
    res = tlc.run("Gen_C11", CFG, consts=dict(NTabs=1 if quick else 3, MaxSteps=2 if quick else 3), workers=4 if quick else 16,
                  seed=vseed() + 1)
    v.add_tlc(res, "relations x slicing walks with the expected slices (Gen_C11)")
    cases = [c[0] for c in res.tagged("CASE")]
    if len(cases) != res.distinct or not cases:
        raise MachineryError("parsed %d cases, TLC reports %d" % (len(cases), res.distinct))
    cases.sort(key=lambda c: json.dumps(c, sort_keys=True))
    cf = scratch() / "c11_cases.json"
    cf.write_text(json.dumps(cases))
    seeds = ["0", "1", "2", "3", "12345", "4711"] if quick else ["0", "1", "2", "3", "4", "5", "6", "7", "12345", "987654", "4711", "random"]
    procs = []
    for hs in seeds:
        of = scratch() / ("c11_out_%s.json" % hs)
        env = dict(os.environ, PYTHONHASHSEED=hs)
        procs.append((hs, of, subprocess.Popen([sys.executable, "-m", "vlib.props.C11_worker", str(cf), str(of)],
                                               cwd=str(VERIF), env=env, stdout=subprocess.DEVNULL, stderr=subprocess.PIPE)))
    kinds = {}
    for hs, of, p in procs:
        _, err = p.communicate(timeout=3000)
        if p.returncode != 0 or not of.exists():
            raise MachineryError("C11 worker failed for hash seed %s: %s" % (hs, err.decode()[-800:]))
        fails = {n: (k, msg) for n, k, msg in json.load(open(of))}
        for n, case in enumerate(cases):
            kind = case["rel"]["kind"]
            v.cov["evaluations"] += 1
            if hs == seeds[0]:
                kinds[kind] = kinds.get(kind, 0) + 1
                if case["steps"]:
                    v.cov["distinct_nontrivial"] += 1
            if n in fails:
                k, msg = fails[n]
                key = {"kind": kind, "step": "eval" if k == 0 else ("first_slice" if k == 1 else "later_slice"),
                       "declared_order_is_text_order": case["rel"]["torder"] == case["rel"]["rel"]["scope"]}
                key["symptom"] = ("no_dimensions_left" if "dimensions [], expected" in msg else "wrong_dimensions" if "dimensions [" in msg
                                  else "raised" if "raised" in msg else "wrong_value")
                if kind == "cond":
                    key["return_neutral"] = case["rel"]["neutral"]
                v.violation(key, "%s relation (hash seed %s): %s" % (kind, hs, msg), {"case": case, "hashseed": hs, "n": n})
            elif hs == seeds[0] and len(case["steps"]) > 1:
                v.sample(case, cap=2)
    v.cov["traces_validated_against_impl"] = len(cases) * len(seeds)
    v.cov["per_kind"] = kinds
    v.cov["hash_seeds"] = seeds
    v.cov["exhaustive"] = True
    v.cov["rule"] = ("all eight relation kinds over ordered scopes of x:2 y:2 z:3 values; for expression and python-function relations every "
                     "pair (declared order, textual/parameter order); conditional relations with conditions over 1-2 variables shared or not "
                     "with the consequence, return_neutral both ways; every slicing walk (which variable is fixed at which step, <= MaxSteps "
                     "steps) with all (or 3 TLC-drawn) value choices; after every step the real relation must have exactly the remaining "
                     "variables as dimensions and give Slice(R, fixed) (Relations.tla) on every completion through keyword, positional and dict "
                     "calls; the whole batch is executed once per PYTHONHASHSEED; non-trivial = walks with at least one slicing step")
    v.cov["trusted_base"] = ["TLC evaluation of Relations.tla/Gen_C11.tla", "vlib/props/C11_worker.py construction of the relations"]
    return v.finish()


def replay(path):
    d = json.load(open(path))
    from .C11_worker import execute
    r = execute(d["replay"]["case"], d["replay"]["n"])
    print("hash seed of the failing run: %s; result now: %s" % (d["replay"]["hashseed"], r))
    return 1 if r else 0
