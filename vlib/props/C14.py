"""C14 - DCOP YAML files round-trip and load faithfully.
TLC draws the DCOP (Gen_Dcop: tables, initial values) and the agents (Gen_C25: capacities, symmetric routes, hosting
costs); the DCOP is built with int and str domains, extensional (matrix) and intentional (expression) constraints, dumped
with dcop_yaml and loaded back from the string, from one file and from several files; TLC (Judge_C14 / Wire.tla) compares
the observation of the loaded DCOP with the generated one (constraint values on every assignment against TLC's tables)."""
import json, random, itertools, os
import numpy as np
from ..common import Verdict, seed, scratch, MachineryError
from .. import algotrace as AT, callcheck as CC
from ..judge import judge
from pydcop.dcop.objects import Variable, Domain, AgentDef
from pydcop.dcop.dcop import DCOP
from pydcop.dcop.relations import NAryMatrixRelation, constraint_from_str
from pydcop.dcop.yamldcop import dcop_yaml, load_dcop, load_dcop_from_file

SHAPES = ["single", "unary1", "pair", "pair3", "pairrev", "parallel", "unarypair", "isolated", "path3", "path3d3", "triangle", "tern", "twocomp", "star4"]
# value lists: unordered ints, strings, a contiguous increasing range, strings that look like other YAML types, contiguous
# ranges that are NOT in increasing order (a dump as "min .. max" would reorder them), floats
VALS = [[7, 3, 5, 11], ["R", "G", "B", "A"], [0, 1, 2, 3], ["1", "0", "x y".replace(" ", "_"), "no"],
        [3, 2, 1, 0], [1, 0, 2, 3], [1.5, 0.5, 2.0, 3.25]]


def token(x):
    return "%s:%s" % (type(x).__name__, x)


def build(inst, dep, n):
    doms, vars_ = {}, {}
    dcop = DCOP("case%d" % n, inst["mode"])
    for i, v in enumerate(inst["vars"]):
        vals = VALS[(i + n) % len(VALS)][:inst["dsize"][v]]
        # variables with equal value lists share one domain object (as YAML files usually declare them)
        key = tuple(vals)
        if key not in doms:
            doms[key] = Domain("d%d" % len(doms), "t%d" % (len(doms) % 2), vals)
        iv = vals[inst["init"][v] - 1] if inst["init"].get(v) else None
        vars_[v] = Variable(v, doms[key], initial_value=iv)
        dcop.add_variable(vars_[v])
        dcop.domains[doms[key].name] = doms[key]
    for i, c in enumerate(inst["cons"]):
        sc = [vars_[s] for s in c["scope"]]
        shape = [inst["dsize"][s] for s in c["scope"]]
        if (i + n) % 2 == 0:
            rel = NAryMatrixRelation(sc, np.array(c["tab"]).reshape(shape), name=c["name"])
        else:
            def lit(prefix):
                if len(prefix) == len(sc):
                    idx = 0
                    for k, s in enumerate(c["scope"]):
                        idx = idx * inst["dsize"][s] + prefix[k]
                    return repr(c["tab"][idx])
                vv = list(sc[len(prefix)].domain.values)
                return "{" + ", ".join("%r: %s" % (vv[j], lit(prefix + [j])) for j in range(len(vv))) + "}"
            expr = lit([]) + "".join("[%s]" % s for s in c["scope"])
            rel = constraint_from_str(c["name"], expr, list(vars_.values()))
        dcop.add_constraint(rel)
    names = ["a%d" % i for i in range(1, dep["nag"] + 1)]
    comps = list(inst["vars"])
    for i, a in enumerate(names):
        routes = {names[j]: dep["route"][i][j] for j in range(len(names)) if j != i and (i + j + n) % 3}
        # zero costs are written explicitly for a third of the (agent, computation) pairs: with a non-zero default they mean something
        hosting = {comps[c]: dep["hosting"][i][c] for c in range(len(comps)) if dep["hosting"][i][c] or (i + c + n) % 3 == 0}
        dcop.add_agents([AgentDef(a, capacity=dep["cap"][i], default_route=1, routes=routes, default_hosting_cost=0 if dep["k"] == 1 else 4, hosting_costs=hosting)])
    return dcop, vars_


def observe(dcop, inst, names):
    vs = sorted(dcop.variables)
    out = {"vars": vs, "objective": dcop.objective,
           "doms": {v: [token(x) for x in dcop.variables[v].domain.values] for v in vs},
           "init": {v: (list(dcop.variables[v].domain.values).index(dcop.variables[v].initial_value) + 1
                        if dcop.variables[v].initial_value is not None else 0) for v in vs},
           "consnames": sorted(dcop.constraints), "tabs": []}
    for c in inst["cons"]:
        rel = dcop.constraints.get(c["name"])
        tab = []
        if rel is not None:
            doms = [list(dcop.variables[s].domain.values) for s in c["scope"]]
            for combo in itertools.product(*doms):
                val = rel(**dict(zip(c["scope"], combo)))
                tab.append(int(val) if float(val) == int(val) else -999999)
        out["tabs"].append(tab)
    comps = list(inst["vars"]) + ["some_other_computation"]
    ags = {a: dcop.agents[a] for a in sorted(dcop.agents)}
    out["agents"] = {"cap": {a: int(getattr(d, "capacity")) for a, d in ags.items()},
                     "route": {a: [int(d.route(b)) for b in names] for a, d in ags.items()},
                     "defroute": {a: int(d.route("some_other_agent")) for a, d in ags.items()},
                     "host": {a: [int(d.hosting_cost(c)) for c in inst["vars"]] for a, d in ags.items()},
                     "defhost": {a: int(d.hosting_cost("some_other_computation")) for a, d in ags.items()}}
    return out


def split_sections(text):
    """cut a YAML document into its top-level sections"""
    parts, cur = [], []
    for line in text.splitlines(keepends=True):
        if line and not line[0].isspace() and line.strip() and cur and not line.startswith("#"):
            parts.append("".join(cur))
            cur = []
        cur.append(line)
    if cur:
        parts.append("".join(cur))
    return parts


def load_routes(text, n):
    yield "string", lambda: load_dcop(text)
    d = scratch() / ("c14_%d" % n)
    d.mkdir(exist_ok=True)
    f = d / "all.yaml"
    f.write_text(text)
    yield "one_file", lambda: load_dcop_from_file(str(f))
    secs = split_sections(text)
    for k in (2, 3):
        if len(secs) >= k:
            files = []
            size = -(-len(secs) // k)
            for j in range(k):
                chunk = "".join(secs[j * size:(j + 1) * size])
                if chunk:
                    p = d / ("part%d_%d.yaml" % (k, j))
                    p.write_text(chunk)
                    files.append(str(p))
            yield "%d_files" % k, (lambda fs=files: load_dcop_from_file(fs))


def refactored(text, n):
    """the same document written another way: a global `hosting_costs.default` (non-zero) is added while every agent keeps its own
    explicit default (an agent's default overrides the global one, also when it is 0), and - every other time - the global route
    default is changed while every route that relied on it is written out.  What the agents answer must not change."""
    import yaml
    doc = yaml.safe_load(text)
    hc = doc.get("hosting_costs")
    names = list(doc.get("agents") or {})
    if not isinstance(hc, dict) or not names or "default" in hc:
        return None
    for a in names:
        hc.setdefault(a, {}).setdefault("default", 0)
    hc["default"] = 7 + n % 3
    if n % 2 and isinstance(doc.get("routes"), dict):
        rt = doc["routes"]
        d0 = rt.get("default", 1)
        for i, a in enumerate(names):
            for b in names[i + 1:]:
                if b not in (rt.get(a) or {}) and a not in (rt.get(b) or {}):
                    rt.setdefault(a, {})[b] = d0
    return yaml.safe_dump(doc, default_flow_style=False)


def run(tier):
    quick = tier == "quick"
    v = Verdict("C14", tier, "exploration")
    insts, gres = AT.gen_instances(SHAPES, [0, 1, 3, -2, 10000], n=2 if quick else 6, seed=seed() + 14, modes=("min", "max"), with_init=True)
    v.add_tlc(gres, "DCOP instances (Gen_Dcop, with initial values)")
    recs, meta = [], {}
    routes_count = {}
    n = 0
    pool = {}
    for nag in (2, 3, 4):
        pool[nag], dres = CC.generate("Gen_C25", consts=dict(NAg=nag, NComp=5, NCases=6 if quick else 20, Caps={5, 100, 1000}, Ks={1, 2}),
                                      workers=2, seed=seed() + nag)
        v.add_tlc(dres, "agent sets (Gen_C25, %d agents)" % nag)
    for ii, inst in enumerate(insts):
        nag = 2 + ii % 3
        deps = [pool[nag][(ii * 7 + j) % len(pool[nag])] for j in range(4)]
        for dep in deps[:2 if quick else 4]:
            n += 1
            dcop, _ = build(inst, dep, n)
            names = sorted(dcop.agents)
            orig = observe(dcop, inst, names)
            orig["tabs"] = [list(c["tab"]) for c in inst["cons"]]      # the oracle for the constraint values is TLC's table
            try:
                text = dcop_yaml(dcop)
            except Exception as e:
                recs.append({"id": len(recs), "orig": orig, "loaded": orig, "exc": "dump: %s: %s" % (type(e).__name__, str(e)[:80])})
                meta[recs[-1]["id"]] = {"route": "dump", "inst": inst, "dep": dep, "n": n}
                continue
            routes = list(load_routes(text, n))
            try:
                t2 = refactored(text, n)
            except Exception:    # noqa  (a document my rewriting cannot handle is simply not rewritten)
                t2 = None
            if t2:
                routes.append(("rewritten_with_global_defaults", lambda _t=t2: load_dcop(_t)))
            for route, load in routes:
                rec = {"id": len(recs), "orig": orig, "loaded": orig, "exc": ""}
                try:
                    rec["loaded"] = observe(load(), inst, names)
                except Exception as e:
                    rec["exc"] = "%s: %s: %s" % (route, type(e).__name__, str(e)[:80])
                routes_count[route] = routes_count.get(route, 0) + 1
                meta[rec["id"]] = {"route": route, "inst": inst, "dep": dep, "n": n, "yaml": (t2 if route.startswith("rewritten") else text)[:3000]}
                recs.append(rec)
    verdicts, jres = judge("Judge_C14", recs, chunk=1500)
    v.add_tlc(jres, "%d round trips judged (Judge_C14 / Wire.tla)" % len(recs))
    for rec in recs:
        m = meta[rec["id"]]
        v.cov["evaluations"] += 1
        v.cov["traces_validated_against_impl"] += 1
        if m["inst"]["cons"]:
            v.cov["distinct_nontrivial"] += 1
        for clause in verdicts[rec["id"]]:
            v.violation({"clause": clause, "route": m["route"]},
                        "%s via %s (shape %s): %s" % (clause, m["route"], m["inst"]["shape"], rec["exc"] or ""),
                        {"inst": m["inst"], "dep": m["dep"], "n": m["n"], "route": m["route"], "yaml": m.get("yaml"), "orig": rec["orig"], "loaded": rec["loaded"]})
        if not verdicts[rec["id"]] and len(m["inst"]["cons"]) >= 2 and m["route"] == "3_files":
            v.sample({"shape": m["inst"]["shape"], "route": m["route"], "loaded": {k: rec["loaded"][k] for k in ("vars", "doms", "init", "consnames")}}, cap=2)
    v.cov["loading_routes"] = routes_count
    v.cov["exhaustive"] = False
    v.cov["rule"] = ("TLC-drawn DCOPs over 14 shapes (tables over {0,1,3,-2,10000}, initial values, min/max) with int and str domains shared between "
                     "variables, matrix and expression constraints alternating, 2-4 agents with capacities, partial symmetric route tables, default and "
                     "specific hosting costs; dumped once, loaded from the string, one file, the sections split over 2 and 3 files, and from an equivalent document rewritten with a non-zero global hosting-cost default next to the agents' own defaults (0 included); non-trivial = at "
                     "least one constraint")
    v.cov["trusted_base"] = ["TLC (Wire.tla)", "vlib/props/C14.py construction and observation of the DCOP"]
    v.assumptions = ["variables with cost functions, external variables and distribution hints are not part of the dumped format and are not generated"]
    return v.finish()


def replay(path):
    d = json.load(open(path))["replay"]
    dcop, _ = build(d["inst"], d["dep"], d["n"])
    text = dcop_yaml(dcop)
    if str(d.get("route", "")).startswith("rewritten"):
        text = refactored(text, d["n"]) or text
    try:
        l = load_dcop(text)
        print(json.dumps(observe(l, d["inst"], sorted(dcop.agents)))[:1500])
    except Exception as e:
        print("raised", type(e).__name__, e)
        return 1
    return 0
