"""C03 - MGM and MGM2 never worsen the global cost between completed cycles; neighbours move together
only as the two partners of an accepted MGM2 offer."""
from ..algocheck import run_algo_check, replay  # noqa: F401

SMALL = ["pair", "pair3", "parallel", "unarypair", "upath", "uall", "isolated", "isounary", "path3", "path3d3", "fork3", "triangle", "tern", "ternpair"]
LARGE = ["twocomp", "path4", "star4", "cycle4", "tritail", "path5", "tree5", "tern5"]
CLAUSES = {"C03_cost_got_worse", "C03_neighbours_moved_together"}


def plans(tier, props):
    quick = tier == "quick"
    out = []
    for algo in ("mgm", "mgm2"):
        for vc in ([0], [0, 1, 3]):
            k = 4 if quick else 6
            out.append(dict(algo=algo, params={"stop_cycle": k}, props=props, k=k,
                            shapes=SMALL if quick else SMALL + LARGE, alpha=[0, 1, 2, 5, -1] if vc == [0] else [0, 1, 2, 4],
                            vcalpha=vc, n=2 if quick else 5, scheds=4 if quick else 8, with_init=True,
                            policies=["barrier", "random", "barrier", "lag"]))
    return out


def run(tier):
    v = run_algo_check("C03", tier, "model_checking", plans(tier, ["c03"]), CLAUSES,
                       nontrivial=lambda vd, m: vd["wit"]["moves"] > 0,
                       rule="instances: Gen_Dcop shapes with binary/ternary/parallel/unary constraints, with and without own-value costs, "
                            "min and max, TLC-drawn tables and initial values; MGM and MGM2 with stop_cycle 4 (quick) / 6; seeded "
                            "per-channel-FIFO schedules (barrier-heavy so that equal-cycle instants are frequent); AlgoMon snapshots the "
                            "assignment at every instant where all computations with neighbours completed the same number of cycles and "
                            "checks consecutive snapshots; non-trivial = at least one value change between consecutive snapshots. "
                            "MODEL: Mgm.tla (implementation-shaped model of MgmComputation) checked by TLC over every start order, "
                            "FIFO delivery order and random draw on TLC-drawn instances (invariants CostMonotone, MoveAlone and the "
                            "structural ones), every explored transition replayed on the real computations with the whole local "
                            "state compared; if the real computations leave the model, their own reachable graph is explored and "
                            "judged by TLC (Judge_Hist)")
    from ..mgmmodel import model_part
    model_part(v, tier, ["CostMonotone", "MoveAlone"], CLAUSES, ["c03"], seed_off=3)
    # MGM2: Mgm2.tla, same treatment; CostMonotone is checked on the cycles without an accepted coordinated offer (it fails in the
    # others: known finding, which the thorough tier regenerates from the model by checking the unrestricted invariant)
    from ..mgm2model import model_part as mgm2_part
    mgm2_part(v, tier, ["CostMonotoneSolo", "MoveAlone"], CLAUSES, ["c03"], seed_off=3,
              regen=None if tier == "quick" else ("C03_mgm2_pair.json", "CostMonotone", 3))
    return v.finish()
