"""C08 - synchronous computations run in proper rounds under any asynchronous (per-channel FIFO) order.
(M) SyncRounds.tla: all graphs of the catalogue, all start orders, all FIFO deliveries (messages before start included),
    every choice of the subset of neighbours the algorithm writes to in every round;
(R) the transitions TLC explored are replayed on REAL probe computations (SynchronousComputationMixin + DcopComputation)
    whose on_start / on_new_cycle send to the TLC-chosen subset (by post_msg and by return value) - projection compared
    after every step;
(T) executions of the probe and of the real Max-Sum and DSA-tuto computations under seeded schedules, judged by TLC
    (Judge_C08): no handler error, consecutive cycle ids, exactly the algorithm messages of the round."""
import json, random, collections
from ..common import Verdict, seed, scratch, MachineryError
from .. import tlc, replay as RP
from pydcop.infrastructure.computations import (SynchronousComputationMixin, DcopComputation, SynchronizationMsg,
                                                message_type, register, ComputationException)
from pydcop.computations_graph.objects import ComputationNode
from pydcop.algorithms import ComputationDef, AlgorithmDef

ProbeMsg = message_type("probe", ["payload"])
GRAPHS = {
    "single": {"a": []},
    "pair": {"a": ["b"], "b": ["a"]},
    "path3": {"a": ["b"], "b": ["a", "c"], "c": ["b"]},
    "triangle": {"a": ["b", "c"], "b": ["a", "c"], "c": ["a", "b"]},
    "pair_iso": {"a": ["b"], "b": ["a"], "c": []},
    "star4": {"a": ["b", "c", "d"], "b": ["a"], "c": ["a"], "d": ["a"]},
    "cycle4": {"a": ["b", "d"], "b": ["a", "c"], "c": ["b", "d"], "d": ["a", "c"]},
}
CFG = """INIT Init
NEXT Next
CONSTANTS MaxRound = %d
INVARIANT NoSyncError
INVARIANT RoundsInOrder
INVARIANT NeighbourSkew
INVARIANT BoxesConsistent
CONSTRAINT Bounded
VIEW View
%s"""
JUDGE_CFG = "INIT Init\nNEXT Next\nINVARIANT Emit\n"


class Probe(SynchronousComputationMixin, DcopComputation):
    def __init__(self, comp_def, world):
        super().__init__(comp_def.node.name, comp_def)
        self.world = world
        self.choice = []
        self.style = 0

    @register("probe")
    def _on_probe(self, sender, msg, t):    # the mixin intercepts every registered message type
        raise AssertionError("handler called directly")

    def on_start(self):
        for n in self.choice:
            self.post_msg(n, ProbeMsg((self.name, 0)))

    def on_new_cycle(self, messages, cycle_id):
        self.world.calls.append({"c": self.name, "cycle": cycle_id, "from": sorted(messages),
                                 "payloads": {s: m.payload for s, (m, _) in messages.items()}})
        out = []
        for i, n in enumerate(self.choice):
            m = ProbeMsg((self.name, cycle_id + 1))
            if (i + self.style) % 2:
                self.post_msg(n, m)            # both sending styles the mixin supports
            else:
                out.append((n, m))
        return out or None


class World:
    def __init__(self, graph):
        self.graph = graph
        self.chan = collections.defaultdict(list)
        self.reinj = collections.defaultdict(list)
        self.calls, self.sent, self.exc = [], [], []
        self.started = set()
        self.comps = {}
        algo = AlgorithmDef("dsatuto", {}, "min")
        for i, (c, nb) in enumerate(sorted(graph.items())):
            p = Probe(ComputationDef(ComputationNode(c, neighbors=list(nb)), algo), self)
            p.style = i
            p.message_sender = self._send
            self.comps[c] = p

    def _send(self, src, dst, msg, prio=None, on_error=None):
        if prio == 19:
            self.reinj[dst].append((src, msg))
            return
        if not isinstance(msg, SynchronizationMsg):
            self.sent.append({"src": src, "dst": dst, "cyc": msg.cycle_id})
        self.chan[(src, dst)].append(msg)

    def apply(self, a):
        c = self.comps[a["c"]]
        c.choice = sorted(a.get("choice") or [])
        try:
            if a["n"] == "start":
                self.started.add(a["c"])
                if a.get("paused_start"):
                    # a legitimate way to start a computation: paused first, resumed once started
                    c.pause(True)
                    c.start()
                    c.pause(False)
                else:
                    c.start()
            elif a["n"] == "deliver":
                msg = self.chan[(a["src"], a["c"])].pop(0)
                c.on_message(a["src"], msg, 0)
            elif a["n"] == "reinj":
                src, msg = self.reinj[a["c"]].pop(0)
                if src != a["src"]:
                    raise MachineryError("re-injection order differs: %s vs %s" % (src, a["src"]))
                c.on_message(src, msg, 0)
            else:
                raise MachineryError("unknown action %r" % a)
        except ComputationException as e:
            self.exc.append("%s: %s" % (a["c"], str(e)[:100]))

    def enabled(self):
        en = [{"n": "start", "c": c} for c in self.comps if c not in self.started]
        for c, q in self.reinj.items():
            if q:
                en.append({"n": "reinj", "c": c, "src": q[0][0]})
        for (s, d), q in self.chan.items():
            if q and not self.reinj[d]:
                en.append({"n": "deliver", "src": s, "c": d})
        return en

    @staticmethod
    def mrec(src, m):
        return {"from": src, "k": "sync" if isinstance(m, SynchronizationMsg) else "algo", "cyc": m.cycle_id}

    def box(self, c, d):
        out = {}
        for n in self.graph[c]:
            if n in d:
                m = d[n][0]
                out[n] = {"k": "sync" if isinstance(m, SynchronizationMsg) else "algo", "cyc": m.cycle_id}
            else:
                out[n] = {"k": "none", "cyc": -1}
        return out

    def project(self):
        comps = self.comps
        return {"cur": {c: p._current_cycle for c, p in comps.items()},
                "inbox": {c: self.box(c, p._cycle_messages) for c, p in comps.items()},
                "nextbox": {c: self.box(c, p._next_cycle_messages) for c, p in comps.items()},
                "started": sorted(self.started),
                "pre": {c: [self.mrec(s_, m) for s_, m, _ in p._paused_messages_recv] for c, p in comps.items()},
                "reinj": {c: [self.mrec(s_, m) for s_, m in self.reinj[c]] for c in comps},
                "chan": {'<<"%s", "%s">>' % (s, d): [{"k": "sync" if isinstance(m, SynchronizationMsg) else "algo", "cyc": m.cycle_id}
                                                     for m in self.chan[(s, d)]] for s in comps for d in self.graph[s]},
                "calls": {c: [{"cycle": x["cycle"], "from": x["from"]} for x in self.calls if x["c"] == c] for c in comps}}

    def quiet(self):
        return self.started == set(self.comps) and not any(self.chan.values()) and not any(self.reinj.values())

    def history(self, hid, rounds):
        return {"id": hid, "nbr": {c: list(n) for c, n in self.graph.items()}, "calls": [{"c": x["c"], "cycle": x["cycle"], "from": x["from"]} for x in self.calls],
                "sent": self.sent, "exc": self.exc, "quiet": self.quiet(), "rounds": rounds}


def norm(exp):
    """TLC prints sets as lists in its own order and empty functions as []: bring the expectation to the harness's shape"""
    e = dict(exp)
    e["started"] = sorted(e["started"])
    for k in ("inbox", "nextbox"):
        e[k] = {c: (v or {}) for c, v in e[k].items()}
    e["started"] = sorted(e["started"])
    e["chan"] = e["chan"] or {}
    e["calls"] = {c: [{"cycle": x["cycle"], "from": sorted(x["from"])} for x in v] for c, v in e["calls"].items()}
    return e


def tla_graph(g):
    return ("@[c \\in {%s} |-> CASE " % ", ".join('"%s"' % c for c in g) +
            " [] ".join('c = "%s" -> {%s}' % (c, ", ".join('"%s"' % n for n in nb)) for c, nb in g.items()) + "]")


def real_algo_histories(r, n, hid0):
    """executions of the real Max-Sum / DSA-tuto computations: on_new_cycle calls and stamped messages recorded"""
    from ..simrt import World as AlgoWorld
    from .. import algotrace as AT
    insts, gres = AT.gen_instances(["pair", "path3", "fork3", "triangle", "tern", "isolated", "unarypair", "star4"], [0, 1, 3, 2], n=n, seed=seed() + 8,
                                   modes=("min",))
    out = []
    for inst in insts:
        for algo, params in (("maxsum", {"damping": 0, "noise": 0, "stability": 0}), ("dsatuto", {})):
            w = AlgoWorld(inst, algo, params, seed=r.randrange(10 ** 6))
            calls, rounds = [], 3
            for name, comp in w.comps.items():
                def wrap(orig, name=name):
                    def on_new_cycle(messages, cycle_id):
                        calls.append({"c": name, "cycle": cycle_id, "from": sorted(messages)})
                        return orig(messages, cycle_id)
                    return on_new_cycle
                comp.on_new_cycle = wrap(comp.on_new_cycle)
            sched = random.Random(r.randrange(10 ** 6))
            pol = r.choice(["random", "lag", "starts_first"])
            lag = sched.choice(sorted(w.comps))
            steps = 0
            while steps < 4000:
                en = [s for s in w.enabled() if s[0] != "timer"]
                # stop a computation after `rounds` rounds: do not deliver to the ones that completed them
                en = [s for s in en if not (s[0] in ("deliver", "reinj") and w.comps[s[-1]].cycle_count >= rounds)]
                if not en:
                    break
                if pol == "starts_first" and any(s[0] == "start" for s in en):
                    en = [s for s in en if s[0] == "start"]
                if pol == "lag" and sched.random() > 0.15:
                    en = [s for s in en if s[-1] != lag] or en
                w.step(sched.choice(en))
                steps += 1
            sent = []
            for ev in w.events:
                for m in ev["sent"]:
                    if m["p"].get("t") != "cycle_sync" and "cycle_id" in m["p"] and not m.get("reinj"):
                        sent.append({"src": m["src"], "dst": m["dst"], "cyc": m["p"]["cycle_id"]})
            nbr = {c: list(comp.neighbors) for c, comp in w.comps.items()}
            exc = [e["exc"] for e in w.events if e["exc"]]
            calls_k = [x for x in calls if x["cycle"] < rounds]
            stalled = steps < 4000       # the loop ended because nothing deliverable was left (the judge looks at who is behind)
            out.append(({"id": hid0 + len(out), "nbr": nbr, "calls": calls_k, "sent": [s for s in sent if s["cyc"] < rounds], "exc": exc,
                         "quiet": stalled, "rounds": rounds}, {"algo": algo, "inst": inst, "policy": pol}))
    return out, gres


def run(tier):
    quick = tier == "quick"
    v = Verdict("C08", tier, "model_checking")
    r = random.Random(seed() + 8)
    # (graph, MaxRound, replay the edges?)
    plan = [("single", 2, True), ("pair", 3, True), ("pair_iso", 2, True), ("path3", 1, True), ("triangle", 1, False), ("path3", 2, False)]
    if not quick:
        plan += [("path3", 2, True), ("star4", 1, False), ("path3", 3, False)]
    hist = []
    tot_paths = tot_steps = tot_edges = 0
    for gname, rounds, do_replay in plan:
        g = GRAPHS[gname]
        cfg = CFG % (rounds, "ACTION_CONSTRAINT Edge\n" if do_replay else "")
        consts = {"Comp": set(g), "Nbr": tla_graph(g)}
        if do_replay:
            graph, res = RP.dump_edges("SyncRounds", cfg, consts=consts, heap="8g", norm=norm)
        else:
            # progress = no deadlock, when every computation has a neighbour
            res = tlc.run("SyncRounds", cfg, consts=consts, workers=8, heap="8g", deadlock=all(g.values()))
        if res.violated or "Deadlock reached" in res.out:
            raise MachineryError("SyncRounds.tla (%s, %d rounds) violates %s in the model" % (gname, rounds, res.violated or "deadlock freedom"))
        v.add_tlc(res, "exhaustive model checking of SyncRounds.tla on %s with %d rounds%s" % (gname, rounds, " + labelled edge dump" if do_replay else ""))
        if not do_replay:
            continue
        w0 = World(g)
        paths = graph.cover(w0.project(), max_len=60)
        if quick and len(paths) > 1500:
            r.shuffle(paths)
            paths = paths[:1500]
        tot_edges += graph.nedges
        for pi, path in enumerate(paths):
            w = World(g)
            for k, (a, exp) in enumerate(path):
                w.apply(a)
                tot_steps += 1
                diff = RP.first_diff(w.project(), exp)
                if diff:
                    v.divergence("%s path %d step %d (%s %s): real mixin differs from SyncRounds.tla at %s" % (gname, pi, k, a["n"], a["c"], diff))
                    break
            hist.append((w.history(len(hist), rounds), {"graph": gname, "path": [x[0] for x in path]}))
        tot_paths += len(paths)
    # random longer executions of the probe on the larger graphs
    for _ in range(150 if quick else 1500):
        gname = r.choice(["path3", "triangle", "star4", "cycle4", "pair_iso"])
        w = World(GRAPHS[gname])
        rounds = 4
        ops = []
        for _s in range(400):
            en = [a for a in w.enabled() if not (a["n"] != "start" and w.comps[a["c"]]._current_cycle >= rounds and False)]
            if not en:
                break
            a = r.choice(en)
            nb = GRAPHS[gname][a["c"]]
            a["choice"] = [n for n in nb if r.random() < 0.6] if w.comps[a["c"]]._current_cycle < rounds else []
            if a["n"] == "start" and r.random() < 0.3:
                a["paused_start"] = True
            ops.append(a)
            w.apply(a)
            if all(p._current_cycle >= rounds for c, p in w.comps.items() if GRAPHS[gname][c]):
                break
        h = w.history(len(hist), rounds)
        # stalled: nothing left to deliver although some computation has not completed its rounds
        h["quiet"] = not w.enabled()
        hist.append((h, {"graph": gname, "path": ops}))
    real, gres = real_algo_histories(r, 2 if quick else 8, len(hist))
    v.add_tlc(gres, "instance generation (Gen_Dcop) for the Max-Sum / DSA-tuto executions")
    hist += real
    f = scratch() / "c08.ndjson"
    with open(f, "w") as fh:
        for h, _ in hist:
            fh.write(json.dumps(h) + "\n")
    jres = tlc.run("Judge_C08", JUDGE_CFG, env={"TRACE_FILE": str(f)}, workers=4, heap="6g")
    v.add_tlc(jres, "C08 clauses judged on %d executions of real synchronous computations (Judge_C08)" % len(hist))
    verdicts = {x[0]["id"]: x[0]["bad"] for x in jres.tagged("VERDICT")}
    if len(verdicts) != len(hist):
        raise MachineryError("judge returned %d verdicts for %d histories" % (len(verdicts), len(hist)))
    kinds = collections.Counter()
    for h, meta in hist:
        v.cov["evaluations"] += 1
        v.cov["traces_validated_against_impl"] += 1
        kinds[meta.get("algo", "probe")] += 1
        if len(h["calls"]) >= 2:
            v.cov["distinct_nontrivial"] += 1
        for clause in verdicts[h["id"]]:
            v.violation({"clause": clause, "computation": meta.get("algo", "probe")},
                        "%s (%s on %s): calls %s exceptions %s" % (clause, meta.get("algo", "probe"), meta.get("graph") or meta["inst"]["shape"], h["calls"][:6], h["exc"][:2]),
                        {"meta": {k: x for k, x in meta.items() if k != "inst"}, "history": h, "inst": meta.get("inst")})
        if not verdicts[h["id"]] and len(h["calls"]) >= 4 and "graph" in meta:
            v.sample({"graph": meta["graph"], "calls": h["calls"][:8]}, cap=2)
    v.cov.update(replayed_paths=tot_paths, replayed_steps=tot_steps, model_edges=tot_edges, executions_by_computation=dict(kinds))
    v.cov["exhaustive"] = True
    v.cov["rule"] = ("model: graphs single / pair / pair+isolated / path3 / triangle (thorough: + star4, cycle4) with 1-3 rounds, all start orders, all "
                     "per-channel-FIFO deliveries (messages before start included), every subset of neighbours written to in every round; every explored "
                     "transition of the smaller configurations replayed on real probe computations (both sending styles) with full projection comparison; "
                     "random 4-round executions of the probe on larger graphs and executions of the real Max-Sum and DSA-tuto computations (3 rounds) "
                     "judged by TLC; non-trivial = at least two on_new_cycle calls")
    v.cov["trusted_base"] = ["TLC", "the channel plumbing of vlib/props/C08.py and vlib/simrt.py"]
    return v.finish()


def replay(path):
    d = json.load(open(path))
    meta = d["replay"]["meta"]
    if "graph" not in meta:
        print("real-algorithm execution: re-run the check with the same VERIF_SEED")
        return 1
    w = World(GRAPHS[meta["graph"]])
    for a in meta["path"]:
        w.apply(a)
    h = w.history(0, 9)
    print(json.dumps(h))
    return 1 if h["exc"] else 0
