"""C09 - DBA declares termination only on a satisfying assignment."""
from ..algocheck import run_algo_check, replay  # noqa: F401

# constraint-graph diameter of each shape: the statement quantifies over max_distance at or above the diameter
DIAM = {"pair": 1, "pair3": 1, "parallel": 1, "triangle": 1, "path3": 2, "path3d3": 2, "fork3": 2, "star4": 2, "cycle4": 2, "tritail": 2,
        "path4": 3, "tree5": 3, "path5": 4}
CLAUSES = {"EXC", "C09_finished_on_violated_constraint"}


def run(tier):
    quick = tier == "quick"
    plans = []
    for d in sorted(set(DIAM.values())):
        shapes = [s for s, x in DIAM.items() if x == d]
        for md, inf in ((d, 10000), (d, 1000), (d + 1, 10000)) + (() if quick else ((d + 2, 500), (50, 10000))):
            plans.append(dict(algo="dba", params={"max_distance": md, "infinity": inf}, props=["sat"], infinity=inf,
                              shapes=shapes, alpha=[0, 0, inf], n=3 if quick else 12, modes=["min"],
                              scheds=4 if quick else 8, max_steps=400 if quick else 1500,
                              policies=["random", "lag", "starts_first", "lag", "barrier", "random", "lag", "random"]))
    v = run_algo_check("C09", tier, "model_checking", plans, CLAUSES,
                       nontrivial=lambda vd, m: vd["allfin"],
                       key_extra=lambda vd, m: {"max_distance_minus_diameter": m["params"]["max_distance"] - DIAM[m["inst"]["shape"]],
                                                "infinity": m["params"]["infinity"]},
                       rule="CSP instances: binary Gen_Dcop shapes (paths, star, triangle, cycle, tree, parallel constraints; domains 2-3) whose "
                            "tables are drawn from {0, 0, infinity}; DBA's infinity parameter 10000 and 1000; max_distance = diameter and "
                            "diameter + 1 (thorough: + 2 and 50); real DBA computations under seeded FIFO schedules (random, laggard computation, "
                            "all starts first, barrier), up to 400/1500 steps; at every step where a computation reports finished, AlgoMon "
                            "evaluates every constraint on the values held by all computations; non-trivial = executions in which DBA "
                            "terminated (all computations finished). "
                            "MODEL: Dba.tla (DbaComputation: wait-ok / wait-improve modes, constraint weights, quasi-local-minimum breakout, "
                            "termination counter, end flood, postponed lists flushed as the code does) checked by TLC over every start order, "
                            "FIFO delivery order and random draw up to MaxCyc rounds: invariants FinishedOnlyOnSolution (C09), ValueInDomain, "
                            "CounterBounded, WeightsPositive, AtMostOnePostponed, NeighbourSkew; every explored transition replayed on the real "
                            "computations with the whole local state (weights, violated constraints, counters, flags, postponed lists) and every "
                            "message compared")
    from ..dbamodel import model_part
    model_part(v, tier, CLAUSES, ["sat"], seed_off=3)
    return v.finish()
