"""C09 - DBA declares termination only on a satisfying assignment."""
from ..algocheck import run_algo_check, replay  # noqa: F401

SHAPES = ["pair", "pair3", "parallel", "path3", "path3d3", "fork3", "triangle", "path4", "star4", "cycle4", "tritail"]
LARGE = ["path5", "tree5"]
CLAUSES = {"EXC", "C09_finished_on_violated_constraint"}


def run(tier):
    quick = tier == "quick"
    plans = []
    for md in (3, 50):
        plans.append(dict(algo="dba", params={"max_distance": md, "infinity": 10000}, props=["sat"], infinity=10000,
                          shapes=SHAPES if quick else SHAPES + LARGE, alpha=[0, 0, 10000], n=4 if quick else 12, modes=["min"],
                          scheds=3 if quick else 6, max_steps=500 if quick else 1500, policies=["random", "lag", "barrier"]))
    v = run_algo_check("C09", tier, "model_checking", plans, CLAUSES,
                       nontrivial=lambda vd, m: vd["allfin"],
                       rule="CSP instances: binary Gen_Dcop shapes whose tables are drawn from {0, 0, 10000} (10000 = DBA's infinity), "
                            "max_distance 3 (>= diameter of every quick shape) and 50; real DBA computations under seeded FIFO schedules, up "
                            "to 500/1500 steps; at every step where a computation reports finished, AlgoMon evaluates every constraint on the "
                            "values held by all computations; non-trivial = executions in which DBA terminated (all computations finished)")
    return v.finish()
