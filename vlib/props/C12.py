"""C12 - matrix updates, join and projection follow their algebraic definition.
TLC enumerates the calls and computes the results from Relations.tla; the real functions are run
on each case and compared entry by entry."""
from ..common import Verdict, seed
from .. import tlc
from ..cases import Space, cost_py, num_eq
from pydcop.dcop import relations as R

CFG = "INIT Init\nNEXT Next\nINVARIANT Emit\nCONSTANT NTabs = %d\n"


def names(rel):
    return [v.name for v in rel.dimensions]


def same_table(sp, rel, exp):
    """rel (real) agrees with exp (abstract) on scope (as a set) and on every assignment"""
    if sorted(names(rel)) != sorted(exp["scope"]) or len(names(rel)) != len(exp["scope"]):
        return "scope %s, expected the set %s" % (names(rel), exp["scope"])
    got = sp.table_of(rel, exp["scope"])
    want = [cost_py(c) for c in exp["tab"]]
    for a, g, w in zip(sp.all_asg(exp["scope"]), got, want):
        if not num_eq(g, w):
            return "value %r at %s, expected %r" % (g, a, w)
    return None


_SP = {}
_REL = {}


def shared_rel(sp, R_, name):
    """The same abstract relation is the same Python object in every case that uses it: the operations must not
    depend on, or leave, hidden state in their operands (history of calls on one object)."""
    import json
    k = json.dumps([R_["scope"], R_["tab"]])
    if k not in _REL:
        _REL[k] = sp.matrix_rel(R_, name)
    return _REL[k]


def execute(case):
    sp = _SP.setdefault("sp", Space(case["exp"]["ds"]))
    op = case["op"]
    if op == "set":
        r = shared_rel(sp, case["r"], "r")
        before = sp.table_of(r, case["r"]["scope"])
        a = sp.asg(case["asg"]) if case["asg"] else {}
        arg = a if case["form"] == "dict" else [a[v] for v in case["r"]["scope"]]
        new = r.set_value_for_assignment(arg, cost_py(case["val"]))
        after = sp.table_of(r, case["r"]["scope"])
        if not all(num_eq(x, y) for x, y in zip(before, after)):
            return "set_value_for_assignment modified the original relation"
        if new is r:
            return "set_value_for_assignment returned the original object"
        msg = same_table(sp, new, case["exp"])
        if msg:
            return msg
        # the same call on tables of other numpy types holding the same numbers, and with the value as a numpy scalar: the
        # result is the same table (a value that does not fit the table's type must not be truncated, wrapped or refused)
        import numpy as np
        from pydcop.dcop.relations import NAryMatrixRelation
        scope = [sp.vars[v] for v in case["r"]["scope"]]
        shape = [sp.ds[v] for v in case["r"]["scope"]]
        tab = [cost_py(c) for c in case["r"]["tab"]]
        val = cost_py(case["val"])
        if any(isinstance(x, float) and (x != x or x in (float("inf"), float("-inf"))) for x in tab + [val]):
            return None
        # (the table types numpy gives to Python numbers and booleans; narrower types - int8, float32 - only exist if the caller asks for
        # them, and putting a value they cannot hold into them is outside the statement)
        for dtype in (np.bool_, np.int64, np.float64):
            try:
                arr = np.array(tab).reshape(shape).astype(dtype)
            except (OverflowError, ValueError):
                continue
            if not all(num_eq(float(x), float(y)) for x, y in zip(arr.reshape(-1).tolist(), tab)):
                continue            # this type cannot hold the table itself
            for wrap in (lambda x: x, np.float32, np.float64, np.int64):
                try:
                    wv = wrap(val)
                except (OverflowError, ValueError):
                    continue
                if not num_eq(float(wv), float(val)) or (wrap is np.int64 and float(val) != int(val)):
                    continue        # the value itself is not representable in that scalar type
                r2 = NAryMatrixRelation(scope, arr.copy(), name="r2")
                try:
                    new2 = r2.set_value_for_assignment(arg if case["form"] != "dict" else dict(arg), wv)
                except Exception as e:
                    return "set_value_for_assignment(%s %s) on a %s table raised %s: %s" % (type(wv).__name__, wv, np.dtype(dtype).name, type(e).__name__, str(e)[:60])
                m2 = same_table(sp, new2, case["exp"])
                if m2:
                    return "on a %s table with the value as %s: %s" % (np.dtype(dtype).name, type(wv).__name__, m2)
        return None
    if op == "join":
        res = R.join(shared_rel(sp, case["r1"], "r1"), shared_rel(sp, case["r2"], "r2"))
        return same_table(sp, res, case["exp"])
    if op == "proj":
        res = R.projection(shared_rel(sp, case["r"], "r"), sp.vars[case["x"]], case["mode"])
        return same_table(sp, res, case["exp"])
    raise ValueError(op)


def key_of(case, msg):
    k = {"op": case["op"]}
    if case["op"] == "set":
        k["form"] = case["form"]
        k["value_kind"] = kind(case["val"])
        k["table_kinds"] = sorted({kind(c) for c in case["r"]["tab"]})
    elif case["op"] == "proj":
        k["mode"] = case["mode"]
        k["table_kinds"] = sorted({kind(c) for c in case["r"]["tab"]})
    return k


def kind(c):
    if c[0]:
        return "inf"
    if c[1]:
        return "big"
    return "half" if c[2] % 2 else "int"


def run(tier):
    v = Verdict("C12", tier, "model_checking")
    ntabs = 2 if tier == "quick" else 6
    res = tlc.run("Gen_C12", CFG % ntabs, workers=4 if tier == "quick" else 16)
    v.add_tlc(res, "exhaustive case generation with expected results (Gen_C12, NTabs=%d)" % ntabs)
    cases = [c[0] for c in res.tagged("CASE")]
    if len(cases) != res.distinct or not cases:
        raise tlc.MachineryError("parsed %d cases, TLC reports %d" % (len(cases), res.distinct))
    ops = {}
    for case in cases:
        try:
            msg = execute(case)
        except Exception as e:  # a crash of the real function is a failure of the call
            msg = "raised %s: %s" % (type(e).__name__, str(e)[:100])
        v.cov["evaluations"] += 1
        ops[case["op"]] = ops.get(case["op"], 0) + 1
        nontrivial = len(case["exp"]["tab"]) > 1
        v.cov["distinct_nontrivial"] += 1 if nontrivial else 0
        if msg:
            v.violation(key_of(case, msg), "%s: %s" % (case["op"], msg), case)
        elif nontrivial:
            v.sample(case, cap=3)
    v.cov["traces_validated_against_impl"] = len(cases)
    v.cov["exhaustive"] = True
    v.cov["per_operation"] = ops
    v.cov["rule"] = ("every scope (ordered, 0-3 of the variables x:2 y:2 z:3 values) x %d table patterns over the "
                     "alphabet {0,-1,2,2.5|3,7,2^40+3} x every assignment/new value/argument form (set), every ordered "
                     "pair of scopes (join), every projected variable and mode (projection); a case is non-trivial "
                     "when the expected table has more than one entry; cases are distinct states of Gen_C12" % ntabs)
    v.cov["trusted_base"] = ["TLC evaluation of Relations.tla", "vlib/cases.py mapping of indices to domain values"]
    v.assumptions = ["costs are integers, halves or 2^40-scale integers: Python float arithmetic on them is exact"]
    return v.finish()
