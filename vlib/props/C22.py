"""C22 - orchestrated solve terminates and reports a true optimal result.
Instances come from TLC (Gen_Dcop, with Dcop!Opt); each is solved with DPOP through the REAL Orchestrator and
OrchestratedAgents under several distributions, (i) in the deterministic orchestrated runtime (no thread; seeded random
interleaving of agent loop iterations) and (ii) with real threads (run_local_thread_dcop + deploy + run, as the solve
command does, with a perturbed switch interval); TLC (Judge_C22) judges status, completeness, optimality and the reported
cost against Dcop.tla."""
import json, random, sys, importlib
from ..common import Verdict, seed, MachineryError
from .. import algotrace as AT
from ..judge import judge
from ..simrt import build_dcop
from ..orchrt import OrchWorld
from ..orchproto import ProtocolRecorder
from pydcop.dcop.objects import AgentDef
from pydcop.algorithms import AlgorithmDef, load_algorithm_module
from pydcop.distribution.objects import Distribution
from pydcop.computations_graph import pseudotree

INFV = 50
SHAPES = ["single", "unary1", "pair", "pair3", "parallel", "unarypair", "isolated", "path3", "fork3", "triangle", "tern", "ternpair",
          "twocomp", "star4", "cycle4", "tritail", "kite"]


def make(inst, nagents, spare=0):
    """`spare` more agents are declared after the ones the distribution may use (agents that host nothing are legitimate)"""
    dcop, doms = build_dcop(inst)
    for i in range(nagents + spare):
        dcop.add_agents([AgentDef("a%d" % i, capacity=1000)]) if False else dcop._agents_def.__setitem__("a%d" % i, AgentDef("a%d" % i, capacity=1000))
    return dcop, doms


def distribution_for(kind, dcop, cg, r):
    comps = [n.name for n in cg.nodes]
    agents = sorted(dcop.agents)
    algo_module = load_algorithm_module("dpop")
    if kind in ("oneagent", "adhoc", "gh_cgdp"):
        mod = importlib.import_module("pydcop.distribution." + kind)
        # DPOP declares no footprint / load model (its functions raise NotImplementedError): unit footprints are given, the
        # property quantifies over valid distributions, whatever produced them
        return mod.distribute(cg, dcop.agents.values(), hints=None, computation_memory=lambda *a, **k: 1,
                              communication_load=lambda *a, **k: 1)
    # any valid mapping: every computation on exactly one agent (spare agents, declared last, host nothing)
    used = agents[:max(1, len(agents) - getattr(dcop, "_verif_spare", 0))]
    mapping = {a: [] for a in used}          # the spare agents are not part of the distribution at all
    for c in comps:
        mapping[r.choice(used)].append(c)
    return Distribution(mapping)


def outcome(hid, inst, doms, dcop, orch, stuck, infinity):
    m = orch.end_metrics()
    asg = {}
    for v in inst["vars"]:
        val = m["assignment"].get(v)
        asg[v] = doms[v].index(val) + 1 if val in doms[v] else 0
    finished = sum(1 for s in orch.mgt._computation_status.values() if s == "finished")
    rep = [m["violation"], m["cost"]]
    if rep[0] is None or rep[1] is None or int(rep[1]) != rep[1]:
        rep = [-1, -1]
    return {"id": hid, "inst": {k: inst[k] for k in ("vars", "dsize", "cons", "varcost", "mode")}, "status": orch.status, "stuck": stuck or "",
            "asg": asg, "reported": [int(rep[0]), int(rep[1])], "finished": finished, "ncomp": len(orch.mgt._computation_status), "infinity": infinity}


def simulated(hid, inst, kind, nagents, r):
    spare = r.choice([0, 0, 1, 2]) if kind == "random" else 0
    dcop, doms = make(inst, nagents, spare)
    dcop._verif_spare = spare
    cg = pseudotree.build_computation_graph(dcop)
    algo = AlgorithmDef.build_with_default_param("dpop", {}, mode=dcop.objective)
    dist = distribution_for(kind, dcop, cg, r)
    rec = ProtocolRecorder([n.name for n in cg.nodes]).install()
    try:
        collect = r.choice(["value_change", "value_change", "cycle_change"])     # the metrics collection mode of the run
        w = OrchWorld(dcop, algo, cg, dist, infinity=INFV, seed=r.randrange(10 ** 6), metrics_on=collect)
        # an agent that hosts nothing may come up late: after the orchestrator has handled the run request
        late = [a for a in sorted(dcop.agents)[-spare:] if a not in dist.agents or not dist.computations_hosted(a)][:1] if spare and r.random() < 0.35 else []
        # (otherwise the agents start in a random order, lazily half of the time: an idle agent may well register before a hosting one)
        # ... and one of the hosting agents may be the last of all to come up
        hosting = sorted({dist.agent_for(n.name) for n in cg.nodes})
        last = [r.choice(hosting)] if len(dcop.agents) > 1 and r.random() < 0.4 else []
        w.boot_all(order=r, lazy=r.random() < (0.8 if spare else 0.5), hold=list(late) + last)
        stuck = w.solve(late=late, last=last)
    finally:
        rec.uninstall()
    if w.exc:
        stuck = (stuck or "") + " exception in %s handling %s: %s" % (w.exc[0][0], w.exc[0][3], w.exc[0][4])
    return outcome(hid, inst, doms, dcop, w.orch, stuck, INFV), {"mode": "simulated", "dist": kind, "agents": nagents, "steps": dict(w.phase_steps), "collect": collect,
                                                                   "proto": rec.record(hid, dist, over=not stuck, agents=list(dcop.agents))}


def threaded(hid, inst, kind, nagents, r):
    from pydcop.infrastructure.run import run_local_thread_dcop
    spare = r.choice([0, 1]) if kind == "random" else 0
    dcop, doms = make(inst, nagents, spare)
    dcop._verif_spare = spare
    cg = pseudotree.build_computation_graph(dcop)
    algo = AlgorithmDef.build_with_default_param("dpop", {}, mode=dcop.objective)
    dist = distribution_for(kind, dcop, cg, r)
    old = sys.getswitchinterval()
    sys.setswitchinterval(r.choice([1e-6, 1e-5, 1e-4, 5e-3]))
    rec = ProtocolRecorder([n.name for n in cg.nodes]).install()
    from pydcop.infrastructure.agents import Agent as _Agent
    _orig_start = _Agent.start

    def _start(agent, *a, **k):
        agent.t.daemon = True        # a run that does not end must not keep the checking process alive
        return _orig_start(agent, *a, **k)
    _Agent.start = _start
    try:
        collect = r.choice(["value_change", "cycle_change", "period"])
        orch = run_local_thread_dcop(algo, cg, dist, dcop, INFV, collect_moment=collect, period=0.05 if collect == "period" else None)
        stuck = ""
        import threading
        box = {}

        def drive():
            try:
                orch.deploy_computations()
                orch.run(timeout=20)
            except Exception as e:          # noqa
                box["exc"] = type(e).__name__
        th = threading.Thread(target=drive, daemon=True)
        th.start()
        th.join(90)             # deploy_computations() and run() wait on events without a timeout of their own
        if th.is_alive():
            stuck = "deploy_computations() / run() did not return within 90 s"
        elif "exc" in box:
            stuck = "orchestrator raised %s" % box["exc"]
        if stuck:
            try:
                orch._own_agt.stop()
                for a in getattr(orch, "_local_agents", []) or []:
                    a.stop()
            except Exception:
                pass
    finally:
        sys.setswitchinterval(old)
        rec.uninstall()
        _Agent.start = _orig_start
    if orch.status == "TIMEOUT":
        rec.ev.insert(0, {"e": "timeout"})      # (the timer belongs to the harness's call of run(): it may fire at any moment)
    return outcome(hid, inst, doms, dcop, orch, stuck, INFV), {"mode": "threads", "dist": kind, "agents": nagents, "collect": collect,
                                                                 "proto": rec.record(hid, dist, over=not stuck, agents=list(dcop.agents))}


def run(tier):
    quick = tier == "quick"
    v = Verdict("C22", tier, "model_checking")
    r = random.Random(seed() + 22)
    insts, gres = AT.gen_instances(SHAPES, [0, 1, 3, -2, INFV], vcalpha=[0, 2], n=2 if quick else 8, seed=seed() + 22, with_init=True)
    for i, inst in enumerate(insts):
        if i % 2:
            inst["init"] = {}          # half of the instances without initial values
        elif i % 4 == 0:
            pass                        # a quarter with TLC-drawn initial values, a quarter (below) with an OPTIMAL assignment as initial values
    v.add_tlc(gres, "instance generation (Gen_Dcop) with the optimum")
    recs, meta = [], {}
    for inst in insts:
        nvars = len(inst["vars"])
        for kind in ("oneagent", "adhoc", "gh_cgdp", "random", "random"):
            nag = nvars if kind == "oneagent" else r.choice([1, 2, 3])
            if kind == "oneagent":
                nag = nvars
            for rep in range(1 if quick else 3):
                try:
                    rec, m = simulated(len(recs), inst, kind, nag, r)
                except Exception as e:
                    if kind in ("adhoc", "gh_cgdp") and "Impossible" in type(e).__name__:
                        continue
                    raise
                m["inst"] = inst
                meta[rec["id"]] = m
                recs.append(rec)
    nthread = 8 if quick else 60
    for inst in r.sample(insts, min(nthread, len(insts))):
        kind = r.choice(["oneagent", "adhoc", "random"])
        nag = len(inst["vars"]) if kind == "oneagent" else r.choice([2, 3])
        rec, m = threaded(len(recs), inst, kind, nag, r)
        m["inst"] = inst
        meta[rec["id"]] = m
        recs.append(rec)
    verdicts, jres = judge("Judge_C22", recs)
    v.add_tlc(jres, "outcomes of %d orchestrated solves judged against Dcop.tla (Judge_C22)" % len(recs))
    # the orchestration protocol itself: Orchestration.tla model-checked for small configurations, and every run's event trace
    # validated against it (Judge_Orch.tla: the run must be a behaviour of the specification)
    from .. import tlc as T
    for cfgname, consts in (("2 agents, 3 computations", dict(Agents={"a1", "a2"}, Comps={"x", "y", "z"}, HostOf='@[c \\in {"x", "y", "z"} |-> IF c = "x" THEN "a1" ELSE "a2"]', WithTimeout=True)),
                            ("3 agents (one hosting nothing), 3 computations", dict(Agents={"a1", "a2", "a3"}, Comps={"x", "y", "z"}, HostOf='@[c \\in {"x", "y", "z"} |-> IF c = "z" THEN "a2" ELSE "a1"]', WithTimeout=False))):
        ores = T.run("Orchestration", "SPECIFICATION Spec\nINVARIANT NothingRunsBeforeAllDeployed\nINVARIANT NothingDeployedBeforeAllRegistered\n"
                                      "INVARIANT EndMeansDone\nINVARIANT StopOnlyAtTheEnd\n", consts=consts, workers=4, deadlock=True)
        if ores.violated or ores.errors:
            raise MachineryError("Orchestration.tla does not satisfy its own invariants: %s %s" % (ores.violated, ores.errors[:2]))
        v.add_tlc(ores, "Orchestration.tla, all interleavings of the protocol events (%s)" % cfgname)
    protos = [dict(meta[rec["id"]]["proto"], id=rec["id"]) for rec in recs]
    pverd, pres = judge("Judge_Orch", protos)
    v.add_tlc(pres, "event traces of %d orchestrated solves validated against Orchestration.tla (Judge_Orch)" % len(protos))
    for rec in recs:
        for clause in pverd[rec["id"]]:
            verdicts[rec["id"]] = list(verdicts[rec["id"]]) + ["protocol_" + clause]
    v.cov["protocol_events_validated"] = sum(len(p["ev"]) for p in protos)
    modes = {}
    for rec in recs:
        m = meta[rec["id"]]
        v.cov["evaluations"] += 1
        v.cov["traces_validated_against_impl"] += 1
        modes[m["mode"] + "/" + m["dist"]] = modes.get(m["mode"] + "/" + m["dist"], 0) + 1
        if len(rec["inst"]["cons"]) > 0:
            v.cov["distinct_nontrivial"] += 1
        for clause in verdicts[rec["id"]]:
            v.violation({"clause": clause, "mode": m["mode"], "dist": m["dist"]},
                        "%s (%s, %s distribution on %d agents, shape %s): status %s, assignment %s, reported %s, stuck %r" % (
                            clause, m["mode"], m["dist"], m["agents"], m["inst"]["shape"], rec["status"], rec["asg"], rec["reported"], rec["stuck"]),
                        {"inst": m["inst"], "meta": {k: x for k, x in m.items() if k not in ("inst", "proto")}, "outcome": rec, "protocol": m["proto"]})
        if not verdicts[rec["id"]] and len(rec["inst"]["vars"]) >= 4:
            v.sample({"shape": m["inst"]["shape"], "mode": m["mode"], "dist": m["dist"], "agents": m["agents"], "outcome": {k: rec[k] for k in ("status", "asg", "reported", "finished")}}, cap=3)
    v.cov["runs_by_mode_and_distribution"] = modes
    v.cov["exhaustive"] = False
    v.cov["rule"] = ("TLC-drawn DCOPs over 17 shapes (unary, n-ary, parallel constraints, isolated variables, several components, cycles; own-value costs; "
                     "costs equal to the infinity value; min and max) x distributions oneagent / adhoc / gh_cgdp / random valid mappings on 1-3 agents, "
                     "solved with DPOP through the real orchestrator: simulated agent-step interleavings (seeded) and %d real-thread runs with perturbed "
                     "switch interval; the protocol events of every run (registration, deploy, deployed, run, start, finish, stop, stopped, end) validated "
                     "against Orchestration.tla; non-trivial = at least one constraint" % nthread)
    v.cov["trusted_base"] = ["TLC (Dcop.tla)", "vlib/orchrt.py + vlib/agentrt.py for the simulated runs (the thread runs use pyDCOP's own threads)"]
    v.assumptions = ["the result is read as commands/solve.py reads it: status and end_metrics() right after run() returns"]
    return v.finish()


def replay(path):
    d = json.load(open(path))
    r = random.Random(1)
    m = d["replay"]["meta"]
    f = simulated if m["mode"] == "simulated" else threaded
    rec, _ = f(0, d["replay"]["inst"], m["dist"], m["agents"], r)
    print(json.dumps(rec))
    return 1 if rec["status"] != "OK" or rec["stuck"] else 0
