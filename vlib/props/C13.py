"""C13 - solution cost accounting matches the DCOP definition.
TLC (Gen_C13 over Gen_Dcop/Dcop.tla) enumerates DCOPs with hard (infinity-valued) and soft terms, own-value
costs, an optional external variable, complete and incomplete assignments, and computes the expected
(hard, soft) pair / ValueError / assignment cost; each case is executed on the real functions."""
from ..common import Verdict, seed
from .. import callcheck as CC
from ..simrt import build_dcop
from ..cases import num_eq
from pydcop.dcop.relations import assignment_cost

CFG = "INIT Init13\nNEXT Next13\nINVARIANT Emit13\n"
INFV = 50


_DCOPS = {}


def dcop_for(inst, ext):
    """One DCOP object per (instance, set of external variables): the cases that differ only by the external values or the
    assignment are successive calls on the SAME object, the external variables being set in between (a history of calls)."""
    import json
    k = json.dumps([inst, sorted(ext or {})], sort_keys=True)
    if k not in _DCOPS:
        if len(_DCOPS) > 50:
            _DCOPS.clear()
        _DCOPS[k] = build_dcop(inst, ext=ext or None)
    dcop, doms = _DCOPS[k]
    for v, i in (ext or {}).items():
        dcop.external_variables[v].value = doms[v][i - 1]
    return dcop, doms


def falsy_doms(inst):
    """concrete domain values that include falsy ones (0, the empty string) - never at the position they would index"""
    return {v: ([5, 0, 9, 2] if i % 2 == 0 else ["R", "", "B", "A"])[:inst["dsize"][v]] for i, v in enumerate(inst["vars"])}


def execute(case):
    inst = dict(case["inst"])
    inst["doms"] = falsy_doms(inst)
    if case["op"] == "sol":
        dcop, doms = dcop_for(inst, case["ext"] or None)
        asg = {v: doms[v][i - 1] for v, i in (case["asg"] or {}).items()}
        try:
            got = dcop.solution_cost(asg, case["infinity"])
        except ValueError:
            got = "ValueError"
        if case["exp"]["kind"] == "ValueError":
            return None if got == "ValueError" else "incomplete assignment %s accepted: returned %r" % (asg, got)
        if got == "ValueError":
            return "complete assignment %s rejected with ValueError" % asg
        hard, soft = got
        if not (num_eq(hard, case["exp"]["v"][0]) and num_eq(soft, case["exp"]["v"][1])):
            return "solution_cost(%s) = %r, expected %r" % (asg, (hard, soft), tuple(case["exp"]["v"]))
        return None
    dcop, doms = build_dcop(inst)
    cons = [dcop.constraints[inst["cons"][i - 1]["name"]] for i in case["cs"]]
    asg = {v: doms[v][i - 1] for v, i in (case["asg"] or {}).items()}
    # as built, and as a deployed computation holds them: every constraint decoded from the wire format on its own, i.e. over
    # equal but DISTINCT variable objects
    import json as _json
    from pydcop.utils.simple_repr import simple_repr, from_repr
    # the parameter is declared Iterable[Constraint]: a list, but also a one-shot iterator, a tuple, a dict view
    for how, cs in (("", cons), (" (constraints decoded from their wire representation)",
                                 [from_repr(_json.loads(_json.dumps(simple_repr(c)))) for c in cons]),
                    (" (constraints given as a generator)", (c for c in cons)),
                    (" (constraints given as a filter object)", filter(None, cons)),
                    (" (constraints given as a tuple)", tuple(cons)),
                    (" (constraints given as the values of a dict)", {c.name: c for c in cons}.values())):
        got = assignment_cost(asg, cs, consider_variable_cost=case["withvars"])
        if not num_eq(got, case["exp"]["v"][1]):
            return "assignment_cost(%s, %s, variable costs %s)%s = %r, expected %r" % (
                asg, [c.name for c in cons], case["withvars"], how, got, case["exp"]["v"][1])
    return None


def key_of(case, msg):
    k = {"op": case["op"], "shape": case["inst"]["shape"]}
    if case["op"] == "sol":
        k["expected"] = case["exp"]["kind"]
        k["external"] = bool(case["ext"])
        k["varcosts"] = any(any(x) for x in case["inst"]["varcost"].values())
    else:
        k["withvars"] = case["withvars"]
    return k


def nontrivial(case):
    if case["op"] == "sol":
        return case["exp"]["kind"] == "ValueError" or case["exp"]["v"][0] > 0 or bool(case["ext"])
    return len(case["cs"]) > 0


def run(tier):
    v = Verdict("C13", tier, "model_checking")
    quick = tier == "quick"
    plans = [
        # (shapes, exhaustive, per shape, assignments per (ext, dom))
        (["single", "unary1", "pair"], True, 0, 0),
        (["pair3", "parallel", "unarypair", "isolated", "isounary", "path3", "tern", "ternpair"], False, 3 if quick else 12, 2 if quick else 4),
        (["twocomp", "star4", "tritail", "tern5"], False, 1 if quick else 6, 1 if quick else 3),
    ]
    for i, (shapes, exh, n, nasg) in enumerate(plans):
        alpha = [0, 2, INFV] if exh else [0, -1, 2, 60, INFV, INFV]
        cases, res = CC.generate("Gen_C13", cfg=CFG, workers=4 if quick else 16, seed=seed() + i,
                                 consts=dict(ShapeNames=set(shapes), Alpha=alpha, VCAlpha=[0, 3, INFV] if exh else [0, 3, INFV, 60], NPerShape=max(n, 1),
                                             Exhaustive=exh, Modes={"min"}, WithInit=False, InfV=INFV, NAsg=max(nasg, 1)))
        v.add_tlc(res, "case generation with expected results (Gen_C13, shapes %s, exhaustive tables=%s)" % (shapes, exh))
        import json as _json
        cases.sort(key=lambda c: _json.dumps([c["inst"], sorted(c.get("ext") or {}), c["op"]], sort_keys=True))
        CC.run_cases(v, cases, execute, key_of, nontrivial)
    v.cov["exhaustive"] = True
    v.cov["rule"] = ("exhaustive part: every cost table over {0,2,INF} of the shapes single/unary1/pair x 2 own-cost draws over {0,3,INF} x "
                     "every choice of at most one external variable and value x every subset of assigned variables x every assignment; "
                     "sampled part: larger shapes (n-ary, parallel, isolated, several components) with TLC-drawn tables over {0,-1,2,60 (> INF),INF}, own costs {0,3,INF,60}; "
                     "non-trivial = the call is rejected, or at least one term is hard, or an external variable takes part (sol); at least "
                     "one constraint (ac)")
    v.cov["trusted_base"] = ["TLC evaluation of Dcop.tla (SolutionCost, AssignmentCost)", "vlib/simrt.build_dcop (case -> DCOP objects)"]
    v.assumptions = ["infinity value 50 stands for any infinity constant; it only occurs as a whole term, never as a sum of smaller terms "
                     "(alphabet chosen so that no finite term equals it)"]
    return v.finish()


def replay(path):
    import json
    d = json.load(open(path))
    msg = execute(d["replay"])
    print(msg or "case agrees with the specification")
    return 1 if msg else 0
