"""C19 - messages held across start or pause keep their original order.
(M) Lifecycle.tla is model-checked exhaustively (all histories of receptions, posts, start, pause, resume and agent loop
    iterations up to MaxRecv / MaxPost messages);
(R) every transition TLC explored is replayed on a REAL MessagePassingComputation hosted on a REAL Agent (Messaging
    priority queue, in-process transport, agent thread not started), the projection of the real objects being compared
    with the model's after every step;
(T) the histories observed on the real objects (replayed paths, and longer seeded random histories) are judged by TLC
    against the order properties of Orders.tla (Judge_C19)."""
import json, random
from ..common import Verdict, seed, scratch, MachineryError
from .. import tlc, replay as RP
from ..agentrt import AgentWorld
from pydcop.infrastructure.computations import MessagePassingComputation, Message

CFG = """INIT Init
NEXT Next
CONSTANTS MaxRecv = %d
 MaxPost = %d
INVARIANT HandledInOrderUnlessOverlap
INVARIANT HandledOnce
INVARIANT SentOnceInPostingOrder
INVARIANT NothingLost
INVARIANT QuiescentComplete
PROPERTY ResumeFlushes
VIEW View
ACTION_CONSTRAINT Edge
"""
CFG_FULL = """INIT Init
NEXT Next
CONSTANTS MaxRecv = 3
 MaxPost = 1
INVARIANT HandledOnceInReceptionOrder
VIEW View
"""
JUDGE_CFG = "INIT Init\nNEXT Next\nINVARIANT Emit\n"


class Rec(MessagePassingComputation):
    """a computation that records what it is handed; on request its handler answers with a post"""

    def __init__(self, name, log):
        super().__init__(name)
        self.log = log
        self.reply_next = False
        self._msg_handlers["m"] = self._on_m

    def _on_m(self, sender, msg, t):
        self.log["handled"].append(self.log["ids"][id(msg)])
        if self.reply_next:
            self.reply_next = False
            self.log["owner"].do_post()


class Driver:
    def __init__(self, real=False):
        """real: a1's own thread (the real Agent._run) will handle its messages; it is not booted here"""
        self.w = AgentWorld()
        self.a1 = self.w.add_agent("a1")
        self.a2 = self.w.add_agent("a2")
        if not real:
            self.w.boot("a1")
        self.w.boot("a2")
        # a1 knows where the destination of c's posts lives (what discovery would have told it)
        self.a1.discovery.register_agent("a2", self.a2.address, publish=False)
        self.a1.discovery.register_computation("sink", "a2", self.a2.address, publish=False)
        # message CONTENTS repeat (every message of one sender is equal to its previous ones, as e.g. repeated value messages
        # are); messages are told apart by object identity (the in-process transport hands over the object itself)
        self.log = {"handled": [], "sent": [], "recvOrder": [], "postOrder": [], "owner": self, "ids": {}, "keep": []}
        self.c = Rec("c", self.log)
        self.a1.add_computation(self.c)
        inner_send = self.c.message_sender
        log = self.log

        def sender(src, dst, msg, prio=None, on_error=None):
            if src == "c" and dst == "sink":
                log["sent"].append(log["ids"][id(msg)])
            return inner_send(src, dst, msg, prio, on_error)
        self.c._msg_sender = sender        # (the property setter refuses a second assignment)
        inner_on = self.c.on_message

        def on_message(s, msg, t):
            if log["ids"][id(msg)] not in log["recvOrder"]:
                log["recvOrder"].append(log["ids"][id(msg)])
            buffered = self.c.is_paused or not self.c.is_running
            if buffered and any(e[0] == 19 for e in self.queue_entries()):
                self.overlap = True
            return inner_on(s, msg, t)
        self.c.on_message = on_message
        self.nmid = self.npid = 0
        self.overlap = False

    def queue_entries(self):
        return sorted((e[0], e[1], self.log["ids"][id(e[3].msg)]) for e in self.a1._messaging._queue.queue if e[3].dest_comp == "c")

    def new_msg(self, ty, ident):
        m = Message(ty, "same content" if ty == "p" else ident % 2)
        self.log["ids"][id(m)] = ident
        self.log["keep"].append(m)
        return m

    def do_post(self):
        self.npid += 1
        self.log["postOrder"].append(self.npid)
        self.c.post_msg("sink", self.new_msg("p", self.npid))

    def apply(self, a):
        n = a["n"]
        if n == "recv":
            self.nmid += 1
            assert self.nmid == a["mid"]
            # the message reaches the agent the way the in-process transport delivers it
            self.a1._messaging.post_msg("s%d" % (self.nmid % 2), "c", self.new_msg("m", self.nmid))
        elif n == "post":
            self.do_post()
        elif n == "next":
            self.c.reply_next = bool(a.get("reply"))
            self.w.step("a1")
            self.c.reply_next = False
        elif n == "start":
            self.a1.run("c")
        elif n == "pause":
            self.a1.pause_computations("c")
        elif n == "resume":
            self.a1.unpause_computations("c")
        else:
            raise MachineryError("unknown action %r" % a)

    def project(self):
        c = self.c
        return {"running": c.is_running, "paused": c.is_paused,
                "bufRecv": [self.log["ids"][id(m)] for _, m, _ in c._paused_messages_recv],
                "bufPost": [self.log["ids"][id(p[1])] for p in c._paused_messages_post],
                "queue": [{"prio": e[0], "mid": e[2]} for e in self.queue_entries()],
                "handled": list(self.log["handled"]), "sent": list(self.log["sent"]), "overlap": self.overlap}

    def history(self, hid, final):
        return {"id": hid, "recvOrder": self.log["recvOrder"], "handled": self.log["handled"], "postOrder": self.log["postOrder"],
                "sent": self.log["sent"], "final": final, "nrecv": self.nmid, "overlap": self.overlap}

    def settle(self):
        """drive to quiescence: start, resume, drain"""
        if not self.c.is_running:
            self.a1.run("c")
        for _ in range(200):
            if self.c.is_paused:
                self.a1.unpause_computations("c")
            if not self.w.pending("a1"):
                break
            self.w.step("a1")


def random_history(r, length):
    d = Driver()
    ops = []
    for _ in range(length):
        en = ["recv", "post", "pause" if not d.c.is_paused else "resume"]
        if not d.c.is_running:
            en.append("start")
        if d.w.pending("a1"):
            en += ["next", "next", "next"]
        op = r.choice(en)
        a = {"n": op}
        if op == "recv":
            a["mid"] = d.nmid + 1
        if op == "next":
            a["reply"] = r.random() < 0.3
        ops.append(a)
        d.apply(a)
    d.settle()
    return d, ops


class Ctl(MessagePassingComputation):
    """orders handled on the agent's own thread: hold (blocks the loop while the harness fills the queue), start / pause / resume
    of the observed computation, sync (tells the harness that everything queued before it has been handled)"""

    def __init__(self, drv):
        import threading
        super().__init__("_ctl")
        self.drv = drv
        self.held, self.release, self.synced = threading.Event(), threading.Event(), threading.Event()
        self._msg_handlers["ctl"] = self._on_ctl

    def _on_ctl(self, sender, msg, t):
        what = msg.content
        if what == "hold":
            self.held.set()
            self.release.wait(20)
        elif what == "sync":
            self.synced.set()
        elif what == "start":
            self.drv.a1.run("c")
        elif what == "pause":
            self.drv.a1.pause_computations("c")
        elif what == "resume":
            self.drv.a1.unpause_computations("c")


def real_loop_history(phases):
    """the same operations with the agent's REAL loop (Agent._run on the agent's own thread).  Each phase is a list of operations
    (recv / start / pause / resume) that are all in the agent's queue when its loop next looks at it: the loop is held inside a
    handler while they are posted.  The orders to start / pause / resume the computation are management messages (priority 10),
    handled on the agent's thread, as the orchestrator's run / pause / resume requests are."""
    import time as _time
    d = Driver(real=True)
    ctl = Ctl(d)
    ctl._running = True
    d.a1.add_computation(ctl)
    d.a1.t.daemon = True
    d.a1.start()
    post = d.a1._messaging.post_msg

    def order(what, prio=10):
        post("_harness", "_ctl", Message("ctl", what), prio)

    def sync():
        for _ in range(2):          # (twice: what the first batch re-injected is handled before the second one)
            ctl.synced.clear()
            order("sync", 40)
            if not ctl.synced.wait(20):
                raise MachineryError("the agent's loop does not handle its queue")
    ops = []
    try:
        for phase in phases:
            ctl.held.clear()
            ctl.release.clear()
            order("hold", 5)
            if not ctl.held.wait(20):
                raise MachineryError("the agent's loop does not handle its queue")
            for op in phase:
                ops.append({"n": op})
                if op == "recv":
                    d.nmid += 1
                    post("s%d" % (d.nmid % 2), "c", d.new_msg("m", d.nmid))
                else:
                    order(op)
            ctl.release.set()
            sync()
        # quiescence: started, resumed, drained
        if not d.c.is_running:
            order("start")
            sync()
        if d.c.is_paused:
            order("resume")
            sync()
        return d, ops
    finally:
        ctl.release.set()
        d.a1.stop()
        d.a1.t.join(10)


def real_phases(r):
    """seeded scripts around the two situations of the statement: messages held before the start / during a pause, then the order
    that ends the hold queued together with newer messages"""
    out = []
    for _ in range(r.randrange(1, 4)):
        held = ["recv"] * r.randrange(1, 4)
        newer = ["recv"] * r.randrange(0, 4)
        if not out:
            first = r.choice(["start", "pause_first"])
            if first == "start":
                out += [held, ["start"] + newer]
            else:
                out += [["start"], ["pause"], held, ["resume"] + newer]
        else:
            out += [["pause"], held, ["resume"] + newer]
    return out


def run(tier):
    quick = tier == "quick"
    v = Verdict("C19", tier, "model_checking")
    mr, mp = (3, 2) if quick else (4, 2)
    g, res = RP.dump_edges("Lifecycle", CFG % (mr, mp))
    if res.violated:
        # the model itself violates a clause: report the counterexample as a machinery-level divergence to be examined
        raise MachineryError("Lifecycle.tla violates %s in the model" % res.violated)
    v.add_tlc(res, "exhaustive model checking of Lifecycle.tla (MaxRecv=%d, MaxPost=%d) with invariants + labelled edge dump" % (mr, mp))
    init = {"running": False, "paused": False, "bufRecv": [], "bufPost": [], "queue": [], "handled": [], "sent": [], "overlap": False}
    paths = g.cover(init)
    hist = []
    steps = 0
    ndiv = 0
    for pi, path in enumerate(paths):
        d = Driver()
        for k, (a, exp) in enumerate(path):
            d.apply(a)
            steps += 1
            got = d.project()
            diff = RP.first_diff(got, exp)
            if diff:   # conformance level only (DESIGN 2.3): reported, the verdict rests on the judged histories
                ndiv += 1
                v.divergence("path %d step %d (%s): real objects differ from Lifecycle.tla at %s" % (pi, k, a["n"], diff))
                break
        final = False
        if pi % 3 == 0:
            d.settle()
            final = True
        hist.append((d.history(len(hist), final), [x[0] for x in path]))
    v.cov["replayed_paths"] = len(paths)
    v.cov["replayed_steps"] = steps
    v.cov["model_edges"] = g.nedges
    r = random.Random(seed() + 19)
    for _ in range(300 if quick else 3000):
        d, ops = random_history(r, r.randrange(10, 45))
        hist.append((d.history(len(hist), True), ops))
    nreal = 0
    for _ in range(40 if quick else 400):
        phases = real_phases(r)
        d, ops = real_loop_history(phases)
        hist.append((d.history(len(hist), True), {"real_loop_phases": phases}))
        nreal += 1
    v.cov["real_agent_loop_histories"] = nreal
    f = scratch() / "c19.ndjson"
    with open(f, "w") as fh:
        for h, _ in hist:
            fh.write(json.dumps(h) + "\n")
    jres = tlc.run("Judge_C19", JUDGE_CFG, env={"TRACE_FILE": str(f)}, workers=4)
    v.add_tlc(jres, "order properties judged on %d histories of the real objects (Judge_C19 / Orders.tla)" % len(hist))
    verdicts = {x[0]["id"]: x[0]["bad"] for x in jres.tagged("VERDICT")}
    if len(verdicts) != len(hist):
        raise MachineryError("judge returned %d verdicts for %d histories" % (len(verdicts), len(hist)))
    for h, ops in hist:
        v.cov["evaluations"] += 1
        v.cov["traces_validated_against_impl"] += 1
        if len(h["recvOrder"]) > 1 and (h["overlap"] or len(h["handled"]) > 1):
            v.cov["distinct_nontrivial"] += 1
        for clause in verdicts[h["id"]]:
            key = {"clause": clause, "buffered_while_reinjection_queued": h["overlap"]}
            v.violation(key, "%s: received %s handled %s; posted %s sent %s" % (clause, h["recvOrder"], h["handled"], h["postOrder"], h["sent"]),
                        {"ops": ops, "history": h})
        if not verdicts[h["id"]] and len(h["handled"]) >= 3 and len(h["sent"]) >= 1 and not h["overlap"]:
            v.sample({"ops": [o["n"] for o in ops] if isinstance(ops, list) else ops, "history": h}, cap=2)
    v.cov["exhaustive"] = True
    v.cov["rule"] = ("model: all histories over {recv, post, agent loop iteration (handler replies or not), start, pause, resume} with at most %d "
                     "received and %d posted messages; every transition replayed on the real Agent + MessagePassingComputation with full "
                     "projection comparison (running, paused, both buffers, queue content with priorities, handled, sent); plus %d seeded "
                     "random histories of 10-45 operations driven to quiescence; plus %d seeded histories handled by the REAL agent loop on the agent's "
                     "own thread (messages held before a start / during a pause, then the start / resume order queued together with newer "
                     "messages); all real histories judged by TLC; non-trivial = at least two "
                     "messages received and at least two handled (or an overlap)" % (mr, mp, 300 if quick else 3000, nreal))
    v.cov["trusted_base"] = ["TLC", "vlib/agentrt.py (the three statements of Agent._run's loop body)", "the recording wrappers of vlib/props/C19.py"]
    return v.finish()


def replay(path):
    d0 = json.load(open(path))
    ops = d0["replay"].get("ops") or d0["replay"].get("path")
    if isinstance(ops, dict):
        d, _ = real_loop_history(ops["real_loop_phases"])
    else:
        d = Driver()
        for a in ops:
            d.apply(a)
        d.settle()
    h = d.history(0, True)
    print(json.dumps(h))
    bad = h["handled"] != [m for m in h["recvOrder"] if m in h["handled"]] or sorted(h["handled"]) != sorted(h["recvOrder"]) or \
        h["sent"] != h["postOrder"]
    return 1 if bad else 0
