"""C25 - replica placement terminates and keeps replicas safe.
TLC draws the DCOP (Gen_Dcop) and the deployment (Gen_C25: capacities, symmetric routes, hosting costs, placement, k);
the computations are deployed on REAL ResilientAgents through the real Orchestrator (threads not started, seeded random
interleaving of agent loop iterations - several agents share the process, as in thread mode) and replicated with
dist_ucs_hostingcosts; every acceptance is recorded with what the agent held; TLC (Judge_C25 / Replication.tla) judges
termination, the placement conditions and the capacity rule."""
import json, random, importlib
from ..common import Verdict, seed, MachineryError
from .. import algotrace as AT, callcheck as CC
from ..judge import judge
from ..simrt import build_dcop
from ..orchrt import OrchWorld
from pydcop.dcop.objects import AgentDef
from pydcop.algorithms import AlgorithmDef, load_algorithm_module
from pydcop.distribution.objects import Distribution
from pydcop.computations_graph import constraints_hypergraph

SHAPES = ["path3", "triangle", "fork3", "star4", "cycle4", "tritail", "path4", "kite", "path5"]


def deployment(inst, dep, algo="dsa", style=0):
    """style 1: agent names that sort before '__hosting__' (upper case) and hosting costs drawn from the same values as the
    route costs (1, 2, 5), so that "host here" and "forward to a neighbour" tie in the uniform-cost search"""
    dcop, doms = build_dcop(inst)
    names = [("A%d" if style == 1 else "a%d") % i for i in range(1, dep["nag"] + 1)]
    comps = list(inst["vars"])
    for i, a in enumerate(names):
        routes = {names[j]: dep["route"][i][j] for j in range(len(names)) if j != i}
        hosting = {comps[c]: dep["hosting"][i][c] for c in range(len(comps)) if dep["hosting"][i][c]}
        if style == 1:
            hosting = {comps[c]: {0: 1, 3: 2, 8: 5}[dep["hosting"][i][c]] for c in range(len(comps))}
        if style == 2:
            # decimal costs (0.1, 0.2, 0.5 / 0.3, 0.7): sums of such floats are not exact, the search's budget arithmetic must cope
            routes = {k: x / 10 for k, x in routes.items()}
            hosting = {comps[c]: {0: 0.1, 3: 0.3, 8: 0.7}[dep["hosting"][i][c]] for c in range(len(comps))}
        dcop._agents_def[a] = AgentDef(a, capacity=100 if style else dep["cap"][i],  default_route=1, routes=routes, default_hosting_cost=0, hosting_costs=hosting)
    mapping = {a: [] for a in names}
    place = dep["place"]
    if style and len(comps) >= len(names):
        # every agent hosts a computation: the replication graph (agents hosting neighbour computations) spans all the agents
        place = [(dep["place"][0] + i) % len(names) + 1 for i in range(len(comps))]
    for c, ai in zip(comps, place):
        mapping[names[ai - 1]].append(c)
    cg = constraints_hypergraph.build_computation_graph(dcop)
    algo_def = AlgorithmDef.build_with_default_param(algo, {}, mode=dcop.objective)
    return dcop, cg, algo_def, Distribution(mapping), names, comps


def one_run(hid, inst, dep, sseed, style=0, depart=False):
    """-> list of (record, meta); depart: after the replication an agent that holds replicas leaves (it is stopped, nothing is
    repaired): the owners that lose a replica look for a new host, and those acceptances are judged like the first ones"""
    r = random.Random(sseed)
    dcop, cg, algo_def, dist, names, comps = deployment(inst, dep, style=style)
    w = OrchWorld(dcop, algo_def, cg, dist, infinity=10000, replication="dist_ucs_hostingcosts", seed=sseed)
    w.boot_all(order=r)
    stuck = w.deploy()
    if stuck:
        raise MachineryError("deployment failed: %s %s" % (stuck, w.exc[:1]))
    mod = load_algorithm_module("dsa")
    fp = {c: w.agents[dist.agent_for(c)].computation(c).footprint() for c in comps}
    stuck = w.replicate(dep["k"])
    done = [a for a in names if w.orch.mgt._agts_state.get(a) == "ready"]
    hosts = {c: sorted(w.agents[dist.agent_for(c)].replication_comp._replica_hosts.get(c, ())) for c in comps}
    held = {a: sorted(w.agents[a].replication_comp.hosted_replicas) for a in names}
    dd = w.orch.directory.discovery
    dirreps = {c: sorted(dd._replicas_data[c]) if c in dd._replicas_data else [] for c in comps}
    exc = ["%s: %s" % (e[0], e[4]) for e in w.exc]
    cap = {a: (100 if style else dep["cap"][i]) for i, a in enumerate(names)}
    owner = {c: dist.agent_for(c) for c in comps}
    meta = {"shape": inst["shape"], "dep": dep, "stuck": stuck, "steps": dict(w.phase_steps), "inst": inst, "fp_float": fp, "sched_seed": sseed,
            "style": style, "depart": depart, "phase": 1}
    out = [({"id": hid, "agents": names, "comps": comps, "cap": cap, "owner": owner, "fp": {c: int(fp[c]) for c in comps}, "k": dep["k"],
             "done": done, "hosts": hosts, "held": held, "dirReps": dirreps,
             "accepts": [{"a": x["a"], "c": x["c"], "held": x["held"]} for x in w.accepts], "exc": exc}, meta)]
    holders = [a for a in names if held[a]]
    if depart and not stuck and not exc and holders and len(names) >= 4:
        from pydcop.infrastructure.orchestrator import AgentRemovedMessage
        # the agent that holds replicas of the most owners leaves
        x = max(holders, key=lambda a: (len({owner[c] for c in held[a]}), len(held[a]), r.random()))
        n0, e0 = len(w.accepts), len(w.exc)
        w.orch.mgt._send_mgt_msg(x, AgentRemovedMessage())
        w.phase_steps["departure"] = w.run(max_steps=6000)
        exc2 = ["%s: %s" % (e[0], e[4]) for e in w.exc[e0:]]
        acc2 = [{"a": y["a"], "c": y["c"], "held": y["held"]} for y in w.accepts[n0:]]
        # (only the acceptances are judged: what the placement must look like after a departure is not part of the statement)
        out.append(({"id": hid + 1, "agents": names, "comps": comps, "cap": cap, "owner": owner, "fp": {c: int(fp[c]) for c in comps}, "k": dep["k"],
                     "done": names, "hosts": {c: [] for c in comps}, "held": {a: [] for a in names}, "dirReps": {c: [] for c in comps},
                     "accepts": acc2, "exc": exc2},
                    dict(meta, phase=2, left=x, steps=dict(w.phase_steps))))
    return out


def run(tier):
    quick = tier == "quick"
    v = Verdict("C25", tier, "model_checking")
    r = random.Random(seed() + 25)
    insts, gres = AT.gen_instances(SHAPES, [0, 1, 3], n=1, seed=seed() + 25, modes=("min",))
    v.add_tlc(gres, "DCOP instances (Gen_Dcop)")
    recs, meta = [], {}
    for inst in insts:
        nc = len(inst["vars"])
        for nag in ((3, 4, 5) if quick else (3, 4, 5, 6)):
            # capacities from "too small for any replica" to ample; footprints of DSA computations are around 10-40
            deps, dres = CC.generate("Gen_C25", consts=dict(NAg=nag, NComp=nc, NCases=(2 if nag < 5 else 1) if quick else 5, Caps={3, 4, 6, 9, 100}, Ks={1, 2, 3}),
                                     workers=2, seed=seed() + nag * 100 + nc)
            v.add_tlc(dres, "deployments (Gen_C25, %d agents, %d computations)" % (nag, nc))
            for dep in deps:
                for rep in range(2 if quick else 6):       # several interleavings of the agents' loop iterations
                    style = rep % 2 if len(recs) % 5 else 2
                    # (the tie-heavy style is about the replica count: it needs k >= 2 and more candidates than replicas)
                    d2 = dict(dep, k=min(max(dep["k"], 2), nag - 2)) if style == 1 and nag >= 4 else dep
                    for rec, m in one_run(len(recs), inst, d2, r.randrange(10 ** 6), style=style, depart=(rep == 0 and nag >= 4)):
                        meta[rec["id"]] = m
                        recs.append(rec)
    verdicts, jres = judge("Judge_C25", recs, chunk=400)
    v.add_tlc(jres, "outcome of %d replications judged (Judge_C25 / Replication.tla)" % len(recs))
    for rec in recs:
        m = meta[rec["id"]]
        v.cov["evaluations"] += 1
        v.cov["traces_validated_against_impl"] += 1
        if rec["accepts"]:
            v.cov["distinct_nontrivial"] += 1
        for clause in verdicts[rec["id"]]:
            key = {"clause": clause, "k": rec["k"]}
            if m["phase"] == 2:
                key["after_departure"] = True
            v.violation(key,
                        "%s (shape %s, %d agents, k=%d%s): hosts %s, done %s, %s" % (clause, m["shape"], len(rec["agents"]), rec["k"],
                                                                                   ", after %s left" % m["left"] if m["phase"] == 2 else "",
                                                                                   rec["hosts"], rec["done"], rec["exc"][:1]),
                        {"inst": m["inst"], "dep": m["dep"], "sched_seed": m["sched_seed"], "style": m["style"], "depart": m["depart"],
                         "phase": m["phase"], "outcome": rec})
        if not verdicts[rec["id"]] and len(rec["accepts"]) >= 4:
            v.sample({"shape": m["shape"], "caps": rec["cap"], "k": rec["k"], "footprints": rec["fp"], "hosts": rec["hosts"], "accepts": len(rec["accepts"])}, cap=3)
    v.cov["departure_phases"] = sum(1 for rec in recs if meta[rec["id"]]["phase"] == 2)
    v.cov["acceptances_after_a_departure"] = sum(len(rec["accepts"]) for rec in recs if meta[rec["id"]]["phase"] == 2)
    v.cov["exhaustive"] = False
    v.cov["rule"] = ("DCOPs over 9 shapes (3-5 computations, DSA computations with their real footprints) deployed on 3-4 (quick) / 3-6 agents with TLC-drawn "
                     "capacities {3,4,6,9,100} (DSA footprints are 1-4), symmetric route costs {1,2,5}, hosting costs {0,3,8} with lower-case agent names or - every other run - {1,2,5} (ties with the route costs), ample capacities and upper-case names, or - one run in five - decimal costs (0.1 .. 0.7) (which sort before the search's own '__hosting__' node), placements and k in 1..3; 2 (quick) / 6 seeded interleavings of agent "
                     "loop iterations per deployment; with 4 agents or more, the first run of each deployment goes on with the departure of the agent that "
                     "holds replicas of the most owners (stopped, no repair) and the acceptances of the re-replication are judged by the same rule; "
                     "non-trivial = at least one replica was accepted. MODEL: Ucs.tla, the message-level model of the uniform-cost search (request / answer handlers, sorted path tables "
                     "with Python's ordering of names and of the '__hosting__' pseudo-node, the generator over the live table, budget increase at the owner, the "
                     "agent's own k_target in the capacity test) checked by TLC over every interleaving of replicate() calls and FIFO deliveries on TLC-drawn "
                     "deployments (3 agents quick, 3-4 thorough; tight and ample capacities; names sorting before / after '__hosting__'; hosting costs tying with "
                     "route costs): invariants QuietMeansDone + no deadlock (termination), AcceptRule, ReplicasSafe, HostsAreHolders, ToldEverything, OneToken, "
                     "CountConsistent, TablesSorted, NoHandlerError; every explored transition replayed on real UCSReplication objects (real Discovery and "
                     "AgentDef, stub agent) with the held replicas, pending requests, reported hosts and every message (budget, spent, paths table, visited, "
                     "hosts) compared")
    # ---- the message-level model of the search (Ucs.tla): every interleaving, every transition replayed on real UCSReplication objects
    from .. import ucsmodel as UM
    uinsts = []
    for inst in [i for i in insts if i["shape"] in (("path3", "triangle", "fork3") if quick else ("path3", "triangle", "fork3", "star4", "path4"))]:
        comps = list(inst["vars"])
        cnbr = {c: sorted({x for con in inst["cons"] if c in con["scope"] for x in con["scope"] if x != c}) for c in comps}
        for nag in ((3,) if quick else (3, 4)):
            if not quick and nag == 4 and len(comps) > 3:
                continue
            deps, dres = CC.generate("Gen_C25", consts=dict(NAg=nag, NComp=len(comps), NCases=2 if quick else 4, Caps={3, 4, 6, 9, 100}, Ks={1, 2} if nag == 3 else {1, 2, 3}),
                                     workers=2, seed=seed() + 700 + nag * 10 + len(comps) + len(uinsts))
            v.add_tlc(dres, "deployments for Ucs.tla (Gen_C25, %d agents, %d computations)" % (nag, len(comps)))
            for j, dep in enumerate(deps):
                if quick and j % 3:
                    continue
                # footprints in the model harness are 2-3: capacities {3,4,6,9} are tight against them
                uinsts.append(UM.deployment_of(dep, cnbr, comps, upper=(j % 2 == 1), ties=(j % 4 >= 2)))
    if quick:
        uinsts = uinsts[:16]
    tot = UM.model_part(v, uinsts, tier)
    v.cov["ucs_model"] = tot
    for bad in tot.get("model_invariant_violations", []):
        # an invariant of the model fails: the counterexample is executed on the real objects; only what the REAL objects do is judged
        from ..common import MachineryError as ME
        raise ME("Ucs.tla: %s violated in the model: %s" % (bad["what"], json.dumps(bad["acts"])[:600]))
    v.cov["trusted_base"] = ["TLC (Replication.tla)", "vlib/orchrt.py + vlib/agentrt.py", "the acceptance recorder wrapped around UCSReplication._accept_replica"]
    v.assumptions = ["route tables are symmetric (the YAML format enforces it; the UCS budget arithmetic assumes it)",
                     "footprints are compared as integers (DSA footprints are whole numbers)"]
    return v.finish()


def replay(path):
    d = json.load(open(path))["replay"]
    if "ucs_instance" in d:
        # a message-level run of real UCSReplication objects: the model prefix (if any), then the seeded schedule
        from .. import ucsmodel as UM
        w = UM.UcsWorld(d["ucs_instance"])
        for a in d.get("model_prefix") or []:
            st = ("replicate", a["a"]) if a["n"] == "replicate" else ("deliver", a["src"], a["a"])
            if st in w.enabled():
                w.step(st)
        w.run_random(random.Random(d["then_seed"] if d.get("model_prefix") is None else d["then_seed"]), 4000)
        rec = w.outcome(0)
        print(json.dumps(rec))
        return 1 if rec["exc"] or len(rec["done"]) != len(rec["agents"]) else 0
    out = one_run(0, d["inst"], d["dep"], d["sched_seed"], d.get("style", 0), d.get("depart", False))
    rec = out[min(d.get("phase", 1), len(out)) - 1][0]
    print(json.dumps(rec))
    return 1 if rec["exc"] or len(rec["done"]) != len(rec["agents"]) else 0
