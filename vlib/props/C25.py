"""C25 - replica placement terminates and keeps replicas safe.
TLC draws the DCOP (Gen_Dcop) and the deployment (Gen_C25: capacities, symmetric routes, hosting costs, placement, k);
the computations are deployed on REAL ResilientAgents through the real Orchestrator (threads not started, seeded random
interleaving of agent loop iterations - several agents share the process, as in thread mode) and replicated with
dist_ucs_hostingcosts; every acceptance is recorded with what the agent held; TLC (Judge_C25 / Replication.tla) judges
termination, the placement conditions and the capacity rule."""
import json, random, importlib
from ..common import Verdict, seed, MachineryError
from .. import algotrace as AT, callcheck as CC
from ..judge import judge
from ..simrt import build_dcop
from ..orchrt import OrchWorld
from pydcop.dcop.objects import AgentDef
from pydcop.algorithms import AlgorithmDef, load_algorithm_module
from pydcop.distribution.objects import Distribution
from pydcop.computations_graph import constraints_hypergraph

SHAPES = ["path3", "triangle", "fork3", "star4", "cycle4", "tritail", "path4", "kite", "path5"]


def deployment(inst, dep, algo="dsa", style=0):
    """style 1: agent names that sort before '__hosting__' (upper case) and hosting costs drawn from the same values as the
    route costs (1, 2, 5), so that "host here" and "forward to a neighbour" tie in the uniform-cost search"""
    dcop, doms = build_dcop(inst)
    names = [("A%d" if style == 1 else "a%d") % i for i in range(1, dep["nag"] + 1)]
    comps = list(inst["vars"])
    for i, a in enumerate(names):
        routes = {names[j]: dep["route"][i][j] for j in range(len(names)) if j != i}
        hosting = {comps[c]: dep["hosting"][i][c] for c in range(len(comps)) if dep["hosting"][i][c]}
        if style == 1:
            hosting = {comps[c]: {0: 1, 3: 2, 8: 5}[dep["hosting"][i][c]] for c in range(len(comps))}
        if style == 2:
            # decimal costs (0.1, 0.2, 0.5 / 0.3, 0.7): sums of such floats are not exact, the search's budget arithmetic must cope
            routes = {k: x / 10 for k, x in routes.items()}
            hosting = {comps[c]: {0: 0.1, 3: 0.3, 8: 0.7}[dep["hosting"][i][c]] for c in range(len(comps))}
        dcop._agents_def[a] = AgentDef(a, capacity=100 if style else dep["cap"][i],  default_route=1, routes=routes, default_hosting_cost=0, hosting_costs=hosting)
    mapping = {a: [] for a in names}
    place = dep["place"]
    if style and len(comps) >= len(names):
        # every agent hosts a computation: the replication graph (agents hosting neighbour computations) spans all the agents
        place = [(dep["place"][0] + i) % len(names) + 1 for i in range(len(comps))]
    for c, ai in zip(comps, place):
        mapping[names[ai - 1]].append(c)
    cg = constraints_hypergraph.build_computation_graph(dcop)
    algo_def = AlgorithmDef.build_with_default_param(algo, {}, mode=dcop.objective)
    return dcop, cg, algo_def, Distribution(mapping), names, comps


def one_run(hid, inst, dep, sseed, style=0):
    r = random.Random(sseed)
    dcop, cg, algo_def, dist, names, comps = deployment(inst, dep, style=style)
    w = OrchWorld(dcop, algo_def, cg, dist, infinity=10000, replication="dist_ucs_hostingcosts", seed=sseed)
    w.boot_all(order=r)
    stuck = w.deploy()
    if stuck:
        raise MachineryError("deployment failed: %s %s" % (stuck, w.exc[:1]))
    mod = load_algorithm_module("dsa")
    fp = {c: w.agents[dist.agent_for(c)].computation(c).footprint() for c in comps}
    stuck = w.replicate(dep["k"])
    done = [a for a in names if w.orch.mgt._agts_state.get(a) == "ready"]
    hosts = {c: sorted(w.agents[dist.agent_for(c)].replication_comp._replica_hosts.get(c, ())) for c in comps}
    held = {a: sorted(w.agents[a].replication_comp.hosted_replicas) for a in names}
    dd = w.orch.directory.discovery
    dirreps = {c: sorted(dd._replicas_data[c]) if c in dd._replicas_data else [] for c in comps}
    exc = ["%s: %s" % (e[0], e[4]) for e in w.exc]
    scale = 1
    return {"id": hid, "agents": names, "comps": comps, "cap": {a: (100 if style else dep["cap"][i]) for i, a in enumerate(names)},
            "owner": {c: dist.agent_for(c) for c in comps}, "fp": {c: int(fp[c]) for c in comps}, "k": dep["k"],
            "done": done, "hosts": hosts, "held": held, "dirReps": dirreps,
            "accepts": [{"a": x["a"], "c": x["c"], "held": x["held"]} for x in w.accepts], "exc": exc}, \
        {"shape": inst["shape"], "dep": dep, "stuck": stuck, "steps": dict(w.phase_steps), "inst": inst, "fp_float": fp, "sched_seed": sseed, "style": style}


def run(tier):
    quick = tier == "quick"
    v = Verdict("C25", tier, "model_checking")
    r = random.Random(seed() + 25)
    insts, gres = AT.gen_instances(SHAPES, [0, 1, 3], n=1, seed=seed() + 25, modes=("min",))
    v.add_tlc(gres, "DCOP instances (Gen_Dcop)")
    recs, meta = [], {}
    for inst in insts:
        nc = len(inst["vars"])
        for nag in ((3, 4, 5) if quick else (3, 4, 5, 6)):
            # capacities from "too small for any replica" to ample; footprints of DSA computations are around 10-40
            deps, dres = CC.generate("Gen_C25", consts=dict(NAg=nag, NComp=nc, NCases=(2 if nag < 5 else 1) if quick else 5, Caps={3, 4, 6, 9, 100}, Ks={1, 2, 3}),
                                     workers=2, seed=seed() + nag * 100 + nc)
            v.add_tlc(dres, "deployments (Gen_C25, %d agents, %d computations)" % (nag, nc))
            for dep in deps:
                for rep in range(2 if quick else 6):       # several interleavings of the agents' loop iterations
                    style = rep % 2 if len(recs) % 5 else 2
                    # (the tie-heavy style is about the replica count: it needs k >= 2 and more candidates than replicas)
                    d2 = dict(dep, k=min(max(dep["k"], 2), nag - 2)) if style == 1 and nag >= 4 else dep
                    rec, m = one_run(len(recs), inst, d2, r.randrange(10 ** 6), style=style)
                    meta[rec["id"]] = m
                    recs.append(rec)
    verdicts, jres = judge("Judge_C25", recs, chunk=400)
    v.add_tlc(jres, "outcome of %d replications judged (Judge_C25 / Replication.tla)" % len(recs))
    for rec in recs:
        m = meta[rec["id"]]
        v.cov["evaluations"] += 1
        v.cov["traces_validated_against_impl"] += 1
        if rec["accepts"]:
            v.cov["distinct_nontrivial"] += 1
        for clause in verdicts[rec["id"]]:
            v.violation({"clause": clause, "k": rec["k"]},
                        "%s (shape %s, %d agents, k=%d): hosts %s, done %s, %s" % (clause, m["shape"], len(rec["agents"]), rec["k"], rec["hosts"], rec["done"], rec["exc"][:1]),
                        {"inst": m["inst"], "dep": m["dep"], "sched_seed": m["sched_seed"], "style": m["style"], "outcome": rec})
        if not verdicts[rec["id"]] and len(rec["accepts"]) >= 4:
            v.sample({"shape": m["shape"], "caps": rec["cap"], "k": rec["k"], "footprints": rec["fp"], "hosts": rec["hosts"], "accepts": len(rec["accepts"])}, cap=3)
    v.cov["exhaustive"] = False
    v.cov["rule"] = ("DCOPs over 9 shapes (3-5 computations, DSA computations with their real footprints) deployed on 3-4 (quick) / 3-6 agents with TLC-drawn "
                     "capacities {3,4,6,9,100} (DSA footprints are 1-4), symmetric route costs {1,2,5}, hosting costs {0,3,8} with lower-case agent names or - every other run - {1,2,5} (ties with the route costs), ample capacities and upper-case names, or - one run in five - decimal costs (0.1 .. 0.7) (which sort before the search's own '__hosting__' node), placements and k in 1..3; 2 (quick) / 6 seeded interleavings of agent "
                     "loop iterations per deployment; non-trivial = at least one replica was accepted")
    v.cov["trusted_base"] = ["TLC (Replication.tla)", "vlib/orchrt.py + vlib/agentrt.py", "the acceptance recorder wrapped around UCSReplication._accept_replica"]
    v.assumptions = ["route tables are symmetric (the YAML format enforces it; the UCS budget arithmetic assumes it)",
                     "footprints are compared as integers (DSA footprints are whole numbers)"]
    return v.finish()


def replay(path):
    d = json.load(open(path))
    rec, m = one_run(0, d["replay"]["inst"], d["replay"]["dep"], d["replay"]["sched_seed"], d["replay"].get("style", 0))
    print(json.dumps(rec))
    return 1 if rec["exc"] or len(rec["done"]) != len(rec["agents"]) else 0
