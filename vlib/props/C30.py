"""C30 - problem and scenario generators produce well-formed instances.
TLC (Gen_C30) enumerates the argument combinations; the real generators are run (graph colouring through its command
entry point with an args namespace and an output file, the graph it built being captured from the harness; Ising and
scenario through their generate_* functions); TLC (Judge_C30 / Generators.tla) judges the outputs."""
import json, random, argparse, itertools, os
import numpy as np
from ..common import Verdict, seed, scratch, MachineryError
from .. import callcheck as CC
from ..judge import judge
from pydcop.commands.generators import graphcoloring as GCMOD, ising as ISMOD, scenario as SCMOD
from pydcop.dcop.yamldcop import load_dcop_from_file


def run_gc(a, n):
    random.seed(a["seed"]); np.random.seed(a["seed"])
    captured = {}
    origs = {k: getattr(GCMOD, k) for k in ("generate_random_graph", "generate_scalefree_graph", "generate_grid_graph")}
    for k, f in origs.items():
        def wrap(*x, _f=f, **kw):
            g = _f(*x, **kw)
            captured["g"] = g
            return g
        setattr(GCMOD, k, wrap)
    out = scratch() / ("gc_%d.yaml" % n)
    try:
        args = argparse.Namespace(graph=a["graph"], variables_count=a["n"], colors_count=a["colors"], soft=a["soft"], intentional=a["intentional"],
                                  p_edge=a["p"] / 10, m_edge=a["m"], allow_subgraph=a["sub"], noagents=False, output=str(out))
        GCMOD.generate(args)
    finally:
        for k, f in origs.items():
            setattr(GCMOD, k, f)
    g = captured["g"]
    nodes = sorted(g.nodes)
    idx = {node: i + 1 for i, node in enumerate(nodes)}
    edges = [[idx[u], idx[v]] for u, v in g.edges]
    dcop = load_dcop_from_file([str(out)])
    names = sorted(dcop.variables)
    vi = {v: i + 1 for i, v in enumerate(names)}
    sizes = {len(list(v.domain.values)) for v in dcop.variables.values()} or {a["colors"]}
    cons = []
    for cname in sorted(dcop.constraints):
        c = dcop.constraints[cname]
        dims = [d.name for d in c.dimensions]
        if len(dims) != 2:
            cons.append({"scope": [0, 0], "tab": []})
            continue
        d0, d1 = (list(dcop.variables[d].domain.values) for d in dims)
        tab = [int(c(**{dims[0]: x, dims[1]: y})) for x in d0 for y in d1]
        cons.append({"scope": [vi[dims[0]], vi[dims[1]]], "tab": tab})
    return {"edges": edges, "out": {"vars": names, "dsize": sizes.pop() if len(sizes) == 1 else -1, "cons": cons}}


def run_ising(a):
    res = {}
    forms = {}
    for extensive in (True, False):
        random.seed(a["seed"]); np.random.seed(a["seed"])
        dcop, var_mapping, fg_mapping = ISMOD.generate_ising(a["rows"], a["cols"], 1.6, 0.05, extensive, False, True, True)
        tabs = {}
        for cname, c in dcop.constraints.items():
            dims = [d.name for d in c.dimensions]
            tabs[cname] = [round(float(c(**dict(zip(dims, combo)))), 9) for combo in itertools.product([0, 1], repeat=len(dims))]
        forms[extensive] = tabs
        if extensive:
            res = {"vars": sorted(dcop.variables), "factors": sorted(dcop.constraints), "varMapping": {k: list(v) for k, v in var_mapping.items()},
                   "fgMapping": {k: list(v) for k, v in fg_mapping.items()}}
    diff = sorted(c for c in set(forms[True]) | set(forms[False]) if forms[True].get(c) != forms[False].get(c))
    res["formsDiffer"] = diff[:5]
    return res


def run_scenario(a):
    random.seed(a["seed"])
    agents = ["a%02d" % i for i in range(a["nagents"])]
    sc = SCMOD.generate_scenario(a["evts"], a["actions"], 10, 5, 5, agents)
    events = [[act.args["agent"] for act in e.actions] for e in sc.events if not e.is_delay]
    return {"agents": agents, "events": events}


def run(tier):
    quick = tier == "quick"
    v = Verdict("C30", tier, "exploration")
    cases, res = CC.generate("Gen_C30", consts=dict(Seeds={1, 2} if quick else set(range(1, 9))), workers=4)
    v.add_tlc(res, "generator argument combinations (Gen_C30)")
    cases.sort(key=lambda c: json.dumps(c, sort_keys=True))
    if quick:
        r = random.Random(seed() + 30)
        gc = [c for c in cases if c["gen"] == "gc"]
        cases = r.sample(gc, 200) + [c for c in cases if c["gen"] != "gc"]
    recs = []
    for n, a in enumerate(cases):
        rec = {"id": n, "gen": a["gen"], "args": a, "exc": "", "edges": [], "out": {"vars": [], "dsize": 0, "cons": []}, "vars": [], "factors": [],
               "varMapping": {}, "fgMapping": {}, "formsDiffer": [], "agents": [], "events": []}
        try:
            if a["gen"] == "gc":
                rec.update(run_gc(a, n))
            elif a["gen"] == "ising":
                rec.update(run_ising(a))
            else:
                rec.update(run_scenario(a))
        except MachineryError:
            raise
        except Exception as e:
            rec["exc"] = "%s: %s" % (type(e).__name__, str(e)[:100])
        recs.append(rec)
    verdicts, jres = judge("Judge_C30", recs, chunk=400)
    v.add_tlc(jres, "%d generated instances judged (Judge_C30 / Generators.tla)" % len(recs))
    counts = {}
    for rec in recs:
        a = rec["args"]
        v.cov["evaluations"] += 1
        v.cov["traces_validated_against_impl"] += 1
        counts[a["gen"]] = counts.get(a["gen"], 0) + 1
        if (a["gen"] == "gc" and rec["edges"]) or a["gen"] != "gc":
            v.cov["distinct_nontrivial"] += 1
        for clause in verdicts[rec["id"]]:
            key = {"generator": a["gen"], "clause": clause}
            if a["gen"] == "gc":
                key.update(graph=a["graph"], soft=a["soft"], intentional=a["intentional"])
            if a["gen"] == "ising":
                key["two_rows_or_columns"] = a["rows"] == 2 or a["cols"] == 2
            v.violation(key, "%s: %s %s %s" % (clause, a["gen"], {k: x for k, x in a.items() if k != "gen"}, rec["exc"]), {"args": a, "record": rec})
        if not verdicts[rec["id"]] and a["gen"] == "gc" and len(rec["edges"]) >= 4:
            v.sample({"args": a, "edges": rec["edges"], "constraints": [c["scope"] for c in rec["out"]["cons"]]}, cap=2)
    v.cov["cases_by_generator"] = counts
    v.cov["exhaustive"] = not quick
    v.cov["rule"] = ("graph colouring: graph kind x {4,5,9} variables x {2,3} colours x hard/soft x extensive/intentional x edge parameters x allow_subgraph x seeds "
                     "(quick: 200 drawn combinations), run through generate(args) and re-loaded from its YAML output, compared with the graph the generator built; "
                     "Ising: all grids 2..4 x 2..4 x seeds, both constraint forms with the same seed, both distributions; scenario: 1-3 events x 1-2 removals x "
                     "2-6 agents x seeds")
    v.cov["trusted_base"] = ["TLC (Generators.tla)", "the capture of the generator's graph and the YAML re-loading in vlib/props/C30.py"]
    return v.finish()


def replay(path):
    d = json.load(open(path))["replay"]
    a = d["args"]
    try:
        out = run_gc(a, 0) if a["gen"] == "gc" else run_ising(a) if a["gen"] == "ising" else run_scenario(a)
        print(json.dumps(out)[:1500])
    except Exception as e:
        print("raised", type(e).__name__, e)
        return 1
    return 0
