"""C21 - an agent runs its computations on a single thread, one call at a time.
Real-thread solves (run_local_thread_dcop + deploy + run, as the solve command) of TLC-generated DCOPs with several
algorithms and distributions, with a perturbed switch interval; every computation callback is recorded with its thread
(vlib/threadrt.py) and TLC (Judge_C21) checks that each runs on the hosting agent's own thread and that no agent ever has
callbacks active on two threads."""
import json, random, importlib
from ..common import Verdict, seed
from .. import algotrace as AT
from ..judge import judge
from ..threadrt import threaded_solve
from .C22 import make, distribution_for
from pydcop.algorithms import AlgorithmDef, load_algorithm_module

ALGOS = [("dpop", {}), ("dsa", {"stop_cycle": 5}), ("mgm", {"stop_cycle": 5}), ("maxsum", {}), ("adsa", {}), ("mgm2", {"stop_cycle": 4})]


def one_run(hid, inst, algo, params, kind, nag, r, with_scenario=False, delay=None, collect="value_change", period=None):
    dcop, doms = make(inst, nag)
    mod = load_algorithm_module(algo)
    gm = importlib.import_module("pydcop.computations_graph." + mod.GRAPH_TYPE)
    cg = gm.build_computation_graph(dcop)
    algo_def = AlgorithmDef.build_with_default_param(algo, params, mode=dcop.objective)
    dist = distribution_for(kind, dcop, cg, r)
    timeout = 20 if algo in ("dpop", "dsa", "mgm", "mgm2") else 0.6       # maxsum / adsa do not stop by themselves
    scenario = None
    if with_scenario:
        # a scenario with a removal event, as `pydcop run` plays it (timer threads hand the events to the orchestrator)
        from pydcop.dcop.scenario import Scenario, DcopEvent, EventAction
        victim = r.choice(sorted(dcop.agents))
        scenario = Scenario([DcopEvent("d1", delay=0.15), DcopEvent("e1", actions=[EventAction("remove_agent", agent=victim)]),
                             DcopEvent("d2", delay=0.15)])
        timeout = 1.0
    orch, rec, err = threaded_solve(dcop, algo_def, cg, dist, infinity=10000, timeout=timeout, switch=r.choice([1e-6, 1e-5, 1e-4, 5e-3]),
                                    scenario=scenario, delay=delay, collect_moment=collect, period=period)
    events = sorted(rec.events, key=lambda e: e["seq"])
    known = [e for e in events if e["agent"] in rec.owner][:4000]      # (a prefix: enter/exit pairs cut at the end are harmless)
    return {"id": hid, "owner": rec.owner, "events": [{k: e[k] for k in ("agent", "comp", "kind", "tid", "ph")} for e in known]}, \
        {"algo": algo, "dist": kind, "agents": nag, "shape": inst["shape"], "status": orch.status if orch else "?", "err": err, "scenario": with_scenario,
         "unowned": sorted({e["agent"] for e in events if e["agent"] not in rec.owner}), "delay": delay, "collect": collect}


def run(tier):
    quick = tier == "quick"
    v = Verdict("C21", tier, "exploration")
    r = random.Random(seed() + 21)
    insts, gres = AT.gen_instances(["pair", "path3", "triangle", "tern", "star4", "isolated", "twocomp", "cycle4"], [0, 1, 3, 2], n=1 if quick else 4,
                                   seed=seed() + 21, modes=("min",))
    v.add_tlc(gres, "instance generation (Gen_Dcop)")
    recs, meta = [], {}
    n = 14 if quick else 120
    for i in range(n):
        inst = r.choice(insts)
        algo, params = ALGOS[i % len(ALGOS)]
        kind = r.choice(["oneagent", "random", "random"])
        nag = len(inst["vars"]) + len(inst["cons"]) if kind == "oneagent" else r.choice([2, 3])
        rec, m = one_run(len(recs), inst, algo, params, kind, nag, r)
        meta[rec["id"]] = m
        recs.append(rec)
    for i in range(3 if quick else 20):
        inst = r.choice(insts)
        rec, m = one_run(len(recs), inst, "adsa" if i % 2 else "maxsum", {}, "random", 3, r, with_scenario=True)
        meta[rec["id"]] = m
        recs.append(rec)
    # the run options that change how things are scheduled: a delivery delay for algorithm messages, and the two other metrics
    # collection modes (periodic reports; reports at cycle changes)
    for i in range(4 if quick else 24):
        inst = r.choice(insts)
        opts = [dict(delay=0.01), dict(collect="period", period=0.02), dict(collect="cycle_change"), dict(delay=0.005, collect="period", period=0.05)][i % 4]
        rec, m = one_run(len(recs), inst, ["dpop", "mgm", "dsa", "maxsum"][i % 4], {"stop_cycle": 5} if i % 4 in (1, 2) else {}, "random", 3, r, **opts)
        meta[rec["id"]] = m
        recs.append(rec)
    # the end of an agent's life, where the thread that asked for the shutdown could end up doing the agent's work: paths of
    # Messaging.tla containing a clean shutdown, with the REAL agent loop stepped along them, then Agent.join() from the caller
    from .C18 import stepped_shutdown_thread_records
    srecs, sres = stepped_shutdown_thread_records(120 if quick else 1500, seed() + 21, first_id=len(recs))
    v.add_tlc(sres, "Messaging.tla transitions (two posters, one destination, shutdown) for the stepped end-of-life runs")
    for sr in srecs:
        meta[sr["id"]] = {"algo": "stepped agent loop + join()", "dist": "-", "shape": "-", "path": sr.pop("path")}
        recs.append(sr)
    v.cov["stepped_shutdown_runs"] = len(srecs)
    verdicts, jres = judge("Judge_C21", recs, chunk=40, workers=1, xss="1g")
    v.add_tlc(jres, "thread identity of %d callbacks in %d real-thread runs judged (Judge_C21)" % (sum(len(x["events"]) // 2 for x in recs), len(recs)))
    kinds = {}
    for rec in recs:
        m = meta[rec["id"]]
        v.cov["evaluations"] += 1
        v.cov["traces_validated_against_impl"] += 1
        for e in rec["events"]:
            if e["ph"] == "enter":
                kinds[e["kind"]] = kinds.get(e["kind"], 0) + 1
        if any(e["kind"] == "on_message" and not e["comp"].startswith("_") for e in rec["events"]):
            v.cov["distinct_nontrivial"] += 1
        seen = set()
        for b in verdicts[rec["id"]]:
            technical = b[2].startswith("_") or b[1] == "orchestrator"
            key = {"clause": b[0], "agent_kind": "orchestrator" if b[1] == "orchestrator" else "agent", "callback": b[3],
                   "computation_kind": "technical" if technical else "dcop"}
            sig = json.dumps(key, sort_keys=True)
            if sig in seen:
                continue
            seen.add(sig)
            v.violation(key, "%s: %s of computation %s hosted on %s (run: %s, %s distribution, shape %s)" % (b[0], b[3], b[2], b[1], m["algo"], m["dist"], m["shape"]),
                        {"meta": m, "owner": rec["owner"], "events": [e for e in rec["events"] if e["agent"] == b[1]][:30]})
        if not verdicts[rec["id"]]:
            v.sample({"run": m, "threads": rec["owner"], "callbacks": len(rec["events"]) // 2}, cap=3)
    v.cov["callbacks_by_kind"] = kinds
    v.cov["exhaustive"] = False
    v.cov["rule"] = ("%d real-thread orchestrated runs (algorithms dpop, dsa, mgm, mgm2, maxsum, adsa; TLC-drawn DCOPs over 8 shapes; oneagent and "
                     "random distributions on 2-3 agents, some runs with a scenario removing an agent, some with a delivery delay or the period / cycle_change metrics modes; switch interval drawn from {1e-6 .. 5e-3}); every start / on_message / pause of every "
                     "computation added to an agent, every periodic action and every discovery callback registered from a computation callback is "
                     "recorded with its thread; plus %d runs of one real agent whose loop is stepped along Messaging.tla paths containing a clean shutdown, "
                     "followed by Agent.join() from the caller; non-trivial = a DCOP computation handled at least one message" % (n, len(srecs)))
    v.cov["trusted_base"] = ["TLC", "vlib/threadrt.py (class-level wrappers around Agent.add_computation / set_periodic_action / _run and Discovery.subscribe_*)"]
    v.assumptions = ["thread schedules are sampled by the operating system (perturbed switch interval), not enumerated"]
    return v.finish()


def replay(path):
    d = json.load(open(path))
    print("thread-identity violations depend on the code path, not on the schedule: re-run ./check C21")
    print(json.dumps(d["key"]))
    return 1
