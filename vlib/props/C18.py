"""C18 - agent messaging delivers each message once, by priority, FIFO per sender.
(M) Messaging.tla: all interleavings of the steps of concurrent post_msg calls (shutdown check, discovery lookup, queue put,
    subscription, deferral), the registration of a late computation, the agent loop, clean shutdown and loop exit;
(R) every transition TLC explored is replayed on a REAL Agent/Messaging with REAL posting threads that are advanced one
    yield point at a time (vlib/stepthreads.py), comparing the projection of the real objects after every step;
(T) the observed histories are judged by TLC (Judge_C18)."""
import time, json, queue, random
from ..common import Verdict, seed, scratch, MachineryError
from .. import tlc, replay as RP
from ..agentrt import AgentWorld
from ..stepthreads import Stepper
from pydcop.infrastructure.computations import MessagePassingComputation, Message

SCRIPTS = {
    "A": {1: [("c1", 20), ("c2", 20), ("c2", 10)], 2: [("c2", 20), ("c1", 10)]},
    "B": {1: [("c2", 20), ("c2", 20), ("c1", 20)], 2: [("c1", 20), ("c2", 20)]},
    "C": {1: [("c1", 20), ("c1", 10), ("c1", 20)], 2: [("c1", 20), ("c1", 5)]},
    "D": {1: [("c2", 20), ("c2", 20)], 2: [("c2", 20), ("c2", 10)]},
    # one sender's same-type messages around another sender's higher-priority ones: the agent consumes those while the first
    # message of the sender is still queued, then the sender posts again
    "E": {1: [("c1", 20), ("c1", 20), ("c1", 20)], 2: [("c1", 10), ("c1", 10)]},
}
CFG = """INIT Init
NEXT Next
CONSTANTS Posters = {1, 2}
 Dests = {"c1", "c2"}
 LateDests = {"c2"}
 Types = {5, 10, 20}
 Recheck = %s
 Repoll = %s
 Ordered = %s
INVARIANT HandledOnce
INVARIANT PriorityRespected
INVARIANT SenderFifo
INVARIANT NothingLost
INVARIANT ShutdownDrains
INVARIANT NoStuckDeferred
VIEW View
ACTION_CONSTRAINT Edge
"""
JUDGE_CFG = "INIT Init\nNEXT Next\nINVARIANT Emit\n"
NEXT_ALLOWED = {"begin": {"lookup", "begin"}, "lookup": {"put", "sub", "begin"}, "sub": {"fail", "begin"}, "put": {"begin"}, "fail": {"begin"}}


class Rec(MessagePassingComputation):
    """records a message when the agent hands it to the computation (Agent._handle_message -> on_message): a computation that is
    registered but not started yet would keep it and get it again, re-injected, when it starts - C19's subject: the harness creates
    its computations already running"""

    def __init__(self, name, on_handled):
        super().__init__(name)
        self._seen = set()
        self._on_handled = on_handled
        self._msg_handlers["m"] = lambda s, m, t: None

    def on_message(self, sender, msg, t):
        # every delivery counts (the harness creates the computation running: nothing is kept and re-injected), so that a message
        # handed twice shows
        self._on_handled(self.name, sender, msg)
        return super().on_message(sender, msg, t)


class Diverged(Exception):
    """the real code is not where the model's next step needs it (its structure differs from Messaging.tla)"""


class Driver:
    REGS = 0

    def __init__(self, scripts, dests=("c1", "c2"), late=("c2",), real_loop=False, free=False):
        """real_loop: the agent's own thread runs the REAL Agent._run, parked at every call of Messaging.next_msg; otherwise
        the loop body is executed by vlib/agentrt.py"""
        self.scripts, self.dests, self.late = scripts, list(dests), set(late)
        self.real_loop = real_loop
        self.w = AgentWorld()
        self.a = self.w.add_agent("a1")
        if not real_loop:
            self.w.boot("a1")
        self.ids, self.keep = {}, []
        self.handled, self.fetch, self.before = [], [], []
        self.handled_on = []      # (computation, thread id) of every delivery (C21 looks at them)
        self.exited = False
        self.apc = "poll"            # agentrt mode: where the (re-implemented) loop is; real loop mode: read from the thread
        self.progress = {p: 1 for p in scripts}      # index of the post_msg call each thread is in / about to make
        self.st = st = Stepper()
        st.free = free              # free: the posting threads are not stepped, they run concurrently on their own
        ms = self.a._messaging
        disc = ms.discovery
        o_ca, o_sub = disc.computation_agent, disc.subscribe_computation
        disc.computation_agent = lambda c: (st.point("lookup"), o_ca(c))[1]
        disc.subscribe_computation = lambda *a_, **k_: (st.point("sub"), o_sub(*a_, **k_))[1]
        drv = self

        # Discovery.register_computation first records the computation (post_msg's lookup succeeds from then on) and then tests
        # `computation in self._computation_cbs` before firing the callbacks: that test is the yield point between the model's
        # RegData and RegFire steps (only the registering thread parks there: it is the only one allowed to)
        import collections as _collections

        class CbTable(_collections.defaultdict):
            def __contains__(self_, k):
                if str(getattr(st.local, "key", "")).startswith("reg_"):
                    st.point("regfire")
                return dict.__contains__(self_, k)
        disc._computation_cbs = CbTable(getattr(disc._computation_cbs, "default_factory", None), disc._computation_cbs)
        self.reg = {d: ("no" if d in self.late else "done") for d in self.dests}

        class Q(queue.PriorityQueue):
            def put(self, item, *a_, **k_):
                r = super().put(item, *a_, **k_)
                if not drv.a._shutdown.is_set():
                    drv.before.append(drv.ids.get(id(item[3].msg), -1))
                return r
        ms._queue = Q()
        # the position in the queue is decided by the counter, which post_msg increments right after reading the clock: the
        # yield point of the model's Put step is that clock read (communication.perf_counter), before the increment
        import pydcop.infrastructure.communication as _comm
        import time as _time
        _comm.perf_counter = lambda: (st.point("put"), _time.perf_counter())[1]

        if hasattr(ms, "_failed_lock"):
            # repaired post_msg: deferral + second lookup happen under a lock; the yield point of the model's Fail step is
            # the acquisition of that lock (a thread parked while holding it would block the registration, which cannot happen)
            inner = ms._failed_lock

            class YLock:
                def __enter__(self_):
                    # (a post whose destination is known takes this lock only to look at the deferred list: that is the model's
                    # Put step, and its yield point when the lock is taken; a thread that just deferred a message is at Fail)
                    st.point("put")
                    st.point("fail")
                    # (the registering thread: between what it did since the callback table test and its critical section)
                    st.point("reglock")
                    if not inner.acquire(timeout=3):
                        # a parked thread holds the lock: the code no longer follows the model's steps; stop stepping
                        with st.cv:
                            st.free = True
                            st.cv.notify_all()
                        inner.acquire()

                def __exit__(self_, *exc):
                    inner.release()
            ms._failed_lock = YLock()
        else:
            class FL(list):
                def append(self, x):
                    st.point("fail")
                    super().append(x)
            ms._failed = FL()
        if real_loop:
            o_next = ms.next_msg

            def next_msg(timeout=0):
                st.point("poll")
                r = o_next(0)             # a poll that finds nothing is a timed-out poll
                st.point("polled")        # between the poll and the next test of the loop condition
                return r
            ms.next_msg = next_msg
            # the end of an iteration (before the periodic actions and the next test of the loop condition) is a yield point too:
            # what the model does while the loop is "about to poll" then happens before that test on the real thread
            o_periodic = self.a._process_periodic_action

            def periodic():
                st.point("periodic")
                return o_periodic()
            self.a._process_periodic_action = periodic
            st.adopt(self.a.t, "agent")
            orig_run = self.a._run

            def run_and_report():
                try:
                    orig_run()
                finally:
                    st.mark_done("agent")
            self.a.t._target = run_and_report
            self.a.t.daemon = True          # (a thread that does not end must not keep the checking process alive)
            self.a.start()
            st.wait_parked("agent")
        for d in self.dests:
            if d not in self.late:
                self.register(d)
        for p, script in scripts.items():
            st.spawn(p, self._body(p, script), next_allowed=NEXT_ALLOWED, first={"begin"})

    def _body(self, p, script):
        def body():
            for i, (dest, ty) in enumerate(script):
                m = Message("m", "payload")         # equal contents: messages are told apart by identity
                self.ids[id(m)] = 10 * p + i + 1
                self.keep.append(m)
                self.st.point("begin")
                self.a._messaging.post_msg("s%d" % p, dest, m, ty)
                self.progress[p] = i + 2
        return body

    def register(self, d):
        if not self.a.is_running:       # the agent's thread has ended (real loop mode, after loop exit)
            return
        def _handled(name, s, m):
            import threading as _th
            self.handled.append(self.ids[id(m)])
            self.handled_on.append((name, _th.get_ident()))
        c = Rec(d, _handled)
        # the computation counts as started from the moment it exists: what an unstarted computation does with the messages it is
        # handed (it keeps them and gets them re-injected when it starts) is the subject of C19, not of this check
        c._running = True
        self.a.add_computation(c)

    def queue_mids(self):
        return [self.ids[id(e[3].msg)] for e in sorted(self.a._messaging._queue.queue, key=lambda e: (e[0], e[1]))]

    def agent_until(self, cond, what, limit=10):
        """advance the real agent thread until cond(where) holds"""
        for _ in range(limit):
            where = self.st.where("agent")
            if cond(where):
                return where
            if where[0] != "parked":
                break
            self.st.advance("agent")
        where = self.st.where("agent")
        if not cond(where):
            raise Diverged("%s: the real agent thread is at %r" % (what, where))
        return where

    def apply(self, a):
        n = a["n"]
        self.trail = getattr(self, "trail", []) + [n + str(a.get("p", a.get("d", "")))]
        if n in ("begin", "lookup", "put", "sub", "fail"):
            st = self.st.where(a["p"])
            if st != ("parked", n):
                raise Diverged("thread %s is at %r, the model expects %s" % (a["p"], st, n))
            try:
                self.st.advance(a["p"])
            except RuntimeError as ex:       # blocked somewhere that is not a yield point of the model
                raise Diverged(str(ex))
        elif n == "register":
            self.register(a["d"])
        elif n == "regdata":
            d = a["d"]
            if not self.a.is_running:
                self.reg[d] = "data"
            else:
                self.st.spawn("reg_" + d, lambda: self.register(d), next_allowed={"regfire": {"reglock"}, "reglock": set()},
                              first={"regfire"})
                w = self.st.where("reg_" + d)
                if w != ("parked", "regfire"):
                    raise Diverged("the registering thread is at %r after recording the computation" % (w,))
                self.reg[d] = "data"
        elif n == "regtest":
            # the callback table test, up to the acquisition of the lock of Messaging._on_computation_registration (or to the end)
            d = a["d"]
            if ("reg_" + d) in self.st.state and hasattr(self.a._messaging, "_failed_lock"):
                if self.st.where("reg_" + d) != ("parked", "regfire"):
                    raise Diverged("the registering thread is at %r, the model expects the callback table test" % (self.st.where("reg_" + d),))
                w = self.st.advance("reg_" + d)
                self.reg[d] = "lock" if w == ("parked", "reglock") else "done"
            else:
                # (no lock in this code, or no thread: the test and the callbacks are one step of the harness, made at regfire)
                self.reg[d] = "lock" if d in self.project()["cbs"] else "done"
        elif n == "regfire":
            d = a["d"]
            if ("reg_" + d) in self.st.state:
                w = self.st.where("reg_" + d)
                for _ in range(2):
                    if w[0] == "parked":
                        w = self.st.advance("reg_" + d)
                if w[0] != "done":
                    raise Diverged("the registering thread did not finish: %r" % (w,))
            self.reg[d] = "done"
        elif n == "next":
            self.fetch.append({"m": self.queue_mids()[0] if self.queue_mids() else -1,
                               "queued": [e[0] for e in self.a._messaging._queue.queue]})
            if self.real_loop:
                before = len(self.handled)
                self.agent_until(lambda w: w[0] != "parked" or (len(self.handled) > before and w[1] in ("periodic", "poll")),
                                 "a message is due")
                if len(self.handled) != before + 1:
                    raise Diverged("the real agent loop handled %d messages where one was due (thread: %r)" % (
                        len(self.handled) - before, self.st.where("agent")))
            else:
                self.w.step("a1")
            self.apc = "poll"
        elif n == "idle":
            if self.real_loop:
                if self.queue_mids():
                    raise Diverged("idle poll with a non-empty queue")
                self.agent_until(lambda w: w == ("parked", "polled"), "a poll that finds nothing is due")
            self.apc = "check"
        elif n == "resume":
            if self.real_loop:
                if self.st.where("agent") != ("parked", "polled"):
                    raise Diverged("thread %r where the model is after a timed-out poll" % (self.st.where("agent"),))
                self.st.advance("agent")
                if self.st.where("agent") not in (("parked", "poll"), ("parked", "periodic")):
                    raise Diverged("the loop did not go on to its next iteration: %r" % (self.st.where("agent"),))
            self.apc = "poll"
        elif n == "shutdown":
            self.a.clean_shutdown()
        elif n == "exit":
            if self.real_loop:
                self.agent_until(lambda w: w[0] == "done", "the loop is to exit after clean_shutdown")
            elif not self.a._shutdown.is_set():
                raise Diverged("loop exit without shutdown")
            self.exited = True
        else:
            raise MachineryError("unknown action %r" % a)

    def apply_lenient(self, a):
        """the code has left the model: the action only says which thread makes the next step"""
        n = a["n"]
        key = a["p"] if "p" in a else ("reg_" + a["d"] if n in ("regtest", "regfire") else None)
        try:
            if key is not None and key in self.st.state:
                if self.st.where(key)[0] == "parked":
                    self.st.advance(key)
            elif key is None:
                self.apply(a)
        except (Diverged, RuntimeError):
            pass

    def idle_poll(self):
        """real loop mode: let the agent make a poll that finds nothing; it is then between that poll and its next loop test"""
        if self.real_loop and self.st.where("agent") == ("parked", "poll") and not self.queue_mids() and not self.a._shutdown.is_set():
            self.st.advance("agent")

    def apc_now(self):
        if not self.real_loop:
            return self.apc
        where = self.st.where("agent")
        if where[0] == "done":
            return self.apc
        return "check" if where[1] == "polled" else "poll"

    def pcs(self):
        out = []
        for p in sorted(self.scripts):
            st = self.st.where(p)
            if st[0] == "error":
                raise MachineryError("posting thread %s raised %s" % (p, st[1]))
            out.append("idle" if st[0] == "done" or st[1] == "begin" else st[1])
        return out

    def known(self):
        return sorted(d for d in self.dests if d in self.a.discovery._computations_data)

    def project(self):
        cbs = sorted(d for d in self.dests if any(True for _ in self.a.discovery._computation_cbs.get(d, [])))
        return {"pc": self.pcs(), "idx": [self.progress[p] for p in sorted(self.scripts)], "cbs": cbs, "known": self.known(), "failed": [self.ids[id(f[2])] for f in self.a._messaging._failed],
                "queue": self.queue_mids(), "handled": list(self.handled), "shut": self.a._shutdown.is_set(), "exited": self.exited,
                "apc": self.apc_now(), "reg": {d: self.reg[d] for d in sorted(self.late)}}

    def all_posted(self):
        return all(self.st.where(p)[0] == "done" for p in self.scripts)

    def history(self, hid):
        msgs = [{"mid": 10 * p + i + 1, "p": p, "i": i + 1, "dest": d, "ty": ty} for p, sc in self.scripts.items() for i, (d, ty) in enumerate(sc)]
        # (a registration that has recorded the computation but not fired its callbacks yet is still in progress: what is deferred
        # for that computation is not stuck, and the run is not settled)
        known = {d for d in self.known() if self.reg.get(d, "done") == "done" or not any(str(k) == "reg_" + d and v[0] == "parked" for k, v in self.st.state.items())}
        failed = [self.ids[id(f[2])] for f in self.a._messaging._failed]
        stuck = [m for m, f in zip(failed, self.a._messaging._failed) if f[1] in known] if all(
            self.st.where(p)[0] == "done" or self.st.where(p)[1] == "begin" for p in self.scripts) and not self.a._shutdown.is_set() else []
        settled = self.all_posted() and known == set(self.dests) and not self.a._shutdown.is_set() and not self.queue_mids()
        exited = self.exited or (self.real_loop and self.st.where("agent")[0] == "done")
        return {"id": hid, "msgs": msgs, "handled": list(self.handled), "fetch": list(self.fetch), "before": [m for m in self.before if m > 0],
                "exited": exited, "settled": settled and not exited, "stuck": stuck}

    def settle(self):
        """let every thread finish, register the late computations, drain the queue"""
        if self.st.free:
            if self.real_loop:
                self.a.clean_shutdown()
                self.a.t.join(10)
                self.st.mark_done("agent")
        else:
            try:
                # (the agent's own loop never ends by itself: it is advanced below, as far as needed; a registration caught by the
                # end of the agent's thread stays where it is - what Agent._on_stop does to it is outside the model)
                over = self.real_loop and self.st.where("agent")[0] == "done"
                self.st.finish_all(skip={"agent"} | ({k for k in self.st.state if str(k).startswith("reg_")} if over else set()))
            except RuntimeError:
                self.st.free_run()
        for d in self.dests:
            if d not in self.known():
                self.register(d)
        if self.real_loop:
            for _ in range(100):
                where = self.st.where("agent")
                if where[0] != "parked" or (where[1] in ("poll", "periodic") and not self.queue_mids() and not self.a._shutdown.is_set()):
                    break
                self.st.advance("agent")
            if self.st.where("agent")[0] == "done":
                self.exited = True
        elif not self.exited:
            for _ in range(100):
                if not self.queue_mids():
                    break
                self.apply({"n": "next"})

    def close(self):
        """no thread of this driver survives it (a free-running agent loop polls without waiting: it would burn a core)"""
        try:
            # a registration still in flight is completed first (the agent is parked and not needed for it): letting it race with
            # the end of the agent's thread - Agent._on_stop un-registers the computations - is outside the model, and the real
            # code can then bounce a deferred message between post_msg and its registration callback for ever
            for k in [k for k in self.st.state if str(k).startswith("reg_")]:
                try:
                    for _ in range(2):
                        if self.st.where(k)[0] == "parked":
                            self.st.advance(k)
                except RuntimeError:
                    pass
            if self.real_loop:
                self.a.stop()
            with self.st.cv:
                self.st.free = True
                self.st.cv.notify_all()
            for t in list(self.st.threads.values()) + ([self.a.t] if self.real_loop else []):
                t.join(5)
            import sys as _sys, traceback as _tb
            self.leaked = []
            for t in list(self.st.threads.values()) + ([self.a.t] if self.real_loop else []):
                if t.is_alive():
                    fr = _sys._current_frames().get(t.ident)
                    self.leaked.append((t.name, "".join(_tb.format_stack(fr, limit=5))[-700:] if fr else "?"))
        except Exception:
            pass


def free_execution(sc, r):
    """real posting threads running freely (no stepping); the late computation is registered while they post"""
    d = Driver(sc, free=True)
    for _ in range(r.randrange(0, 400)):
        pass
    for dest in d.dests:
        if dest not in d.known():
            d.register(dest)
    for t in d.st.threads.values():
        t.join(10)
    d.settle()
    return d


def stepped_shutdown_thread_records(max_paths, sd, first_id=0):
    """for C21: paths of Messaging.tla that contain a clean shutdown, replayed with the REAL agent loop on its own thread stepped
    along them (incl. "poll timed out, then a post and the shutdown request, then the loop test"); after the path the harness
    thread calls Agent.join(), as Orchestrator.run does.  -> (records for Judge_C21, TlcResult)"""
    import inspect
    from pydcop.infrastructure.agents import Agent as _Agent
    from pydcop.infrastructure.communication import Messaging as _Messaging
    sc = {1: [("c1", 20), ("c1", 20)], 2: [("c1", 10), ("c1", 20)]}
    fixed = hasattr(_Messaging("probe", type("C", (), {"discovery": None})()), "_failed_lock")
    repoll = inspect.getsource(_Agent._run).count("next_msg(") >= 2
    ordered = "if any(f[1] == dest_computation" in inspect.getsource(_Messaging.post_msg)
    cfg = CFG % ("TRUE" if fixed else "FALSE", "TRUE" if repoll else "FALSE", "TRUE" if ordered else "FALSE")
    for inv in ("ShutdownDrains", "NoStuckDeferred", "SenderFifo", "HandledOnce", "PriorityRespected", "NothingLost"):
        cfg = cfg.replace("INVARIANT %s\n" % inv, "")
    g, res = RP.dump_edges("Messaging", cfg, consts={"Scripts": tla_scripts(sc)}, heap="4g")
    init = {"pc": ["idle", "idle"], "idx": [1, 1], "cbs": [], "known": ["c1"], "failed": [], "queue": [], "handled": [], "shut": False, "exited": False,
            "apc": "poll", "reg": {"c2": "no"}}
    paths = [p for p in g.cover(init, max_len=40) if any(a["n"] == "shutdown" for a, _ in p)]
    random.Random(sd).shuffle(paths)
    recs = []
    for path in paths[:max_paths]:
        d = Driver(sc, real_loop=True)
        try:
            try:
                for a, _ in path:
                    d.apply(a)
                    if d.exited:
                        break
            except Diverged:
                d.st.free_run()
            d.settle()
            if d.a._shutdown.is_set():
                try:
                    d.a.join()           # the caller's thread (Orchestrator.run joins its own agent after clean_shutdown)
                except Exception:
                    pass
            tid = d.a.t.ident
            ev = []
            for comp, th in d.handled_on:
                ev.append({"agent": "a1", "comp": comp, "kind": "on_message", "tid": th, "ph": "enter"})
                ev.append({"agent": "a1", "comp": comp, "kind": "on_message", "tid": th, "ph": "exit"})
            recs.append({"id": first_id + len(recs), "owner": {"a1": tid}, "events": ev,
                         "path": [a["n"] + str(a.get("p", a.get("d", ""))) for a, _ in path]})
        finally:
            d.close()
    return recs, res


def tla_scripts(sc):
    return "@[p \\in {1, 2} |-> IF p = 1 THEN %s ELSE %s]" % tuple(
        "<<" + ", ".join('[dest |-> "%s", ty |-> %d]' % e for e in sc[p]) + ">>" for p in (1, 2))


def run(tier):
    quick = tier == "quick"
    v = Verdict("C18", tier, "model_checking")
    fixed = hasattr(__import__("pydcop.infrastructure.communication", fromlist=["Messaging"]).Messaging("probe", type("C", (), {"discovery": None})()), "_failed_lock")
    hist = []
    cex_hist = []
    total_paths = total_steps = total_edges = 0
    ndiv, t_start, departed_budget = 0, time.time(), (400 if quick else 3000)
    for name in (["A", "B", "C", "E"] if quick else ["A", "B", "C", "D", "E"]):
        sc = SCRIPTS[name]
        import inspect
        from pydcop.infrastructure.agents import Agent as _Agent
        repoll = inspect.getsource(_Agent._run).count("next_msg(") >= 2
        from pydcop.infrastructure.communication import Messaging as _Messaging
        ordered = "if any(f[1] == dest_computation" in inspect.getsource(_Messaging.post_msg)
        cfg = CFG % ("TRUE" if fixed else "FALSE", "TRUE" if repoll else "FALSE", "TRUE" if ordered else "FALSE")
        if not repoll:      # the unrepaired loop: the model itself loses messages queued between a timed-out poll and the shutdown test
            cfg = cfg.replace("INVARIANT ShutdownDrains\n", "")
        if not fixed:       # the unrepaired post_msg: the model itself has the stuck-deferral race; the real histories are judged below
            cfg = cfg.replace("INVARIANT NoStuckDeferred\n", "")
        g, res = RP.dump_edges("Messaging", cfg, consts={"Scripts": tla_scripts(sc)}, heap="6g")
        if res.violated:
            # the model itself breaks an invariant: TLC's counterexample is replayed on the real agent with real threads stepped
            # along it, and the real history is judged like every other one; if the real code does not show the violation the
            # model is wrong (machinery failure), otherwise it is a defect of the code
            acts = [st["act"] for st in (res.trace_json or [])[1:] if isinstance(st.get("act"), dict)]
            if not acts:
                raise MachineryError("Messaging.tla (scripts %s) violates %s and TLC gave no counterexample" % (name, res.violated))
            v.add_tlc(res, "Messaging.tla (scripts %s: %s): invariant %s violated, counterexample of %d steps" % (name, sc, res.violated[0], len(acts)))
            for real_loop in (False, True):
                d = Driver(sc, real_loop=real_loop)
                try:
                    try:
                        for a in acts:
                            d.apply(a)
                    except Diverged as ex:
                        v.divergence("scripts %s counterexample to %s: %s" % (name, res.violated[0], ex))
                        d.st.free_run()
                    d.settle()
                    cex_hist.append((len(hist), name, res.violated[0]))
                    hist.append((d.history(len(hist)), {"scripts": name, "path": acts, "counterexample_to": res.violated[0]}))
                finally:
                    d.close()
            continue
        v.add_tlc(res, "exhaustive model checking of Messaging.tla (scripts %s: %s) with invariants + labelled edge dump" % (name, sc))
        init = {"pc": ["idle", "idle"], "idx": [1, 1], "cbs": [], "known": ["c1"], "failed": [], "queue": [], "handled": [], "shut": False, "exited": False, "apc": "poll", "reg": {"c2": "no"}}
        paths = g.cover(init, max_len=40)
        if quick and len(paths) > 550:
            random.Random(seed()).shuffle(paths)
            paths = paths[:550]
        # covering paths reach every edge by a short prefix; random walks add long histories, half of them with the agent's loop
        # mostly kept waiting at first (a backlog builds up in the queue before it is consumed)
        rw = random.Random(seed() + 1800 + len(name))
        nw = 60 if quick else 600
        paths += RP.walks(g, init, nw, 40, rw) + RP.walks(g, init, nw, 40, rw, weight=lambda a, k: 0.1 if a["n"] in ("next", "idle", "shutdown") and k < 14 else 1.0)
        total_edges += g.nedges
        for pi, path in enumerate(paths):
            if ndiv >= 12 and time.time() - t_start > departed_budget:
                v.notes.append("the code does not follow Messaging.tla's steps (%d divergences): the schedules of the model's paths kept being "
                               "applied to the real threads, without comparison, until the time budget ended at path %d" % (ndiv, pi))
                break
            d = Driver(sc, real_loop=(pi % 2 == 1))
            diverged = False
            _t0 = time.time()
            try:
                for k, (a, exp) in enumerate(path):
                    if diverged:
                        # the code has left the model on this path: the rest of the path is still a schedule of the real threads (who
                        # makes the next step); it is applied as far as it can be and the history is judged
                        d.apply_lenient(a)
                        continue
                    try:
                        d.apply(a)
                    except Diverged as ex:
                        ndiv += 1
                        if ndiv <= 12:
                            v.divergence("scripts %s path %d step %d (%s): %s" % (name, pi, k, a["n"], ex))
                        diverged = True
                        d.apply_lenient(a)
                        continue
                    total_steps += 1
                    got = d.project()
                    exp = dict(exp, known=sorted(exp["known"]), cbs=sorted(exp["cbs"]))
                    if d.real_loop and d.exited:
                        break      # the real thread has run Agent._on_stop (computations unregistered), which is outside the model
                    diff = RP.first_diff(got, exp)
                    if diff:
                        ndiv += 1
                        if ndiv <= 12:
                            v.divergence("scripts %s path %d step %d (%s): real objects differ from Messaging.tla at %s" % (name, pi, k, a["n"], diff))
                        diverged = True
                if pi % 4 < 2 or d.a._shutdown.is_set() or diverged:
                    d.settle()
                hist.append((d.history(len(hist)), {"scripts": name, "path": [x[0] for x in path]}))
            finally:
                d.close()
                if time.time() - _t0 > 5:
                    v.notes.append("slow replay (%.0f s): scripts %s path %d %s leaked %s" % (time.time() - _t0, name, pi, getattr(d, "trail", []), getattr(d, "leaked", None)))
        total_paths += len(paths)
    r = random.Random(seed() + 18)
    nfree = 0
    for name in sorted(SCRIPTS):
        for _ in range(15 if quick else 150):
            d = free_execution(SCRIPTS[name], r)
            h = d.history(len(hist))
            h["fetch"] = []
            hist.append((h, {"scripts": name, "path": [{"n": "free-running threads"}]}))
            nfree += 1
    v.cov.update(replayed_paths=total_paths, replayed_steps=total_steps, model_edges=total_edges, free_running_executions=nfree)
    f = scratch() / "c18.ndjson"
    with open(f, "w") as fh:
        for h, _ in hist:
            fh.write(json.dumps(h) + "\n")
    jres = tlc.run("Judge_C18", JUDGE_CFG, env={"TRACE_FILE": str(f)}, workers=4)
    v.add_tlc(jres, "C18 clauses judged on %d histories of the real agent (Judge_C18 / Orders.tla)" % len(hist))
    verdicts = {x[0]["id"]: x[0]["bad"] for x in jres.tagged("VERDICT")}
    if len(verdicts) != len(hist):
        raise MachineryError("judge returned %d verdicts for %d histories" % (len(verdicts), len(hist)))
    for hid, name, inv in cex_hist:
        if not any(verdicts[hid] for hid2, n2, _ in cex_hist if n2 == name for hid in [hid2]):
            raise MachineryError("Messaging.tla (scripts %s) violates %s but the real agent, stepped along TLC's counterexample, "
                                 "shows no violation: the model is wrong" % (name, inv))
    for h, meta in hist:
        v.cov["evaluations"] += 1
        v.cov["traces_validated_against_impl"] += 1
        if len(h["handled"]) >= 2:
            v.cov["distinct_nontrivial"] += 1
        for clause in verdicts[h["id"]]:
            v.violation({"clause": clause}, "%s: handled %s stuck %s (scripts %s)" % (clause, h["handled"], h["stuck"], meta["scripts"]),
                        {"scripts": meta["scripts"], "path": meta["path"], "history": h})
        if not verdicts[h["id"]] and len(h["handled"]) >= 3:
            v.sample({"scripts": SCRIPTS[meta["scripts"]], "steps": [a["n"] + str(a.get("p", a.get("d", ""))) for a in meta["path"]], "handled": h["handled"]}, cap=2)
    v.cov["exhaustive"] = not quick
    v.cov["rule"] = ("model: two posting threads with scripts of 2-3 post_msg calls (types 5/10/20, a registered and a late-registered destination), "
                     "all interleavings of the five steps of post_msg with registration, agent loop iterations, clean shutdown and loop exit; every "
                     "explored transition (quick: a seeded sample of 550 covering paths per script set), plus 120 (quick) / 1200 random walks of 40 steps per "
                     "script set, half of them letting a backlog build up before the agent consumes it, replayed with real threads advanced step by "
                     "step, full projection comparison (thread positions, known destinations, deferred list, queue order, handled, shutdown flags); "
                     "histories judged by TLC; non-trivial = at least two messages handled")
    v.cov["trusted_base"] = ["TLC", "vlib/agentrt.py", "vlib/stepthreads.py (parks real threads at wrapped callables)"]
    v.assumptions = ["the counter increment and PriorityQueue.put of post_msg form one step (CPython does not switch threads inside `x += 1` on an "
                     "attribute followed by a call holding the queue mutex long enough to matter: the queue order is decided under the mutex)"]
    return v.finish()


def replay(path):
    d0 = json.load(open(path))
    sc = SCRIPTS[d0["replay"]["scripts"]]
    d = Driver(sc)
    try:
        for a in d0["replay"]["path"]:
            d.apply(a)
        d.settle()
        h = d.history(0)
        print(json.dumps(h))
        return 1 if h["stuck"] or (h["settled"] and len(h["handled"]) != len(h["msgs"])) else 0
    finally:
        d.close()
