"""C15 - everything sent between agents survives the wire and process spawn.
Objects are collected from REAL executions on TLC-generated DCOPs: every message the algorithms exchange (simrt runs of all
shipped algorithms), every orchestration / discovery / replication / repair message of whole resilient runs (orchrt),
computation definitions of the four graph models, and agent definitions.  Each is passed through pyDCOP's wire format
exactly as HttpCommunicationLayer.send_msg / MPCHttpHandler.do_POST do (simple_repr -> json.dumps -> json.loads -> from_repr)
or through pickle (AgentDef, as run_local_process_dcop does); the observation of the object (Wire.tla: a set of facts) before
and after is judged equal by TLC (Judge_C15)."""
import json, pickle, random, importlib, itertools, collections, inspect, pkgutil
import numpy as np
from ..common import Verdict, seed, MachineryError
from .. import algotrace as AT, callcheck as CC
from ..judge import judge
from ..simrt import World, build_dcop
from pydcop.utils.simple_repr import simple_repr, from_repr
from pydcop.dcop.objects import Variable, AgentDef
from pydcop.algorithms import AlgorithmDef, ComputationDef, load_algorithm_module
from pydcop.infrastructure.computations import Message

ALGOS = [("dpop", {}), ("syncbb", {}), ("mgm", {"stop_cycle": 3}), ("mgm2", {"stop_cycle": 3}), ("dsa", {"stop_cycle": 3}), ("adsa", {}),
         ("dsatuto", {}), ("dba", {}), ("gdba", {}), ("maxsum", {}), ("amaxsum", {})]
GRAPHS = ["constraints_hypergraph", "factor_graph", "pseudotree", "ordered_graph"]


def facts(x, path="", out=None, depth=0, seen=None):
    """observation of an object as "path=value" facts: public and private fields, recursively; relations by their values"""
    out = [] if out is None else out
    seen = seen if seen is not None else set()
    if depth > 9:
        return out
    if isinstance(x, (np.integer, np.floating, np.str_, np.bool_)):
        x = x.item()           # (numpy scalars are observed as the Python values they stand for)
    if isinstance(x, bool) or x is None or isinstance(x, str):
        out.append("%s=%s:%r" % (path, type(x).__name__, x))
    elif isinstance(x, (int, float)):
        out.append("%s=num:%r" % (path, float(x)))       # 2 and 2.0 are the same cost / value
    elif isinstance(x, np.ndarray):
        out.append("%s=array:%r" % (path, x.tolist()))
    elif isinstance(x, dict):
        out.append("%s#keys=%r" % (path, sorted(map(repr, x))))
        for k, v in x.items():
            facts(v, "%s[%r]" % (path, k), out, depth + 1, seen)
    elif isinstance(x, (set, frozenset)):
        out.append("%s=set:%r" % (path, sorted(map(repr, x))))
    elif isinstance(x, (list, tuple)):
        out.append("%s#len=%d" % (path, len(x)))
        for i, v in enumerate(x):
            facts(v, "%s[%d]" % (path, i), out, depth + 1, seen)
    elif hasattr(x, "dimensions") and callable(x) and hasattr(x, "name"):
        # a relation: its name, scope and value on every assignment
        dims = list(x.dimensions)
        out.append("%s=relation:%s:%r" % (path, x.name, [v.name for v in dims]))
        for combo in itertools.product(*[list(v.domain.values) for v in dims]):
            try:
                val = x(**{v.name: c for v, c in zip(dims, combo)})
                val = val.item() if hasattr(val, "item") else val
                val = float(val) if isinstance(val, (int, float)) and not isinstance(val, bool) else val
            except Exception as e:
                val = "raised " + type(e).__name__
            out.append("%s(%r)=%r" % (path, combo, val))
        for v in dims:
            facts(v, "%s.dim[%s]" % (path, v.name), out, depth + 1, seen)
    elif isinstance(x, Variable):
        out.append("%s=variable:%s:%s:%r:%r" % (path, type(x).__name__, x.name, list(x.domain.values), x.initial_value))
        out.append("%s.domain=%s:%s" % (path, x.domain.name, x.domain.type))
        for val in x.domain.values:
            try:
                c = float(x.cost_for_val(val))
            except Exception as e:
                c = "raised " + type(e).__name__
            out.append("%s.cost(%r)=%r" % (path, val, c))
    elif isinstance(x, AgentDef):
        out.append("%s=agent:%s" % (path, x.name))
        for other in ("a1", "a2", "a3", "zz", x.name):
            try:
                out.append("%s.route(%s)=%r" % (path, other, x.route(other)))
            except Exception as e:
                out.append("%s.route(%s)=raised %s" % (path, other, type(e).__name__))
        for c in ("v0", "v1", "c0", "zz"):
            out.append("%s.hosting(%s)=%r" % (path, c, x.hosting_cost(c)))
        facts(x.extra_attr(), path + ".attrs", out, depth + 1, seen)
        try:
            out.append("%s.defaults=%r:%r" % (path, x.default_route, x.default_hosting_cost))
        except Exception as e:
            out.append("%s.defaults=raised %s" % (path, type(e).__name__))
    elif hasattr(x, "__dict__") or hasattr(x, "__slots__"):
        if id(x) in seen:
            out.append("%s=<again %s>" % (path, type(x).__name__))
            return out
        seen.add(id(x))
        out.append("%s=object:%s.%s" % (path, type(x).__module__, type(x).__qualname__))
        d = dict(getattr(x, "__dict__", {}))
        for k in sorted(d):
            if k in ("logger", "_logger") or callable(d[k]) and not hasattr(d[k], "dimensions"):
                continue
            facts(d[k], "%s.%s" % (path, k), out, depth + 1, seen)
        # accessors of computation nodes that are derived from the links
        for acc in ("get_next", "get_previous"):
            if hasattr(x, acc):
                out.append("%s.%s()=%r" % (path, acc, getattr(x, acc)()))
    else:
        out.append("%s=%s" % (path, type(x).__name__))
    return out


def through_wire(x):
    return from_repr(json.loads(json.dumps(simple_repr(x))))


def record(hid, kind, x, how=through_wire):
    before = facts(x)
    try:
        y = how(x)
        after, exc = facts(y), ""
    except Exception as e:
        after, exc = [], "%s: %s" % (type(e).__name__, str(e)[:120])
    return {"id": hid, "kind": kind, "before": before, "after": after, "exc": exc}


def all_message_types():
    """names of every Message subclass / message_type() class of the package (inventory)"""
    import pydcop
    names = set()
    for m in pkgutil.walk_packages(pydcop.__path__, "pydcop."):
        if any(s in m.name for s in (".commands", ".tests", "ui", "version")):
            continue
        try:
            mod = importlib.import_module(m.name)
        except Exception:
            continue
        for n, o in vars(mod).items():
            if inspect.isclass(o) and issubclass(o, Message) and o is not Message and o.__module__ == mod.__name__:
                names.add("%s.%s" % (mod.__name__.replace("pydcop.", ""), n))
    return names


def message_instances():
    """[(module.Class, instance)] for every message class of the package that can be built from synthetic field values"""
    import pydcop
    out, seen_cls = [], set()
    for m in sorted(pkgutil.walk_packages(pydcop.__path__, "pydcop."), key=lambda m: m.name):
        if any(s in m.name for s in (".commands", ".tests", "ui", "version")):
            continue
        try:
            mod = importlib.import_module(m.name)
        except Exception:
            continue
        for n, o in sorted(vars(mod).items()):
            if not (inspect.isclass(o) and issubclass(o, Message) and o is not Message) or id(o) in seen_cls:
                continue
            key = "%s.%s" % (mod.__name__.replace("pydcop.", ""), n)
            fields = None
            for cell in (getattr(o.__init__, "__closure__", None) or ()):
                try:
                    c = cell.cell_contents
                except ValueError:
                    continue
                if isinstance(c, list) and all(isinstance(x, str) for x in c):
                    fields = c
            if fields is None and o.__module__ != mod.__name__:
                continue                            # an ordinary class imported from elsewhere
            seen_cls.add(id(o))
            try:
                if fields is not None:              # a message_type() class
                    inst = o(**{f: "val_%s_%d" % (f, i) if i % 2 == 0 else i + 1 for i, f in enumerate(fields)})
                else:
                    params = [p for p in inspect.signature(o.__init__).parameters.values() if p.name != "self"]
                    if any(p.kind in (p.VAR_POSITIONAL, p.VAR_KEYWORD) for p in params):
                        continue
                    inst = o(*[(i + 1) if p.default is inspect.Parameter.empty else p.default for i, p in enumerate(params)])
                simple_repr(inst)
            except Exception:
                continue                            # needs structured arguments: covered by the messages of real runs
            out.append((key, inst))
    return out


def run(tier):
    quick = tier == "quick"
    v = Verdict("C15", tier, "exploration")
    r = random.Random(seed() + 15)
    insts, gres = AT.gen_instances(["pair", "path3", "triangle", "tern", "isolated", "unarypair", "star4", "fork3"], [0, 1, 3, -2], vcalpha=[0, 2],
                                   n=1 if quick else 3, seed=seed() + 15, modes=("min", "max"), with_init=True)
    v.add_tlc(gres, "DCOP instances (Gen_Dcop)")
    recs, meta, seen_types = [], {}, collections.Counter()

    def add(kind, x, how=through_wire, **m):
        rec = record(len(recs), kind, x, how)
        meta[rec["id"]] = dict(m, kind=kind)
        recs.append(rec)

    # (a) computation definitions of the four graph models
    for inst in insts:
        for graph in GRAPHS:
            dcop, doms = build_dcop(inst)
            gm = importlib.import_module("pydcop.computations_graph." + graph)
            cg = gm.build_computation_graph(dcop)
            algo = {"constraints_hypergraph": "dsa", "factor_graph": "maxsum", "pseudotree": "dpop", "ordered_graph": "syncbb"}[graph]
            algo_def = AlgorithmDef.build_with_default_param(algo, {}, mode=dcop.objective)
            for node in cg.nodes:
                add("computation_def:" + graph, ComputationDef(node, algo_def), shape=inst["shape"], graph=graph, node=node.name, inst=inst)
    # (b) every message exchanged by every algorithm (collected from real executions)
    per_type = collections.Counter()
    for inst in insts:
        for algo, params in ALGOS:
            try:
                w = World(inst, algo, params, seed=r.randrange(10 ** 6))
            except Exception:
                continue
            captured = []
            orig = w._sender

            def sender(src, dst, msg, prio=None, on_error=None, _o=orig, _c=captured):
                _c.append(msg)
                return _o(src, dst, msg, prio, on_error)
            for c in w.comps.values():
                c._msg_sender = sender
            w.run_random(random.Random(1), max_steps=150 if quick else 400, timers=(algo == "adsa"))
            for msg in captured:
                key = "%s.%s" % (type(msg).__module__.replace("pydcop.", ""), type(msg).__name__)
                seen_types[key] += 1
                if per_type[(key, inst["shape"])] < (2 if quick else 6):
                    per_type[(key, inst["shape"])] += 1
                    add("message:" + key, msg, shape=inst["shape"], algo=algo, inst=inst)
    # (c) orchestration, discovery, replication and repair messages of a whole resilient run
    from .C25 import deployment
    from ..orchrt import OrchWorld
    import contextlib, io
    for inst in [i for i in insts if len(i["vars"]) >= 3][:2 if quick else 6]:
        deps, dres = CC.generate("Gen_C25", consts=dict(NAg=4, NComp=len(inst["vars"]), NCases=1, Caps={1000}, Ks={1, 2}), workers=1, seed=seed() + 151)
        dcop, cg, algo_def, dist, names, comps = deployment(inst, deps[0], algo="dsa")
        w = OrchWorld(dcop, algo_def, cg, dist, infinity=10000, replication="dist_ucs_hostingcosts", seed=r.randrange(10 ** 6))
        captured = []
        for name, ag in w.agents.items():
            o = ag._comm.send_msg

            def send_msg(src_agent, dest_agent, msg, on_error=None, from_retry=False, _o=o):
                captured.append(msg.msg)
                return _o(src_agent, dest_agent, msg, on_error=on_error, from_retry=from_retry) if from_retry else _o(src_agent, dest_agent, msg, on_error=on_error)
            ag._comm.send_msg = send_msg
        w.boot_all(order=r)
        with contextlib.redirect_stdout(io.StringIO()):
            if not (w.deploy() or w.replicate(deps[0]["k"])):
                w.run_algo(steps=60)
                w.remove_agents((names[0],))
        for msg in captured:
            key = "%s.%s" % (type(msg).__module__.replace("pydcop.", ""), type(msg).__name__)
            seen_types[key] += 1
            def _plain(a):
                return isinstance(a, (str, int, type(None))) or (isinstance(a, (tuple, list)) and all(_plain(x) for x in a))
            if hasattr(msg, "address") and not _plain(msg.address):
                # in-process addresses are the transport objects themselves (also inside a list of addresses); over HTTP an
                # address is (ip, port): the object is replaced by such a pair before the message goes through the wire
                import copy
                msg = copy.copy(msg)
                msg.address = [("127.0.0.1", 9001 + i) if not _plain(a) else a for i, a in enumerate(msg.address)] \
                    if isinstance(msg.address, list) else ("127.0.0.1", 9001)
            if per_type[(key, "infra")] < (3 if quick else 10):
                per_type[(key, "infra")] += 1
                add("message:" + key, msg, shape=inst["shape"], algo="infrastructure", inst=inst)
    # (d) agent definitions through pickle (run_local_process_dcop hands them to the agents' processes)
    for i, kw in enumerate([dict(), dict(capacity=100), dict(default_route=3, routes={"a2": 7}), dict(default_hosting_cost=2, hosting_costs={"v0": 9}),
                            dict(capacity=5, foo="bar", default_route=2, routes={"a1": 4, "a3": 1}, default_hosting_cost=1, hosting_costs={"v1": 0, "c0": 3})]):
        a = AgentDef("a%d" % (i % 3 + 1), **kw)
        add("agentdef:pickle", a, how=lambda x: pickle.loads(pickle.dumps(x)), kw=repr(kw))
    # (e) computation definitions over LARGE domains (more than 10 values, not in sorted order): positional encodings of
    # tuples with two-digit positions are only reached there
    for nvals, graph in ((11, "constraints_hypergraph"), (12, "factor_graph"), (13, "pseudotree")):
        vals = [(7 * i + 3) % nvals for i in range(nvals)]
        tab = [((3 * a + 5 * b) % 17) - 4 for a in range(nvals) for b in range(3)]
        big = {"vars": ["v0", "v1"], "dsize": {"v0": nvals, "v1": 3}, "mode": "min", "shape": "bigdomain%d" % nvals,
               "doms": {"v0": vals, "v1": ["R", "G", "B"]},
               "cons": [{"name": "c0", "scope": ["v0", "v1"], "tab": tab}], "varcost": {"v0": [i % 4 for i in range(nvals)], "v1": [0, 0, 0]},
               "init": {"v0": 2, "v1": 0}}
        dcop, _ = build_dcop(big)
        gm = importlib.import_module("pydcop.computations_graph." + graph)
        cg = gm.build_computation_graph(dcop)
        algo = {"constraints_hypergraph": "dsa", "factor_graph": "maxsum", "pseudotree": "dpop"}[graph]
        algo_def = AlgorithmDef.build_with_default_param(algo, {}, mode="min")
        for node in cg.nodes:
            add("computation_def:" + graph, ComputationDef(node, algo_def), shape=big["shape"], graph=graph, node=node.name, inst=None)
    # (f) inventory pass: one instance of EVERY message class of the package (message_type() classes and Message subclasses whose
    # constructor arguments are plain), decoded one after the other in a FRESH process per order (declaration order, reverse,
    # seeded shuffles): two classes may declare the same message type name with different fields (e.g. 'stop'), and decoding is
    # stateful if anything is memoised
    import subprocess, sys, os
    from ..common import scratch, VERIF
    procs = []
    for order in ["forward", "reverse"] + ["shuffle%d" % (seed() * 10 + i) for i in range(2 if quick else 8)]:
        of = scratch() / ("c15_inv_%s.json" % order)
        procs.append((order, of, subprocess.Popen([sys.executable, "-m", "vlib.props.C15_worker", order, str(of)], cwd=str(VERIF),
                                                  env=dict(os.environ), stdout=subprocess.DEVNULL, stderr=subprocess.PIPE)))
    for order, of, p in procs:
        _, err = p.communicate(timeout=900)
        if p.returncode != 0 or not of.exists():
            raise MachineryError("C15 inventory worker failed (%s): %s" % (order, err.decode()[-800:]))
        for rec in json.load(open(of)):
            rec["id"] = len(recs)
            meta[rec["id"]] = {"kind": rec["kind"], "shape": "-", "algo": "inventory", "order": rec.pop("order")}
            recs.append(rec)
    verdicts, jres = judge("Judge_C15", recs, chunk=1500, heap="6g")
    v.add_tlc(jres, "%d objects judged before / after the wire (Judge_C15 / Wire.tla)" % len(recs))
    kinds = collections.Counter()
    for rec in recs:
        m = meta[rec["id"]]
        v.cov["evaluations"] += 1
        v.cov["traces_validated_against_impl"] += 1
        kinds[m["kind"].split(":")[0]] += 1
        if len(rec["before"]) > 3:
            v.cov["distinct_nontrivial"] += 1
        bad = verdicts[rec["id"]]
        if bad:
            first = sorted(bad)[0]
            what = first[1].split("=")[0] if first[0] != "round_trip_raised" else first[1].split(":")[0]
            # the path of the first lost / invented fact, without indexes and keys, identifies the field
            import re
            field = re.sub(r"\[[^\]]*\]|\([^)]*\)", "", what)[:60]
            v.violation({"kind": m["kind"], "symptom": first[0], "field": field},
                        "%s %s: %s (%d facts differ)" % (m["kind"], first[0], first[1][:160], len(bad)),
                        {"meta": {k: x for k, x in m.items() if k != "inst"}, "inst": m.get("inst"), "differences": sorted(bad)[:12]})
        elif len(rec["before"]) > 12 and m["kind"].startswith("message"):
            v.sample({"kind": m["kind"], "facts": rec["before"][:8]}, cap=3)
    inventory = all_message_types()
    covered = {k for k in seen_types}
    v.cov["objects_by_kind"] = dict(kinds)
    v.cov["message_types_exercised"] = dict(seen_types)
    v.cov["message_types_not_exercised"] = sorted(inventory - covered)
    v.cov["exhaustive"] = False
    v.cov["rule"] = ("computation definitions of every node of the four graph models for TLC-drawn DCOPs (8 shapes, own-value costs, initial values); a sample of the "
                     "messages of each type sent in real executions of 11 algorithms and in whole resilient orchestrated runs (deploy, replication, removal, repair); "
                     "agent definitions through pickle and the wire; computation definitions over domains of 11-13 values; one synthetic instance of "
                     "every message class of the package decoded in sequence in both orders; non-trivial = more than 3 observed facts")
    v.cov["trusted_base"] = ["TLC (set equality of the observed facts)", "the observation function facts() of vlib/props/C15.py"]
    v.assumptions = ["the HTTP transport is exercised through its encode / decode functions, not through sockets"]
    return v.finish()


def replay(path):
    d = json.load(open(path))
    print(json.dumps(d["replay"]["differences"], indent=1)[:2000])
    return 1
