"""Executes the C29 cases on the real batch functions (one process per PYTHONHASHSEED).
For every case: build the yaml-shaped input in a seed-dependent insertion order, regularize, expand, render."""
import json, sys, random
from ..common import REPO  # noqa: F401
from pydcop.commands.batch import parameters_configuration, regularize_parameters, build_option_for_parameters


def raw_input(P, rnd):
    """the dict as a YAML file would give it: lists (numbers as numbers where the text is a canonical number), scalars, dicts"""
    def val(s):
        if s.isdigit():
            return int(s)
        return s
    names = list(P)
    rnd.shuffle(names)
    d = {}
    for n in names:
        p = P[n]
        if p["kind"] == "vals":
            vs = [val(s) for s in p["vals"]]
            if p["form"] == "scalar":
                d[n] = vs[0]
            else:
                rnd.shuffle(vs)
                d[n] = vs
        else:
            d[n] = {s: [val(x) for x in xs] for s, xs in p["sub"].items()}
    return d


def norm(combo):
    return json.dumps(combo, sort_keys=True)


def execute(case, n, hs):
    P = case["def"]
    rnd = random.Random(n)
    raw = raw_input(P, rnd)
    try:
        reg = regularize_parameters(raw)
        seq = parameters_configuration(reg)
        seq2 = parameters_configuration(regularize_parameters(raw_input(P, random.Random(n))))
    except Exception as e:
        return "raised %s: %s" % (type(e).__name__, str(e)[:100]), None
    got = [norm(c) for c in seq]
    want = {norm(e["combo"]): e["tokens"] for e in case["combos"]}
    if len(set(got)) != len(got):
        return "a combination is listed twice (%d entries, %d distinct)" % (len(got), len(set(got))), None
    if set(got) != set(want):
        missing = sorted(set(want) - set(got))[:2]
        extra = sorted(set(got) - set(want))[:2]
        return "expansion differs from the cartesian product: %d entries, expected %d; missing %s, unexpected %s" % (
            len(got), len(want), missing, extra), None
    if [norm(c) for c in seq2] != got:
        return "two expansions of the same definition give different orders", None
    for c in seq:
        s = build_option_for_parameters(c)
        toks = s.split(" ")
        pairs = sorted(tuple(toks[i:i + 2]) for i in range(0, len(toks), 2))
        exp = sorted(("--" + t[0], t[1]) for t in want[norm(c)])
        if pairs != exp:
            return "options for %s rendered as %r, expected the tokens %s" % (norm(c), s, exp), None
    return None, got


def main():
    cases = json.load(open(sys.argv[1]))
    hs = sys.argv[3]
    out = []
    for n, case in enumerate(cases):
        msg, seq = execute(case, n, hs)
        out.append([msg, seq])
    json.dump(out, open(sys.argv[2], "w"))


if __name__ == "__main__":
    main()
