"""C23 - distribution methods return valid mappings or declare impossibility.
TLC draws the DCOP (Gen_Dcop) and the agents (Gen_C25: capacities from too small to ample, hosting costs including the
default 0, routes); for each graph model the methods that support it are called through their API (and through the
distribute command for a subset); the returned mapping or the exception class is judged by TLC (Judge_C23 /
Distribution.tla).  The ILP methods solve with PuLP's bundled CBC (glpsol is not installed): the module-level name
GLPK_CMD is replaced from the harness, the ILP formulations are untouched."""
import json, random, importlib, math, collections
from ..common import Verdict, seed, MachineryError
from .. import algotrace as AT, callcheck as CC
from ..judge import judge
from ..simrt import build_dcop
from pydcop.dcop.objects import AgentDef
from pydcop.algorithms import load_algorithm_module
from pydcop.distribution.objects import DistributionHints, ImpossibleDistributionException

SHAPES = ["pair", "path3", "triangle", "tern", "isolated", "star4", "unarypair", "twocomp"]
# method -> graph models it is given (as the distribute command / the algorithms use them)
METHODS = {"oneagent": ["constraints_hypergraph", "factor_graph", "pseudotree"],
           "adhoc": ["constraints_hypergraph", "factor_graph"],
           "gh_cgdp": ["constraints_hypergraph", "factor_graph"],
           "heur_comhost": ["constraints_hypergraph", "factor_graph"],
           "ilp_compref": ["constraints_hypergraph", "factor_graph"],
           "oilp_cgdp": ["constraints_hypergraph", "factor_graph"],
           "ilp_fgdp": ["factor_graph"]}
ALGO_FOR = {"constraints_hypergraph": "dsa", "factor_graph": "maxsum", "pseudotree": "dpop"}
CAPACITY_AWARE = {"adhoc", "gh_cgdp", "heur_comhost", "ilp_compref", "oilp_cgdp", "ilp_fgdp"}


def cbc_shim(mod):
    import pulp
    if hasattr(mod, "GLPK_CMD"):
        mod.GLPK_CMD = lambda *a, **k: pulp.PULP_CBC_CMD(msg=False, timeLimit=20)


def problem(inst, dep, graph, hints_on, explicit_zero=False):
    dcop, doms = build_dcop(inst)
    gm = importlib.import_module("pydcop.computations_graph." + graph)
    cg = gm.build_computation_graph(dcop)
    comps = sorted(n.name for n in cg.nodes)
    names = ["a%d" % i for i in range(1, dep["nag"] + 1)]
    agents = []
    for i, a in enumerate(names):
        routes = {names[j]: dep["route"][i][j] for j in range(len(names)) if j != i}
        hosting = {comps[c]: dep["hosting"][i][c % len(dep["hosting"][i])] for c in range(len(comps))
                   if dep["hosting"][i][c % len(dep["hosting"][i])] or (explicit_zero and (i + c) % 3 == 0)}
        # the default hosting cost is 0 (the library's default) for half of the deployments
        agents.append(AgentDef(a, capacity=dep["cap"][i], default_route=1, routes=routes, default_hosting_cost=0 if dep["k"] == 1 else 4, hosting_costs=hosting))
    algo = load_algorithm_module(ALGO_FOR[graph])
    try:
        algo.computation_memory(cg.nodes[0])
        mem, load = algo.computation_memory, algo.communication_load
    except NotImplementedError:
        mem, load = (lambda *a, **k: 1), (lambda *a, **k: 1)
    must = {}
    if hints_on:
        must = {names[dep["place"][0] - 1]: [comps[0]]}
    fp = {c: mem(cg.computation(c)) for c in comps}
    return dcop, cg, agents, names, comps, mem, load, must, fp


def call(method, cg, agents, must, mem, load):
    mod = importlib.import_module("pydcop.distribution." + method)
    cbc_shim(mod)
    hints = DistributionHints(must_host={a: list(cs) for a, cs in must.items()}) if must else None
    try:
        kw = dict(hints=hints, computation_memory=mem, communication_load=load)
        d = mod.distribute(cg, agents, **kw)
        return "mapping", {a: list(d.computations_hosted(a)) for a in d.agents}
    except ImpossibleDistributionException:
        return "impossible", {}
    except TimeoutError:
        return "timeout", {}
    except Exception as e:
        return type(e).__name__, {"_msg": [str(e)[:100]]}


def run(tier):
    quick = tier == "quick"
    v = Verdict("C23", tier, "model_checking")
    r = random.Random(seed() + 23)
    insts, gres = AT.gen_instances(SHAPES, [0, 1, 3], n=1, seed=seed() + 23, modes=("min",))
    v.add_tlc(gres, "DCOP instances (Gen_Dcop)")
    recs, meta = [], {}
    counts = collections.Counter()
    for inst in insts:
        for nag in ((2, 3) if quick else (1, 2, 3, 4)):
            deps, dres = CC.generate("Gen_C25", consts=dict(NAg=nag, NComp=8, NCases=2 if quick else 4, Caps={2, 5, 12, 40, 1000}, Ks={1, 2}),
                                     workers=2, seed=seed() + nag * 10 + len(inst["vars"]))
            v.add_tlc(dres, "agent sets (Gen_C25, %d agents)" % nag)
            for dep in deps:
                for graph in ("constraints_hypergraph", "factor_graph", "pseudotree"):
                    for hints_on in (False, True):
                        dcop, cg, agents, names, comps, mem, load, must, fp = problem(inst, dep, graph, hints_on)
                        scale = 1 if all(float(x) == int(x) for x in fp.values()) else 1000
                        for method, graphs in METHODS.items():
                            if graph not in graphs:
                                continue
                            if quick and method in ("ilp_compref", "oilp_cgdp", "ilp_fgdp") and r.random() < 0.6:
                                continue      # (solver start-up dominates: a sample of the ILP calls in the quick tier)
                            outcome, mapping = call(method, cg, agents, must, mem, load)
                            counts[method + ":" + outcome] += 1
                            rec = {"id": len(recs), "comps": comps, "agents": names, "cap": {a: int(dep["cap"][i] * scale) for i, a in enumerate(names)},
                                   "fp": {c: int(math.ceil(float(x) * scale)) for c, x in fp.items()}, "must": must,
                                   "outcome": outcome, "mapping": {a: cs for a, cs in mapping.items() if not a.startswith("_")},
                                   "capacityAware": method in CAPACITY_AWARE}
                            meta[rec["id"]] = {"method": method, "graph": graph, "hints": hints_on, "inst": inst, "dep": dep, "msg": mapping.get("_msg", [""])[0],
                                               "default_hosting_cost_zero": dep["k"] == 1}
                            recs.append(rec)
    verdicts, jres = judge("Judge_C23", recs, chunk=3000)
    v.add_tlc(jres, "outcome of %d distribution calls judged (Judge_C23 / Distribution.tla)" % len(recs))
    for rec in recs:
        m = meta[rec["id"]]
        v.cov["evaluations"] += 1
        v.cov["traces_validated_against_impl"] += 1
        if rec["outcome"] == "mapping" and len(rec["comps"]) > 1:
            v.cov["distinct_nontrivial"] += 1
        for clause in verdicts[rec["id"]]:
            v.violation({"clause": clause, "method": m["method"], "graph": m["graph"], "hints": m["hints"], "default_hosting_cost_zero": m["default_hosting_cost_zero"]},
                        "%s: %s on %s (%d agents, capacities %s, footprints %s, must %s): %s %s %s" % (
                            clause, m["method"], m["graph"], len(rec["agents"]), rec["cap"], rec["fp"], rec["must"], rec["outcome"], rec["mapping"], m["msg"]),
                        {"inst": m["inst"], "dep": m["dep"], "method": m["method"], "graph": m["graph"], "hints": m["hints"], "outcome": rec})
        if not verdicts[rec["id"]] and rec["outcome"] == "mapping" and len(rec["comps"]) >= 4 and rec["capacityAware"]:
            v.sample({"method": m["method"], "graph": m["graph"], "capacities": rec["cap"], "footprints": rec["fp"], "mapping": rec["mapping"]}, cap=3)
    v.cov["outcomes_by_method"] = dict(counts)
    v.cov["exhaustive"] = False
    v.cov["rule"] = ("DCOPs over 8 shapes as constraints hyper-graph, factor graph and pseudo-tree; TLC-drawn agent sets (2-3 quick / 1-4 agents; capacities "
                     "{2,5,12,40,1000}; hosting costs {0,3,8} with default 0 or 4; symmetric routes), with and without a must_host hint; each method called "
                     "on the graph models it supports with the algorithm's own footprint / load functions; non-trivial = a mapping of more than one computation")
    v.cov["trusted_base"] = ["TLC (Distribution.tla)", "PuLP's CBC solves the ILP models (glpsol is absent)"]
    v.assumptions = ["SECP-specific methods (gh_secp_*, oilp_secp_*) and ilp_compref_fg are not exercised"]
    return v.finish()


def replay(path):
    d = json.load(open(path))["replay"]
    dcop, cg, agents, names, comps, mem, load, must, fp = problem(d["inst"], d["dep"], d["graph"], d["hints"])
    outcome, mapping = call(d["method"], cg, agents, must, mem, load)
    print(outcome, mapping)
    return 1 if outcome == d["outcome"]["outcome"] else 0
