"""C23 - distribution methods return valid mappings or declare impossibility.
TLC draws the DCOP (Gen_Dcop) and the agents (Gen_C25: capacities from too small to ample, hosting costs including the
default 0, routes); for each graph model the methods that support it are called through their API (and through the
distribute command for a subset); the returned mapping or the exception class is judged by TLC (Judge_C23 /
Distribution.tla).  The ILP methods solve with PuLP's bundled CBC (glpsol is not installed): the module-level name
GLPK_CMD is replaced from the harness, the ILP formulations are untouched."""
import json, random, importlib, math, collections
from ..common import Verdict, seed, MachineryError
from .. import algotrace as AT, callcheck as CC
from ..judge import judge
from ..simrt import build_dcop
from pydcop.dcop.objects import AgentDef
from pydcop.algorithms import load_algorithm_module
from pydcop.distribution.objects import DistributionHints, ImpossibleDistributionException

SHAPES = ["pair", "path3", "triangle", "tern", "isolated", "star4", "unarypair", "twocomp"]
# method -> graph models it is given (as the distribute command / the algorithms use them)
METHODS = {"oneagent": ["constraints_hypergraph", "factor_graph", "pseudotree"],
           "adhoc": ["constraints_hypergraph", "factor_graph"],
           "gh_cgdp": ["constraints_hypergraph", "factor_graph"],
           "heur_comhost": ["constraints_hypergraph", "factor_graph"],
           "ilp_compref": ["constraints_hypergraph", "factor_graph"],
           "oilp_cgdp": ["constraints_hypergraph", "factor_graph"],
           "ilp_fgdp": ["factor_graph"]}
ALGO_FOR = {"constraints_hypergraph": "dsa", "factor_graph": "maxsum", "pseudotree": "dpop"}
CAPACITY_AWARE = {"adhoc", "gh_cgdp", "heur_comhost", "ilp_compref", "oilp_cgdp", "ilp_fgdp"}


def cbc_shim(mod, gives_up=False):
    import pulp
    if hasattr(mod, "GLPK_CMD"):
        if gives_up:
            # what PuLP reports when the solver stops on its limit without any incumbent
            class StoppedWithoutSolution(pulp.LpSolver):
                name = "STOPPED_STUB"

                def available(self):
                    return True

                def actualSolve(self, lp, **kwargs):
                    lp.assignStatus(pulp.LpStatusNotSolved, pulp.LpSolutionNoSolutionFound)
                    return pulp.LpStatusNotSolved
            mod.GLPK_CMD = lambda *a, **k: StoppedWithoutSolution()
        else:
            mod.GLPK_CMD = lambda *a, **k: pulp.PULP_CBC_CMD(msg=False, timeLimit=20)


def problem(inst, dep, graph, hints_on, explicit_zero=False, asym=False):
    dcop, doms = build_dcop(inst)
    gm = importlib.import_module("pydcop.computations_graph." + graph)
    cg = gm.build_computation_graph(dcop)
    comps = sorted(n.name for n in cg.nodes)
    names = ["a%d" % i for i in range(1, dep["nag"] + 1)]
    agents = []
    for i, a in enumerate(names):
        routes = {names[j]: dep["route"][i][j] for j in range(len(names)) if j != i}
        if asym:
            # AgentDef routes are per agent: a -> b and b -> a may differ (the YAML loader never produces that, the API allows it)
            routes = {names[j]: (dep["route"][i][j] if i < j else {1: 5, 2: 1, 5: 2}[dep["route"][i][j]]) for j in range(len(names)) if j != i}
        hosting = {comps[c]: dep["hosting"][i][c % len(dep["hosting"][i])] for c in range(len(comps))
                   if dep["hosting"][i][c % len(dep["hosting"][i])] or (explicit_zero and (i + c) % 3 == 0)}
        # the default hosting cost is 0 (the library's default) for half of the deployments
        agents.append(AgentDef(a, capacity=dep["cap"][i], default_route=1, routes=routes, default_hosting_cost=0 if dep["k"] == 1 else 4, hosting_costs=hosting))
    algo = load_algorithm_module(ALGO_FOR[graph])
    try:
        algo.computation_memory(cg.nodes[0])
        mem, load = algo.computation_memory, algo.communication_load
    except NotImplementedError:
        mem, load = (lambda *a, **k: 1), (lambda *a, **k: 1)
    must = {}
    if hints_on:
        must = {names[dep["place"][0] - 1]: [comps[0]]}
    fp = {c: mem(cg.computation(c)) for c in comps}
    return dcop, cg, agents, names, comps, mem, load, must, fp


def call(method, cg, agents, must, mem, load, gives_up=False):
    mod = importlib.import_module("pydcop.distribution." + method)
    cbc_shim(mod, gives_up)
    hints = DistributionHints(must_host={a: list(cs) for a, cs in must.items()}) if must else None
    try:
        kw = dict(hints=hints, computation_memory=mem, communication_load=load)
        d = mod.distribute(cg, agents, **kw)
        return "mapping", {a: list(d.computations_hosted(a)) for a in d.agents}
    except ImpossibleDistributionException:
        return "impossible", {}
    except TimeoutError:
        return "timeout", {}
    except Exception as e:
        return type(e).__name__, {"_msg": [str(e)[:100]]}


def run(tier):
    quick = tier == "quick"
    v = Verdict("C23", tier, "model_checking")
    r = random.Random(seed() + 23)
    insts, gres = AT.gen_instances(SHAPES, [0, 1, 3], n=1, seed=seed() + 23, modes=("min",))
    v.add_tlc(gres, "DCOP instances (Gen_Dcop)")
    recs, meta = [], {}
    counts = collections.Counter()
    for inst in insts:
        for nag in ((2, 3) if quick else (1, 2, 3, 4)):
            deps, dres = CC.generate("Gen_C25", consts=dict(NAg=nag, NComp=8, NCases=2 if quick else 4, Caps={0, 2, 5, 12, 40, 1000}, Ks={1, 2}),
                                     workers=2, seed=seed() + nag * 10 + len(inst["vars"]))
            v.add_tlc(dres, "agent sets (Gen_C25, %d agents)" % nag)
            for dep in deps:
                for graph in ("constraints_hypergraph", "factor_graph", "pseudotree"):
                    for hints_on in (False, True):
                        dcop, cg, agents, names, comps, mem, load, must, fp = problem(inst, dep, graph, hints_on)
                        scale = 1 if all(float(x) == int(x) for x in fp.values()) else 1000
                        for method, graphs in METHODS.items():
                            if graph not in graphs:
                                continue
                            if quick and method in ("ilp_compref", "oilp_cgdp", "ilp_fgdp") and r.random() < 0.6:
                                continue      # (solver start-up dominates: a sample of the ILP calls in the quick tier)
                            outcome, mapping = call(method, cg, agents, must, mem, load)
                            counts[method + ":" + outcome] += 1
                            rec = {"id": len(recs), "comps": comps, "agents": names, "cap": {a: int(dep["cap"][i] * scale) for i, a in enumerate(names)},
                                   "fp": {c: int(math.ceil(float(x) * scale)) for c, x in fp.items()}, "must": must,
                                   "outcome": outcome, "mapping": {a: cs for a, cs in mapping.items() if not a.startswith("_")},
                                   "capacityAware": method in CAPACITY_AWARE}
                            meta[rec["id"]] = {"method": method, "graph": graph, "hints": hints_on, "inst": inst, "dep": dep, "msg": mapping.get("_msg", [""])[0],
                                               "default_hosting_cost_zero": dep["k"] == 1}
                            recs.append(rec)
    # two more strata, built from the footprints themselves so that the capacities are tight where it matters:
    #  - "pinned": one agent has an EXPLICIT hosting cost 0 for two or three computations (the methods that read 0 as "must host
    #    here" pin them there), default hosting cost 4, and that agent's capacity is just below / exactly / just above their sum;
    #  - "hints": several must_host hints over two agents with capacities that just fit them, adhoc called under several seeds
    #    (it shuffles, and retries when an attempt fails)
    for inst in insts:
        for graph in ("constraints_hypergraph", "factor_graph"):
            base = {"nag": 3, "cap": [1000, 1000, 1000], "route": [[1, 2, 5], [2, 1, 1], [5, 1, 1]], "hosting": [[0], [0], [0]], "place": [1], "k": 2}
            dcop, cg, _, names, comps, mem, load, _, fp = problem(inst, base, graph, False)
            if len(comps) < 3:
                continue
            scale = 1 if all(float(x) == int(x) for x in fp.values()) else 1000
            total = sum(float(x) for x in fp.values())
            for npin in (2, 3):
                pinned = comps[:npin]
                need = sum(float(fp[c]) for c in pinned)
                for slack in (-0.5, 0, min(float(x) for x in fp.values())):
                    for others in (total, max(float(x) for x in fp.values())):
                        caps = [need + slack, others, others]
                        agents = [AgentDef(a, capacity=caps[i], default_route=1, routes={b: base["route"][i][j] for j, b in enumerate(names) if b != a},
                                           default_hosting_cost=4, hosting_costs=({c: 0 for c in pinned} if i == 0 else {comps[-1]: 3}))
                                  for i, a in enumerate(names)]
                        for method, graphs in METHODS.items():
                            if graph not in graphs or method == "oneagent":
                                continue
                            if quick and method in ("ilp_compref", "oilp_cgdp", "ilp_fgdp") and r.random() < 0.75:
                                continue
                            outcome, mapping = call(method, cg, agents, {}, mem, load)
                            counts[method + ":" + outcome] += 1
                            rec = {"id": len(recs), "comps": comps, "agents": names, "cap": {a: int(math.floor(caps[i] * scale)) for i, a in enumerate(names)},
                                   "fp": {c: int(math.ceil(float(x) * scale)) for c, x in fp.items()}, "must": {},
                                   "outcome": outcome, "mapping": {a: cs for a, cs in mapping.items() if not a.startswith("_")}, "capacityAware": True}
                            meta[rec["id"]] = {"method": method, "graph": graph, "hints": False, "inst": inst, "dep": {"pinned": pinned, "caps": caps},
                                               "msg": mapping.get("_msg", [""])[0], "default_hosting_cost_zero": False, "stratum": "pinned"}
                            recs.append(rec)
            must = {names[0]: comps[:2], names[1]: [comps[2]]}
            for slack in (0, min(float(x) for x in fp.values())):
                caps = [sum(float(fp[c]) for c in comps[:2]) + slack, float(fp[comps[2]]) + slack, total]
                agents = [AgentDef(a, capacity=caps[i], default_route=1, routes={}, default_hosting_cost=0) for i, a in enumerate(names)]
                for sd in range(4 if quick else 12):
                    random.seed(1000 * sd + len(recs))
                    outcome, mapping = call("adhoc", cg, agents, must, mem, load)
                    counts["adhoc:" + outcome] += 1
                    rec = {"id": len(recs), "comps": comps, "agents": names, "cap": {a: int(math.floor(caps[i] * scale)) for i, a in enumerate(names)},
                           "fp": {c: int(math.ceil(float(x) * scale)) for c, x in fp.items()}, "must": must,
                           "outcome": outcome, "mapping": {a: cs for a, cs in mapping.items() if not a.startswith("_")}, "capacityAware": True}
                    meta[rec["id"]] = {"method": "adhoc", "graph": graph, "hints": True, "inst": inst, "dep": {"must": must, "caps": caps, "random_seed": 1000 * sd + len(recs)},
                                       "msg": mapping.get("_msg", [""])[0], "default_hosting_cost_zero": True, "stratum": "hints"}
                    recs.append(rec)
    #  - "solver gives up": the ILP methods with a solver that stops without any solution (PuLP status 'not solved'): the outcome must
    #    still be a valid mapping or a declared impossibility / timeout
    for inst in insts[:4 if quick else len(insts)]:
        for method, graph in (("oilp_cgdp", "constraints_hypergraph"), ("ilp_compref", "constraints_hypergraph"), ("ilp_fgdp", "factor_graph"), ("oilp_cgdp", "factor_graph")):
            base = {"nag": 2, "cap": [1000, 1000], "route": [[1, 2], [2, 1]], "hosting": [[3], [8]], "place": [1], "k": 2}
            dcop, cg, agents, names, comps, mem, load, _, fp = problem(inst, base, graph, False)
            scale = 1 if all(float(x) == int(x) for x in fp.values()) else 1000
            outcome, mapping = call(method, cg, agents, {}, mem, load, gives_up=True)
            counts[method + ":gives_up:" + outcome] += 1
            rec = {"id": len(recs), "comps": comps, "agents": names, "cap": {a: 1000 * scale for a in names},
                   "fp": {c: int(math.ceil(float(x) * scale)) for c, x in fp.items()}, "must": {}, "outcome": outcome,
                   "mapping": {a: cs for a, cs in mapping.items() if not a.startswith("_")}, "capacityAware": True}
            meta[rec["id"]] = {"method": method, "graph": graph, "hints": False, "inst": inst, "dep": {"solver": "stops without solution"},
                               "msg": mapping.get("_msg", [""])[0], "default_hosting_cost_zero": False, "stratum": "solver_gives_up"}
            recs.append(rec)
    #  - "packing": synthetic, heterogeneous footprints (1, 1, 6, 3, 3, ...: a distribution method takes the footprint function
    #    as an argument) on two agents whose capacities only fit well-chosen halves, one small must_host computation on each:
    #    attempts fail and are retried depending on the shuffle
    for inst in insts:
        for graph in ("constraints_hypergraph", "factor_graph"):
            base = {"nag": 2, "cap": [1000, 1000], "route": [[1, 2], [2, 1]], "hosting": [[0], [0]], "place": [1], "k": 1}
            dcop, cg, _, names, comps, mem0, load, _, _ = problem(inst, base, graph, False)
            if len(comps) < 5:
                continue
            pattern = [1, 1, 6, 3, 3, 2, 4, 1]
            fpx = {c: pattern[i % len(pattern)] for i, c in enumerate(comps)}
            memx = (lambda node, *a, _f=fpx, **k: _f[node.name])
            total = sum(fpx.values())
            must = {names[0]: [comps[0]], names[1]: [comps[1]]}
            for caps in ([-(-total // 2), -(-total // 2)], [-(-total // 2) + 1, total // 2], [total // 2 + 2, total // 2 + 1]):
                agents = [AgentDef(a, capacity=caps[i], default_route=1, routes={}, default_hosting_cost=0) for i, a in enumerate(names)]
                for method, sds in (("adhoc", 8 if quick else 40), ("gh_cgdp", 2), ("heur_comhost", 1)):
                    if graph not in METHODS[method]:
                        continue
                    for sd in range(sds):
                        random.seed(77 * sd + len(recs))
                        hm = must if method == "adhoc" else {}
                        outcome, mapping = call(method, cg, agents, hm, memx, load)
                        counts[method + ":" + outcome] += 1
                        rec = {"id": len(recs), "comps": comps, "agents": names, "cap": {a: int(caps[i]) for i, a in enumerate(names)},
                               "fp": dict(fpx), "must": hm, "outcome": outcome,
                               "mapping": {a: cs for a, cs in mapping.items() if not a.startswith("_")}, "capacityAware": True}
                        meta[rec["id"]] = {"method": method, "graph": graph, "hints": bool(hm), "inst": inst, "dep": {"must": hm, "caps": caps, "footprints": fpx},
                                           "msg": mapping.get("_msg", [""])[0], "default_hosting_cost_zero": True, "stratum": "packing"}
                        recs.append(rec)
    verdicts, jres = judge("Judge_C23", recs, chunk=3000)
    v.add_tlc(jres, "outcome of %d distribution calls judged (Judge_C23 / Distribution.tla)" % len(recs))
    for rec in recs:
        m = meta[rec["id"]]
        v.cov["evaluations"] += 1
        v.cov["traces_validated_against_impl"] += 1
        if rec["outcome"] == "mapping" and len(rec["comps"]) > 1:
            v.cov["distinct_nontrivial"] += 1
        for clause in verdicts[rec["id"]]:
            v.violation({"clause": clause, "method": m["method"], "graph": m["graph"], "hints": m["hints"], "default_hosting_cost_zero": m["default_hosting_cost_zero"]},
                        "%s: %s on %s (%d agents, capacities %s, footprints %s, must %s): %s %s %s" % (
                            clause, m["method"], m["graph"], len(rec["agents"]), rec["cap"], rec["fp"], rec["must"], rec["outcome"], rec["mapping"], m["msg"]),
                        {"inst": m["inst"], "dep": m["dep"], "method": m["method"], "graph": m["graph"], "hints": m["hints"], "outcome": rec})
        if not verdicts[rec["id"]] and rec["outcome"] == "mapping" and len(rec["comps"]) >= 4 and rec["capacityAware"]:
            v.sample({"method": m["method"], "graph": m["graph"], "capacities": rec["cap"], "footprints": rec["fp"], "mapping": rec["mapping"]}, cap=3)
    v.cov["outcomes_by_method"] = dict(counts)
    v.cov["exhaustive"] = False
    v.cov["rule"] = ("DCOPs over 8 shapes as constraints hyper-graph, factor graph and pseudo-tree; TLC-drawn agent sets (2-3 quick / 1-4 agents; capacities "
                     "{0,2,5,12,40,1000}; hosting costs {0,3,8} with default 0 or 4; symmetric routes), with and without a must_host hint; each method called "
                     "on the graph models it supports with the algorithm's own footprint / load functions; plus a 'pinned' stratum (explicit hosting cost 0 for "
                     "2-3 computations on one agent whose capacity is just below / at / above their footprints) and a 'hints' stratum (three must_host "
                     "hints over two agents with just-fitting capacities, adhoc under several seeds) and a 'packing' stratum (synthetic footprints 1,1,6,3,3,.. "
                     "on two agents that only fit well-chosen halves, adhoc with must_host under 8-40 seeds); non-trivial = a mapping of more than one computation")
    v.cov["trusted_base"] = ["TLC (Distribution.tla)", "PuLP's CBC solves the ILP models (glpsol is absent)"]
    v.assumptions = ["SECP-specific methods (gh_secp_*, oilp_secp_*) and ilp_compref_fg are not exercised"]
    return v.finish()


def replay(path):
    d = json.load(open(path))["replay"]
    dcop, cg, agents, names, comps, mem, load, must, fp = problem(d["inst"], d["dep"], d["graph"], d["hints"])
    outcome, mapping = call(d["method"], cg, agents, must, mem, load)
    print(outcome, mapping)
    return 1 if outcome == d["outcome"]["outcome"] else 0
