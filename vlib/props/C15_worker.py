"""Inventory pass of C15 in a FRESH process: one synthetic instance of every message class of the package is encoded and
decoded in a given order (forward, reverse, or a seeded shuffle); decoding state, if the code keeps any, starts empty.
Prints the records (kind, facts before, facts after, exception) as JSON."""
import json, random, sys
from .C15 import message_instances, record


def main():
    order, out = sys.argv[1], sys.argv[2]
    inv = message_instances()
    if order == "reverse":
        inv = list(reversed(inv))
    elif order.startswith("shuffle"):
        random.Random(int(order[7:] or 0)).shuffle(inv)
    recs = []
    for key, msg in inv:
        r = record(len(recs), "message_inventory:" + key, msg)
        r["order"] = order
        recs.append(r)
    json.dump(recs, open(out, "w"))


if __name__ == "__main__":
    main()
