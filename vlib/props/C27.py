"""C27 - after an agent removal every computation runs on exactly one live agent.
Whole resilient runs on REAL objects (Orchestrator, ResilientAgents, UCS replication, MGM2 repair DCOP), in the
deterministic orchestrated runtime: deploy, replicate with level k, start a non-terminating algorithm, remove every set
of at most k agents (scenario event), repair.  DCOPs and deployments come from TLC (Gen_Dcop, Gen_C25 with ample
capacities); the state after the repair is judged by TLC (Judge_C27 / Repair.tla)."""
import json, random, itertools
from ..common import Verdict, seed, MachineryError
from .. import algotrace as AT, callcheck as CC
from ..judge import judge
from ..orchrt import OrchWorld
from .C25 import deployment
from ..orchproto import ProtocolRecorder

SHAPES = ["path4", "star4", "cycle4", "tritail", "kite", "path5"]


def one_run(hid, inst, dep, leaving, sseed):
    r = random.Random(sseed)
    dcop, cg, algo_def, dist, names, comps = deployment(inst, dep, algo="dsa")
    prec = ProtocolRecorder(comps).install()
    try:
        return _one_run(hid, inst, dep, leaving, sseed, r, dcop, cg, algo_def, dist, names, comps, prec)
    finally:
        prec.uninstall()


def _one_run(hid, inst, dep, leaving, sseed, r, dcop, cg, algo_def, dist, names, comps, prec):
    w = OrchWorld(dcop, algo_def, cg, dist, infinity=10000, replication="dist_ucs_hostingcosts", seed=sseed)
    w.boot_all(order=r)
    stuck = w.deploy() or w.replicate(dep["k"])
    if stuck:
        raise MachineryError("set-up failed: %s %s" % (stuck, w.exc[:1]))
    w.run_algo(steps=r.choice([0, 40, 200]))
    dd = w.orch.directory
    host_before = {c: dd._computations_data.get(c, "") for c in comps}
    reps_before = {c: sorted(dd.discovery._replicas_data[c]) if c in dd.discovery._replicas_data else [] for c in comps}
    import contextlib, io
    with contextlib.redirect_stdout(io.StringIO()):       # (the repair code prints its metrics)
        status = w.remove_agents(leaving)
    alive = [a for a in names if a not in leaving]
    hosted = {a: sorted(c.name for c in w.agents[a].computations() if c.name in comps) for a in alive}
    exc = ["%s: %s handling %s" % (e[0], e[4], e[3]) for e in w.exc]
    return {"id": hid, "comps": comps, "alive": alive, "left": list(leaving), "hostBefore": host_before, "repsBefore": reps_before,
            "hosted": hosted, "dir": {c: dd._computations_data.get(c, "") for c in comps}, "status": status or "", "exc": exc}, \
        {"shape": inst["shape"], "dep": dep, "leaving": list(leaving), "inst": inst, "k": dep["k"], "steps": dict(w.phase_steps), "sched_seed": sseed,
         "removals": [dict(x) for x in prec.removals]}


def run(tier):
    quick = tier == "quick"
    v = Verdict("C27", tier, "model_checking")
    r = random.Random(seed() + 27)
    insts, gres = AT.gen_instances(SHAPES, [0, 1, 3], n=1, seed=seed() + 27, modes=("min",))
    v.add_tlc(gres, "DCOP instances (Gen_Dcop)")
    recs, meta = [], {}
    for inst in (insts[:3] if quick else insts):
        nc = len(inst["vars"])
        for nag in ((4,) if quick else (4, 5, 6)):
            deps, dres = CC.generate("Gen_C25", consts=dict(NAg=nag, NComp=nc, NCases=1 if quick else 2, Caps={1000}, Ks={1, 2}),
                                     workers=2, seed=seed() + nag * 100 + nc + 7)
            v.add_tlc(dres, "deployments with ample capacity (Gen_C25, %d agents, %d computations)" % (nag, nc))
            names = ["a%d" % i for i in range(1, nag + 1)]
            for dep in deps:
                sets = [L for n in range(1, dep["k"] + 1) for L in itertools.combinations(names, n)]
                if quick:
                    sets = r.sample(sets, min(3, len(sets)))
                for L in sets:
                    rec, m = one_run(len(recs), inst, dep, L, r.randrange(10 ** 6))
                    meta[rec["id"]] = m
                    recs.append(rec)
    # premise of the statement: replication level k was reached for what the departing agents host, i.e. every orphaned
    # computation still has a replica on a surviving agent (the UCS placement only reaches agents that host neighbour
    # computations; with few hosting agents it can place fewer than k replicas)
    premise_fails = [rec for rec in recs if any(rec["hostBefore"][c] in rec["left"] and not (set(rec["repsBefore"][c]) - set(rec["left"]))
                                               for c in rec["comps"])]
    recs = [rec for rec in recs if rec not in premise_fails]
    v.cov["runs_outside_the_premise_not_judged"] = len(premise_fails)
    verdicts, jres = judge("Judge_C27", recs, chunk=400)
    v.add_tlc(jres, "state after %d repairs judged (Judge_C27 / Repair.tla)" % len(recs))
    # the repair orchestration itself: RepairProtocol.tla model-checked for a small configuration, and the protocol events of every
    # removal of every run validated against it (Judge_Repair.tla)
    from .. import tlc as T
    pres = T.run("RepairProtocol", "SPECIFICATION Spec\nINVARIANT OkMeansAllTaken\nINVARIANT OnlyCandidatesRun\nINVARIANT NobodyRunsBeforeAllReady\n",
                 consts=dict(Agents={"a1", "a2", "a3"}, Leaving={"a1"}, Orphaned={"x", "y"},
                             Reps='@[c \\in {"x", "y"} |-> IF c = "x" THEN {"a2", "a3"} ELSE {"a3", "a1"}]'), workers=4, deadlock=True)
    if pres.violated or pres.errors:
        raise MachineryError("RepairProtocol.tla does not satisfy its own invariants: %s %s" % (pres.violated, pres.errors[:2]))
    v.add_tlc(pres, "RepairProtocol.tla, all orders of the repair protocol's events and all ways of sharing the orphaned computations")
    rrecs, rof = [], {}
    for rec in recs:
        for x in meta[rec["id"]]["removals"]:
            rr = dict(x, id=len(rrecs))
            rof[rr["id"]] = rec["id"]
            rrecs.append(rr)
    if rrecs:
        rverd, rres = judge("Judge_Repair", rrecs, chunk=400)
        v.add_tlc(rres, "repair protocol events of %d removals validated against RepairProtocol.tla (Judge_Repair)" % len(rrecs))
        for rr in rrecs:
            for clause in rverd[rr["id"]]:
                verdicts[rof[rr["id"]]] = list(verdicts[rof[rr["id"]]]) + ["protocol_" + clause]
        v.cov["repair_protocol_events_validated"] = sum(len(x["ev"]) for x in rrecs)
    for rec in recs:
        m = meta[rec["id"]]
        v.cov["evaluations"] += 1
        v.cov["traces_validated_against_impl"] += 1
        orphaned = [c for c in rec["comps"] if rec["hostBefore"][c] in rec["left"]]
        if orphaned:
            v.cov["distinct_nontrivial"] += 1
        for clause in verdicts[rec["id"]]:
            key = {"clause": clause, "k": m["k"], "leaving": len(rec["left"])}
            if clause == "handler_raised":
                # (a handler exception ends the agent's thread in a real run: the survivors of the statement are then fewer)
                key["exception"] = rec["exc"][0].split(": ")[1] if ": " in rec["exc"][0] else "?"
                key["message"] = rec["exc"][0].rsplit("handling ", 1)[-1]
            v.violation(key,
                        "%s (shape %s, %d agents, k=%d, leaving %s): status %r hosted %s directory %s %s" % (
                            clause, m["shape"], len(rec["alive"]) + len(rec["left"]), m["k"], rec["left"], rec["status"], rec["hosted"], rec["dir"], rec["exc"][:1]),
                        {"inst": m["inst"], "dep": m["dep"], "leaving": m["leaving"], "sched_seed": m["sched_seed"], "outcome": rec})
        if not verdicts[rec["id"]] and orphaned:
            v.sample({"shape": m["shape"], "k": m["k"], "leaving": rec["left"], "orphaned": orphaned, "hosted_after": rec["hosted"], "status": rec["status"]}, cap=3)
    v.cov["exhaustive"] = False
    v.cov["rule"] = ("DCOPs over %d shapes (4-5 DSA computations), TLC-drawn deployments on 4 (quick) / 4-6 agents with ample capacity, k in {1,2}; "
                     "every set of at most k departing agents (quick: 3 drawn per deployment); the removal happens before the algorithm starts, or after "
                     "40 / 200 agent steps of it; one seeded interleaving per run; non-trivial = the departing agents hosted at least one computation" % len(SHAPES))
    v.cov["trusted_base"] = ["TLC (Repair.tla)", "vlib/orchrt.py + vlib/agentrt.py (scenario event injected as the orchestrator does it)"]
    v.assumptions = ["one removal event per run; thread-mode repairs are not run (C21/C22 exercise the thread runtime)"]
    return v.finish()


def replay(path):
    d = json.load(open(path))
    rec, m = one_run(0, d["replay"]["inst"], d["replay"]["dep"], tuple(d["replay"]["leaving"]), d["replay"]["sched_seed"])
    print(json.dumps(rec))
    return 1 if rec["status"] != "OK" or rec["exc"] else 0
