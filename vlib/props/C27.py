"""C27 - after an agent removal every computation runs on exactly one live agent.
Whole resilient runs on REAL objects (Orchestrator, ResilientAgents, UCS replication, MGM2 repair DCOP), in the
deterministic orchestrated runtime: deploy, replicate with level k, start a non-terminating algorithm, remove every set
of at most k agents (scenario event), repair.  DCOPs and deployments come from TLC (Gen_Dcop, Gen_C25 with ample
capacities); the state after the repair is judged by TLC (Judge_C27 / Repair.tla)."""
import json, random, itertools
from ..common import Verdict, seed, MachineryError
from .. import algotrace as AT, callcheck as CC
from ..judge import judge
from ..orchrt import OrchWorld
from .C25 import deployment
from ..orchproto import ProtocolRecorder

SHAPES = ["path4", "star4", "cycle4", "tritail", "kite", "path5"]


def one_run(hid, inst, dep, leaving, sseed, second=None):
    """-> list of (record, meta): one per removal event of the run (`second`: pick a second event among the survivors)"""
    r = random.Random(sseed)
    dcop, cg, algo_def, dist, names, comps = deployment(inst, dep, algo="dsa")
    prec = ProtocolRecorder(comps).install()
    try:
        return _one_run(hid, inst, dep, leaving, sseed, r, dcop, cg, algo_def, dist, names, comps, prec, second)
    finally:
        prec.uninstall()


def _one_run(hid, inst, dep, leaving, sseed, r, dcop, cg, algo_def, dist, names, comps, prec, second):
    w = OrchWorld(dcop, algo_def, cg, dist, infinity=10000, replication="dist_ucs_hostingcosts", seed=sseed)
    w.boot_all(order=r)
    stuck = w.deploy() or w.replicate(dep["k"])
    if stuck:
        raise MachineryError("set-up failed: %s %s" % (stuck, w.exc[:1]))
    w.run_algo(steps=r.choice([0, 40, 200]))
    dd = w.orch.directory
    import contextlib, io
    out, gone, events = [], [], [tuple(leaving)]
    while events:
        L = events.pop(0)
        alive = [a for a in names if a not in gone and a not in L]
        host_before = {c: dd._computations_data.get(c, "") for c in comps}
        # (the replica holders that count are live agents)
        reps_before = {c: sorted(a for a in dd.discovery._replicas_data[c] if a not in gone) if c in dd.discovery._replicas_data else []
                       for c in comps}
        nrem, nexc = len(prec.removals), len(w.exc)
        with contextlib.redirect_stdout(io.StringIO()):       # (the repair code prints its metrics)
            status = w.remove_agents(L)
        hosted = {a: sorted(c.name for c in w.agents[a].computations() if c.name in comps) for a in alive}
        exc = ["%s: %s handling %s" % (e[0], e[4], e[3]) for e in w.exc[nexc:]]
        out.append(({"id": hid + len(out), "comps": comps, "alive": alive, "left": list(L), "hostBefore": host_before, "repsBefore": reps_before,
                     "hosted": hosted, "dir": {c: dd._computations_data.get(c, "") for c in comps}, "status": status or "", "exc": exc},
                    {"shape": inst["shape"], "dep": dep, "leaving": list(leaving), "inst": inst, "k": dep["k"], "steps": dict(w.phase_steps),
                     "sched_seed": sseed, "event": len(out) + 1, "second": second if out else None, "with_second": bool(second),
                     "removals": [dict(x) for x in prec.removals[nrem:]]}))
        gone += list(L)
        if second and len(out) == 1 and status == "OK" and not exc and len(alive) >= 3:
            # a second event: the algorithm goes on for a while (the replication of the re-hosted computations completes), then
            # up to k of the survivors leave
            w.run(max_steps=second["steps"])
            r2 = random.Random(second["seed"])
            n2 = r2.randint(1, min(dep["k"], len(alive) - 2))
            # two times out of three an agent that has just taken over a computation is among those that leave next
            took = [a for a in alive if set(hosted[a]) - {c for c in comps if host_before[c] == a}]
            L2 = r2.sample(alive, n2)
            took0 = [a for a in took if not dist.computations_hosted(a)]        # ... that hosted nothing in the initial distribution
            if took and second["seed"] % 3 and not set(took) & set(L2):
                L2[0] = r2.choice(took0 or took)
            events.append(tuple(sorted(L2)))
    return out


def run(tier):
    quick = tier == "quick"
    v = Verdict("C27", tier, "model_checking")
    r = random.Random(seed() + 27)
    insts, gres = AT.gen_instances(SHAPES, [0, 1, 3], n=1, seed=seed() + 27, modes=("min",))
    v.add_tlc(gres, "DCOP instances (Gen_Dcop)")
    recs, meta = [], {}
    for inst in (insts[:3] if quick else insts):
        nc = len(inst["vars"])
        for nag in ((4,) if quick else (4, 5, 6)):
            deps, dres = CC.generate("Gen_C25", consts=dict(NAg=nag, NComp=nc, NCases=1 if quick else 2, Caps={1000}, Ks={1, 2}),
                                     workers=2, seed=seed() + nag * 100 + nc + 7)
            v.add_tlc(dres, "deployments with ample capacity (Gen_C25, %d agents, %d computations)" % (nag, nc))
            names = ["a%d" % i for i in range(1, nag + 1)]
            for dep in deps:
                sets = [L for n in range(1, dep["k"] + 1) for L in itertools.combinations(names, n)]
                if quick:
                    sets = r.sample(sets, min(3, len(sets)))
                for li, L in enumerate(sets):
                    second = {"steps": r.choice([100, 400]), "seed": r.randrange(10 ** 6)} if li % 3 != 2 else None
                    for rec, m in one_run(len(recs), inst, dep, L, r.randrange(10 ** 6), second):
                        meta[rec["id"]] = m
                        recs.append(rec)
    # premise of the statement: replication level k was reached for what the departing agents host, i.e. every orphaned
    # computation still has a replica on a surviving agent (the UCS placement only reaches agents that host neighbour
    # computations; with few hosting agents it can place fewer than k replicas)
    premise_fails = [rec for rec in recs if any(rec["hostBefore"][c] in rec["left"] and not (set(rec["repsBefore"][c]) - set(rec["left"]))
                                               for c in rec["comps"])]
    recs = [rec for rec in recs if rec not in premise_fails]
    v.cov["runs_outside_the_premise_not_judged"] = len(premise_fails)
    verdicts, jres = judge("Judge_C27", recs, chunk=400)
    v.add_tlc(jres, "state after %d repairs judged (Judge_C27 / Repair.tla)" % len(recs))
    # the repair orchestration itself: RepairProtocol.tla model-checked for a small configuration, and the protocol events of every
    # removal of every run validated against it (Judge_Repair.tla)
    from .. import tlc as T
    pres = T.run("RepairProtocol", "SPECIFICATION Spec\nINVARIANT OkMeansAllTaken\nINVARIANT OnlyCandidatesRun\nINVARIANT NobodyRunsBeforeAllReady\n",
                 consts=dict(Agents={"a1", "a2", "a3"}, Leaving={"a1"}, Orphaned={"x", "y"},
                             Reps='@[c \\in {"x", "y"} |-> IF c = "x" THEN {"a2", "a3"} ELSE {"a3", "a1"}]'), workers=4, deadlock=True)
    if pres.violated or pres.errors:
        raise MachineryError("RepairProtocol.tla does not satisfy its own invariants: %s %s" % (pres.violated, pres.errors[:2]))
    v.add_tlc(pres, "RepairProtocol.tla, all orders of the repair protocol's events and all ways of sharing the orphaned computations")
    rrecs, rof = [], {}
    for rec in recs:
        for x in meta[rec["id"]]["removals"]:
            rr = dict(x, id=len(rrecs))
            rof[rr["id"]] = rec["id"]
            rrecs.append(rr)
    if rrecs:
        rverd, rres = judge("Judge_Repair", rrecs, chunk=400)
        v.add_tlc(rres, "repair protocol events of %d removals validated against RepairProtocol.tla (Judge_Repair)" % len(rrecs))
        for rr in rrecs:
            for clause in rverd[rr["id"]]:
                verdicts[rof[rr["id"]]] = list(verdicts[rof[rr["id"]]]) + ["protocol_" + clause]
        v.cov["repair_protocol_events_validated"] = sum(len(x["ev"]) for x in rrecs)
    for rec in recs:
        m = meta[rec["id"]]
        v.cov["evaluations"] += 1
        v.cov["traces_validated_against_impl"] += 1
        orphaned = [c for c in rec["comps"] if rec["hostBefore"][c] in rec["left"]]
        if orphaned:
            v.cov["distinct_nontrivial"] += 1
        for clause in verdicts[rec["id"]]:
            key = {"clause": clause, "k": m["k"], "leaving": len(rec["left"]), "event": m["event"]}
            if clause == "handler_raised":
                # (a handler exception ends the agent's thread in a real run: the survivors of the statement are then fewer)
                key["exception"] = rec["exc"][0].split(": ")[1] if ": " in rec["exc"][0] else "?"
                key["message"] = rec["exc"][0].rsplit("handling ", 1)[-1]
            v.violation(key,
                        "%s (shape %s, %d agents, k=%d, leaving %s): status %r hosted %s directory %s %s" % (
                            clause, m["shape"], len(rec["alive"]) + len(rec["left"]), m["k"], rec["left"], rec["status"], rec["hosted"], rec["dir"], rec["exc"][:1]),
                        {"inst": m["inst"], "dep": m["dep"], "leaving": m["leaving"], "sched_seed": m["sched_seed"], "second": m["second"],
                         "event": m["event"], "outcome": rec})
        if not verdicts[rec["id"]] and orphaned:
            v.sample({"shape": m["shape"], "k": m["k"], "leaving": rec["left"], "orphaned": orphaned, "hosted_after": rec["hosted"], "status": rec["status"]}, cap=3)
    v.cov["exhaustive"] = False
    v.cov["rule"] = ("DCOPs over %d shapes (4-5 DSA computations), TLC-drawn deployments on 4 (quick) / 4-6 agents with ample capacity, k in {1,2}; "
                     "every set of at most k departing agents (quick: 3 drawn per deployment); the removal happens before the algorithm starts, or after "
                     "40 / 200 agent steps of it; two runs out of three go on with a second event (two times out of three an agent that has just taken over a computation is among those that leave) (up to k of the survivors leave, 100 / 400 agent steps after the "
                     "first repair); one seeded interleaving per run; non-trivial = the departing agents hosted at least one computation" % len(SHAPES))
    v.cov["trusted_base"] = ["TLC (Repair.tla)", "vlib/orchrt.py + vlib/agentrt.py (scenario event injected as the orchestrator does it)"]
    v.cov["second_events"] = sum(1 for rec in recs if meta[rec["id"]]["event"] == 2)
    v.assumptions = ["at most two removal events per run; thread-mode repairs are not run (C21/C22 exercise the thread runtime)"]
    return v.finish()


def replay(path):
    d = json.load(open(path))["replay"]
    out = one_run(0, d["inst"], d["dep"], tuple(d["leaving"]), d["sched_seed"], d.get("second"))
    rec = out[min(d.get("event", 1), len(out)) - 1][0]
    print(json.dumps(rec))
    return 1 if rec["status"] != "OK" or rec["exc"] else 0
