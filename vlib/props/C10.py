"""C10 - every value an algorithm selects lies in the variable's domain (all shipped algorithms)."""
from ..algocheck import run_algo_check, replay  # noqa: F401

SHAPES = ["single", "unary1", "pair3", "pairrev", "unarypair", "isolated", "path3d3", "triangle", "tern", "twocomp", "star4", "tree5"]
BIN = ["single", "pair3", "pairrev", "isolated", "path3d3", "triangle", "twocomp", "star4", "tree5"]
CLAUSES = {"C10_selected_value_not_in_domain", "C10_current_value_not_in_domain"}
ALGOS = [("dpop", {}, SHAPES, {}), ("syncbb", {}, BIN, {}), ("mgm", {"stop_cycle": 4}, SHAPES, {}), ("mgm", {"stop_cycle": 4, "break_mode": "random"}, SHAPES, {}),
         ("mgm2", {"stop_cycle": 4}, SHAPES, {}), ("mgm2", {"stop_cycle": 3, "favor": "coordinated", "threshold": 0.8}, SHAPES, {}),
         ("dsa", {"stop_cycle": 5, "variant": "A"}, SHAPES, {}), ("dsa", {"stop_cycle": 5, "variant": "C", "p_mode": "arity"}, SHAPES, {}),
         ("adsa", {"variant": "B"}, SHAPES, {"timers": True, "max_steps": 60}), ("adsa", {"variant": "C", "probability": 0.9}, SHAPES, {"timers": True, "max_steps": 60}),
         ("dsatuto", {}, SHAPES, {"max_steps": 60}), ("dba", {}, BIN, {"max_steps": 100, "alpha": [0, 10000]}),
         ("gdba", {}, BIN, {"max_steps": 70}), ("gdba", {"modifier": "M", "violation": "MX", "increase_mode": "T"}, BIN, {"max_steps": 70}),
         ("maxsum", {"damping": 0.5, "noise": 0.01}, SHAPES, {"max_steps": 70}), ("maxsum", {"damping": 0, "start_messages": "all"}, SHAPES, {"max_steps": 70}),
         ("amaxsum", {"damping": 0.5, "noise": 0.01}, SHAPES, {"max_steps": 70}), ("amaxsum", {"damping": 0.7, "damping_nodes": "vars", "start_messages": "leafs_vars"}, SHAPES, {"max_steps": 70})]


def run(tier):
    quick = tier == "quick"
    plans = []
    for algo, params, shapes, extra in ALGOS:
        plans.append(dict(dict(algo=algo, params=params, props=[], shapes=shapes, max_steps=400, alpha=[0, 1, 2, 5, -1], vcalpha=[0, 1, 3], n=1 if quick else 4,
                               scheds=1 if quick else 5, with_init=(len(params) % 2 == 0), policies=["random", "starts_first", "lag"]), **extra))
    v = run_algo_check("C10", tier, "exploration", plans, CLAUSES,
                       nontrivial=lambda vd, m: vd["wit"]["sels"] > 0,
                       rule="all shipped algorithms (dpop, syncbb, mgm lexic/random, mgm2 two configurations, dsa A/C, adsa B/C with periodic timers as "
                            "schedulable steps, dsatuto, dba, gdba two configurations, maxsum and amaxsum with and without damping/noise) on Gen_Dcop "
                            "shapes with domains of size 2 and 3, with and without initial values; every value_selection call and the current_value "
                            "after every step are logged as domain indices (-1 = not a domain value) and checked by AlgoMon; non-trivial = at least "
                            "one value_selection call in the execution. MODEL (MGM): Mgm.tla checked by TLC over every schedule and draw "
                            "(invariant ValueInDomain), every explored transition replayed on the real computations")
    from ..mgmmodel import model_part
    model_part(v, tier, ["ValueInDomain"], CLAUSES, [], seed_off=10, shapes=["pair3", "path3d3", "unarypair", "isolated"] if quick else None, light=quick)
    return v.finish()
