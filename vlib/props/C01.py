"""C01 - DPOP returns an optimal assignment on every DCOP and schedule."""
from ..algocheck import run_algo_check, replay  # noqa: F401

SHAPES = ["single", "unary1", "pair", "pair3", "pairrev", "parallel", "unarypair", "upair1", "upath", "ustar", "uall", "isolated", "isounary", "path3", "path3d3",
          "fork3", "triangle", "tern", "ternpair", "twocomp", "path4", "star4", "cycle4", "tritail", "tritails", "kite"]
LARGE = ["path5", "tree5", "tern5"]
CLAUSES = {"EXC", "quiet_but_not_all_finished", "finished_with_incomplete_assignment", "finished_on_non_optimal_assignment"}


def run(tier):
    quick = tier == "quick"
    plans = []
    for vc in ([0], [0, 2, -1]):
        for wire in (False, True):
            plans.append(dict(algo="dpop", params={}, props=["quiet_fin", "opt"], shapes=SHAPES if quick else SHAPES + LARGE,
                              alpha=[0, 1, 3, -2, 7], vcalpha=vc, n=2 if quick else 6, scheds=3 if quick else 8, wire=wire,
                              policies=["random", "starts_first", "lag", "random"]))
    v = run_algo_check("C01", tier, "model_checking", plans, CLAUSES,
                       nontrivial=lambda vd, m: vd["allfin"] and len(m["inst"]["cons"]) > 0,
                       rule="instances: all Gen_Dcop shapes (chains, stars, triangle, cycle, triangle with tails on every corner, kite, ternary constraints, parallel and unary constraints, "
                            "isolated variables, two components) with TLC-drawn tables over {0,1,3,-2,7}, with and without own-value costs, min "
                            "and max; the optimum is computed by TLC (Dcop!Opt); real DpopAlgo computations on the real pseudo-tree under seeded "
                            "start/delivery orders, by reference and through the JSON wire format; non-trivial = at least one constraint and all finished. "
                            "MODEL: Dpop.tla (DpopAlgo on the pseudo-tree the real builder produced) checked by TLC over every start and "
                            "delivery order (invariants FinishedMeansOptimal, QuietMeansFinished, no deadlock before the end, ValueInDomain, "
                            "UtilWithoutSender); every explored transition replayed on the real computations with the joined utility tables, "
                            "separators and messages compared")
    from ..dpopmodel import model_part
    model_part(v, tier, ["FinishedMeansOptimal", "QuietMeansFinished", "ValueInDomain", "UtilWithoutSender"], CLAUSES, ["quiet_fin", "opt"], seed_off=1)
    return v.finish()
