"""C24 - optimal distribution methods return cost-minimal distributions.
TLC draws tiny DCOPs (Gen_Dcop) and agent sets (Gen_C25); oilp_cgdp and ilp_fgdp are run (PuLP's CBC through the GLPK_CMD
name, as in C23); TLC (Judge_C24) enumerates ALL mappings, keeps those satisfying the method's hard rules, and compares the
cost of the returned distribution - and the method's own distribution_cost - with the minimum of the cost model."""
import json, random, importlib, itertools, collections
from ..common import Verdict, seed, MachineryError
from .. import algotrace as AT, callcheck as CC
from ..judge import judge
from .C23 import problem, cbc_shim
from pydcop.distribution.objects import ImpossibleDistributionException

SHAPES = ["pair", "path3", "triangle", "tern", "unarypair", "star4", "parallel", "ternpair"]


def tables(method, cg, agents, comps, mem, load):
    mod = importlib.import_module("pydcop.distribution." + method)
    pairs = []
    if method == "oilp_cgdp":
        msg_load = mod.msg_load_func(cg, load)
        for l in cg.links:
            for c1, c2 in itertools.combinations(l.nodes, 2):
                pairs.append({"c1": c1, "c2": c2, "load": msg_load(c1, c2)})
    else:
        for l in cg.links:
            for c1, c2 in itertools.combinations(l.nodes, 2):
                pairs.append({"c1": c1, "c2": c2, "load": load(cg.computation(c1), c2)})
    return pairs


def one(hid, method, inst, dep, graph, zeros=False, asym=False):
    dcop, cg, agents, names, comps, mem, load, must, fp = problem(inst, dep, graph, False, explicit_zero=zeros, asym=asym)
    mod = importlib.import_module("pydcop.distribution." + method)
    cbc_shim(mod)
    pairs = tables(method, cg, agents, comps, mem, load)
    if any(float(p["load"]) != int(p["load"]) for p in pairs) or any(float(x) != int(x) for x in fp.values()):
        raise MachineryError("non-integer load / footprint: %s %s" % (pairs, fp))
    rec = {"id": hid, "model": "cgdp" if method == "oilp_cgdp" else "fgdp", "comps": comps, "agents": names,
           "cap": {a.name: int(a.capacity) for a in agents}, "fp": {c: int(x) for c, x in fp.items()},
           "pins": {c: [a.name for a in agents if a.hosting_cost(c) == 0] for c in comps},
           "hc": {a.name: {c: int(a.hosting_cost(c)) for c in comps} for a in agents},
           "route": {a.name: {b.name: int(a.route(b.name)) for b in agents} for a in agents},
           "pairs": [{"c1": p["c1"], "c2": p["c2"], "load": int(p["load"])} for p in pairs],
           "outcome": "", "host": {c: "" for c in comps}, "reported": -1}
    try:
        d = mod.distribute(cg, agents, hints=None, computation_memory=mem, communication_load=load)
        rec["outcome"] = "mapping"
        rec["host"] = {c: d.agent_for(c) for c in comps}
        cost = mod.distribution_cost(d, cg, agents, mem, load)[0]
        rec["reported"] = int(round(cost * 10))
        if abs(cost * 10 - rec["reported"]) > 1e-6:
            raise MachineryError("cost %r is not a multiple of 0.1" % cost)
    except ImpossibleDistributionException:
        rec["outcome"] = "impossible"
    except TimeoutError:
        rec["outcome"] = "timeout"
    except MachineryError:
        raise
    except Exception as e:
        rec["outcome"] = type(e).__name__
        rec["msg"] = str(e)[:100]
    return rec


def run(tier):
    quick = tier == "quick"
    v = Verdict("C24", tier, "model_checking")
    insts, gres = AT.gen_instances(SHAPES, [0, 1, 3], n=1, seed=seed() + 24, modes=("min",))
    v.add_tlc(gres, "DCOP instances (Gen_Dcop)")
    recs, meta = [], {}
    outcomes = collections.Counter()
    for inst in insts:
        for nag in ((2,) if quick else (2, 3)):
            # hosting costs without zeros (k=2 -> default 4) and with explicit zeros (pins); capacities tight to ample
            deps, dres = CC.generate("Gen_C25", consts=dict(NAg=nag, NComp=8, NCases=3 if quick else 6, Caps={6, 9, 14, 1000}, Ks={2}),
                                     workers=2, seed=seed() + nag * 10 + len(inst["vars"]) + 24)
            v.add_tlc(dres, "agent sets (Gen_C25, %d agents)" % nag)
            for dep in deps:
                for method, graph, zeros, asym in (("oilp_cgdp", "constraints_hypergraph", False, False), ("oilp_cgdp", "factor_graph", False, False),
                                                   ("ilp_fgdp", "factor_graph", False, False), ("oilp_cgdp", "constraints_hypergraph", True, False),
                                                   ("oilp_cgdp", "factor_graph", True, False), ("ilp_fgdp", "factor_graph", True, False),
                                                   ("oilp_cgdp", "constraints_hypergraph", False, True), ("oilp_cgdp", "factor_graph", True, True),
                                                   ("ilp_fgdp", "factor_graph", False, True)):
                    rec = one(len(recs), method, inst, dep, graph, zeros, asym)
                    if len(rec["agents"]) ** len(rec["comps"]) > 20000:
                        continue
                    outcomes[method + ":" + rec["outcome"]] += 1
                    meta[rec["id"]] = {"method": method, "graph": graph, "inst": inst, "dep": dep, "zeros": zeros, "asym": asym}
                    recs.append(rec)
    recs = [dict(r, id=i) for i, r in enumerate(recs)]
    meta = {i: meta[r_id] for i, r_id in enumerate(sorted(meta))}
    verdicts, jres = judge("Judge_C24", recs, chunk=60, strip=("msg",))
    v.add_tlc(jres, "%d results compared with the minimum over all feasible mappings (Judge_C24)" % len(recs))
    for rec in recs:
        m = meta[rec["id"]]
        v.cov["evaluations"] += 1
        v.cov["traces_validated_against_impl"] += 1
        if rec["outcome"] == "mapping" and len(rec["comps"]) >= 3:
            v.cov["distinct_nontrivial"] += 1
        pinned = any(rec["pins"][c] for c in rec["comps"])
        for clause in verdicts[rec["id"]]:
            v.violation({"clause": clause, "method": m["method"], "graph": m["graph"], "with_pins": pinned},
                        "%s: %s on %s (%d agents): outcome %s host %s reported cost x10 = %s %s" % (
                            clause, m["method"], m["graph"], len(rec["agents"]), rec["outcome"], rec["host"], rec["reported"], rec.get("msg", "")),
                        {"inst": m["inst"], "dep": m["dep"], "method": m["method"], "graph": m["graph"], "zeros": m["zeros"], "asym": m["asym"], "record": rec})
        if not verdicts[rec["id"]] and rec["outcome"] == "mapping" and len(rec["comps"]) >= 4:
            v.sample({"method": m["method"], "graph": m["graph"], "capacities": rec["cap"], "pins": rec["pins"], "host": rec["host"], "cost_x10": rec["reported"]}, cap=3)
    v.cov["outcomes_by_method"] = dict(outcomes)
    v.cov["exhaustive"] = False
    v.cov["rule"] = ("DCOPs over 6 shapes (2-5 computations as constraints hyper-graph, 3-7 as factor graph) x TLC-drawn agent sets (2 quick / 2-3 agents, "
                     "capacities {6,9,14,1000}, hosting costs {0,3,8} over a default of 4 - explicit zeros pin computations -, routes {1,2,5}, symmetric and - a third of the calls - asymmetric); for each "
                     "result TLC enumerates all |agents|^|computations| mappings; non-trivial = a mapping of at least 3 computations")
    v.cov["trusted_base"] = ["TLC (Judge_C24)", "PuLP's CBC solves the ILP models to optimality (glpsol is absent)",
                             "the numeric tables are read through the method's own route / load / hosting-cost helper functions"]
    return v.finish()


def replay(path):
    d = json.load(open(path))["replay"]
    rec = one(0, d["method"], d["inst"], d["dep"], d["graph"], d.get("zeros", False), d.get("asym", False))
    print(json.dumps({k: rec[k] for k in ("outcome", "host", "reported")}))
    return 1 if rec["host"] == d["record"]["host"] else 0
