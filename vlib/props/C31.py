"""C31 - agent definitions honour their cost model, also when mass-created.
TLC (Gen_C31 / AgentDefs.tla) enumerates agent definitions and create_agents calls with the observations the
specification defines; each is built with the real AgentDef / create_agents and observed through the public accessors."""
import json
from ..common import Verdict
from .. import callcheck as CC
from ..cases import num_eq
from pydcop.dcop.objects import AgentDef, create_agents

U = ["a1", "a2", "a3"]
COMPS = ["c1", "c2", "c3"]


def kwargs_of(args, mass=False):
    kw = {}
    # arguments equal to the documented default are left out half of the time (decided by the case content, deterministic)
    leave_defaults = (args["defroute"] + args["defhost"] + len(args["routes"] or {})) % 2 == 0
    if not (leave_defaults and args["defroute"] == 1):
        kw["default_route"] = args["defroute"]
    if args["routes"] or not leave_defaults:
        kw["routes"] = dict(args["routes"] or {})
    if not (leave_defaults and args["defhost"] == 0):
        kw["default_hosting_costs" if mass else "default_hosting_cost"] = args["defhost"]
    if args["hosting"] or not leave_defaults:
        kw["hosting_costs"] = dict(args["hosting"] or {})
    kw.update(args["attrs"] or {})
    return kw


def observe(a, exp):
    """compare the real AgentDef a with the expected observation; -> message or None"""
    if a.name != exp["name"]:
        return "name %r, expected %r" % (a.name, exp["name"])
    for x, r in exp["route"].items():
        if not num_eq(a.route(x), r):
            return "route(%r) = %r, expected %r" % (x, a.route(x), r)
    for c, h in exp["host"].items():
        if not num_eq(a.hosting_cost(c), h):
            return "hosting_cost(%r) = %r, expected %r" % (c, a.hosting_cost(c), h)
    if not num_eq(a.default_route, exp["defroute"]):
        return "default_route = %r, expected %r" % (a.default_route, exp["defroute"])
    if not num_eq(a.default_hosting_cost, exp["defhost"]):
        return "default_hosting_cost = %r, expected %r" % (a.default_hosting_cost, exp["defhost"])
    attrs = exp["attrs"] or {}
    for k, val in attrs.items():
        try:
            got = getattr(a, k)
        except AttributeError:
            return "extra attribute %r is not readable" % k
        if got != val:
            return "extra attribute %r = %r, expected %r" % (k, got, val)
    if dict(a.extra_attr()) != attrs:
        return "extra_attr() = %r, expected %r" % (a.extra_attr(), attrs)
    for k in ("capacity", "foo"):
        if k not in attrs:
            try:
                getattr(a, k)
                return "attribute %r readable although never given" % k
            except AttributeError:
                pass
    return None


def indexes_of(idx):
    if idx["kind"] == "list":
        items = idx["items"]
        # digits are passed as ints (name = prefix + str(i)), as the repository's own callers do
        return [int(i) if i.isdigit() else i for i in items]
    if idx["kind"] == "range":
        return range(idx["from"], idx["to"])
    return tuple(list(l) for l in idx["lists"])


def execute(case):
    if case["op"] == "single":
        a = AgentDef(case["name"], **kwargs_of(case["args"]))
        return observe(a, case["exp"])
    idx = case["idx"]
    kw = kwargs_of(case["args"], mass=True)
    if idx["kind"] == "tuple" and idx["sep"] != "_":
        kw["separator"] = idx["sep"]
    agts = create_agents(case["prefix"], indexes_of(idx), **kw)
    exp = {}
    for e in case["exp"]:
        k = tuple(e["key"]) if idx["kind"] == "tuple" else e["key"][0]
        exp[k] = e["obs"]
    if set(agts) != set(exp):
        return "create_agents keys %s, expected %s" % (sorted(map(str, agts)), sorted(map(str, exp)))
    for k in exp:
        if not isinstance(agts[k], AgentDef):
            return "create_agents[%r] is not an AgentDef" % (k,)
        m = observe(agts[k], exp[k])
        if m:
            return "agent %r: %s" % (k, m)
    return None


def key_of(case, msg):
    what = msg.split("(")[0].split("=")[0].strip().split(":")[-1].strip()[:40]
    k = {"op": case["op"], "symptom": what}
    if case["op"] == "mass":
        k["index_kind"] = case["idx"]["kind"]
    return k


def run(tier):
    v = Verdict("C31", tier, "model_checking")
    cases, res = CC.generate("Gen_C31", consts=dict(Full=(tier != "quick")), workers=4 if tier == "quick" else 16)
    v.add_tlc(res, "exhaustive case generation with expected observations (Gen_C31, Full=%s)" % (tier != "quick"))
    CC.run_cases(v, cases, execute, key_of,
                 nontrivial=lambda c: bool(c["args"]["routes"]) or bool(c["args"]["hosting"]) or c["args"]["defhost"] != 0)
    v.cov["exhaustive"] = True
    v.cov["rule"] = ("every argument combination over default route {0,1,4} x partial route tables x default hosting cost {0,7} x partial "
                     "hosting tables x 4 extra-attribute sets, for 2 names (single) and 9 index specifications (list, range with and "
                     "without padding, tuple of lists with default/custom separator); each observed through route() for every name of "
                     "the universe and the agent itself, hosting_cost() for 3 computations, the default accessors, getattr and extra_attr(); "
                     "non-trivial = a specific table or a non-zero default hosting cost is given")
    v.cov["trusted_base"] = ["TLC evaluation of AgentDefs.tla"]
    return v.finish()


def replay(path):
    d = json.load(open(path))
    msg = execute(d["replay"])
    print(msg or "case agrees with the specification")
    return 1 if msg else 0
