"""Executes C11 cases on the real relation classes (run in a sub-process per PYTHONHASHSEED)."""
import json, sys
import numpy as np
from ..cases import Space, cost_py, num_eq
from pydcop.dcop import relations as R
from pydcop.utils.expressionfunction import ExpressionFunction

VALS = {"x": ["a", "b"], "y": [0, 1], "z": [2, 5, 9], "w": ["q", "p"]}


_EXT = {}


def nested(sp, rel, order, prefix=None):
    """table of rel as nested dict literal source, keyed by domain values in the given variable order"""
    prefix = prefix or {}
    if len(prefix) == len(order):
        idx = 0
        for v in rel["scope"]:
            idx = idx * sp.ds[v] + sp.vals[v].index(prefix[v])
        return repr(cost_py(rel["tab"][idx]))
    v = order[len(prefix)]
    return "{" + ", ".join("%r: %s" % (val, nested(sp, rel, order, dict(prefix, **{v: val}))) for val in sp.vals[v]) + "}"


def build(sp, b, n):
    kind, rel = b["kind"], b["rel"]
    sc, to = rel["scope"], b["torder"]
    if kind == "matrix":
        return sp.matrix_rel(rel, "m")
    if kind == "neutral":
        return R.NeutralRelation([sp.vars[v] for v in sc], "n")
    if kind == "zeroary":
        return R.ZeroAryRelation("z", cost_py(rel["tab"][0]))
    if kind == "boolean":
        return R.UnaryBooleanRelation("b", sp.vars[sc[0]])
    if kind == "unary":
        table = {val: cost_py(c) for val, c in zip(sp.vals[sc[0]], rel["tab"])}
        if n % 2:
            return R.UnaryFunctionRelation("u", sp.vars[sc[0]], ExpressionFunction("%r[%s]" % (table, sc[0])))
        return R.UnaryFunctionRelation("u", sp.vars[sc[0]], lambda v, t=table: t[v])
    if kind == "expr" and n % 4 == 2:
        # an expression calling a function of an external source file (constraint_from_external_definition, as a YAML 'source'
        # entry gives): the expression TEXT is the same for every case with this parameter order, the files differ
        import tempfile, os
        if "dir" not in _EXT:
            import atexit, shutil
            _EXT["dir"] = tempfile.mkdtemp(prefix="pydcop_verif_c11_")
            atexit.register(shutil.rmtree, _EXT["dir"], True)
        d = _EXT["dir"]
        path = os.path.join(d, "src_%d.py" % n)
        with open(path, "w") as fh:
            fh.write("T = %s\n\ndef h(%s):\n    return T%s\n" % (nested(sp, rel, to), ", ".join(to), "".join("[%s]" % v for v in to)))
        allv = [sp.vars[v] for v in sc] + [sp.vars[v] for v in sorted(sp.vars) if v not in sc]
        return R.constraint_from_external_definition("e", path, "source.h(%s)" % ", ".join(to), allv)
    if kind == "expr":
        expr = nested(sp, rel, to) + "".join("[%s]" % v for v in to)
        allv = [sp.vars[v] for v in sc] + [sp.vars[v] for v in sorted(sp.vars) if v not in sc]
        return R.constraint_from_str("e", expr, allv)
    if kind == "pyfunc":
        src = "def f(%s):\n    return T%s\n" % (", ".join(to), "".join("[%s]" % v for v in to))
        env = {"T": eval(nested(sp, rel, to))}
        exec(src, env)
        f = env["f"]
        if n % 5 == 3:
            # named parameters, variables DECLARED in the scope's order (not the parameters'), bound by name (f_kwargs)
            return R.NAryFunctionRelation(f, [sp.vars[v] for v in sc], name="p", f_kwargs=True)
        if n % 5 == 4:
            # the same with an ExpressionFunction (what function_from_str gives), declared in the scope's order
            return R.NAryFunctionRelation(ExpressionFunction(nested(sp, rel, to) + "".join("[%s]" % v for v in to)),
                                          [sp.vars[v] for v in sc], name="p", f_kwargs=True)
        if n % 3 == 0:
            return R.NAryFunctionRelation(f, [sp.vars[v] for v in to], name="p")
        if n % 3 == 1:
            return R.AsNAryFunctionRelation(*[sp.vars[v] for v in to])(f)
        g = lambda **kw: f(**kw)   # noqa: E731  keyword-only function
        return R.NAryFunctionRelation(g, [sp.vars[v] for v in sc], name="p", f_kwargs=True)
    if kind == "cond":
        c = sp.matrix_rel(b["cond"], "c")
        q = sp.matrix_rel(b["cons"], "q")
        return R.ConditionalRelation(c, q, name="cd", return_neutral=b["neutral"])
    raise ValueError(kind)


def check_rel(sp, rel, exp):
    try:
        names = [v.name for v in rel.dimensions]
    except Exception as e:
        return "dimensions raised %s" % type(e).__name__
    if sorted(names) != sorted(exp["scope"]):
        return "dimensions %s, expected exactly the variables %s" % (names, sorted(exp["scope"]))
    want = [cost_py(c) for c in exp["tab"]]
    for a, w in zip(sp.all_asg(exp["scope"]), want):
        forms = {}
        try:
            forms["kwargs"] = rel(**a) if a else rel()
        except Exception as e:
            forms["kwargs"] = "raised %s" % type(e).__name__
        try:
            forms["positional"] = rel(*[a[n] for n in names])
        except Exception as e:
            forms["positional"] = "raised %s" % type(e).__name__
        try:
            forms["dict"] = rel.get_value_for_assignment(dict(a))
        except Exception as e:
            forms["dict"] = "raised %s" % type(e).__name__
        for fname, got in forms.items():
            if not (num_eq(got, w) or (isinstance(got, (bool, np.bool_)) and int(got) == w)):
                return "%s form gives %r at %s, expected %r" % (fname, got, a, w)
    return None


def execute(case, n):
    sp = Space(case["rel"]["rel"]["ds"], vals=VALS)
    try:
        rel = build(sp, case["rel"], n)
    except Exception as e:
        return 0, "building the relation raised %s: %s" % (type(e).__name__, str(e)[:80])
    msg = check_rel(sp, rel, case["exp"][0])
    if msg:
        return 0, msg
    for k, step in enumerate(case["steps"]):
        try:
            rel = rel.slice(sp.asg(step))
        except Exception as e:
            return k + 1, "slice %s raised %s: %s" % (step, type(e).__name__, str(e)[:80])
        msg = check_rel(sp, rel, case["exp"][k + 1])
        if msg:
            return k + 1, "after slicing %s: %s" % (step, msg)
    return None


def main():
    cases = json.load(open(sys.argv[1]))
    out = []
    for n, case in enumerate(cases):
        r = execute(case, n)
        if r:
            out.append([n, r[0], r[1]])
    json.dump(out, open(sys.argv[2], "w"))


if __name__ == "__main__":
    main()
