"""C06 - best-response helpers return exactly the optimal values and cost; DSA only moves to best responses.
Part 1 (pure): TLC enumerates calls of find_optimal / find_arg_optimal / optimal_cost_value / projection over the full cost
algebra with their results (Gen_C06.tla, Relations.tla); each is executed on the real functions.
Part 2 (behavioural): executions of the real DSA / A-DSA computations judged by AlgoMon's clause
C06_dsa_move_not_best_response."""
from ..common import Verdict, seed as vseed
from .. import tlc
from ..cases import Space, cost_py, num_eq
from ..algocheck import run_algo_check
from pydcop.dcop import relations as R
from pydcop.dcop.objects import Variable, Domain, VariableWithCostDict, VariableWithCostFunc

CFG = "INIT Init\nNEXT Next\nINVARIANT Emit\n"
DS = {"x": 3, "y": 2, "z": 2}


def mkvar(sp, own, hasown, flavour):
    dom = sp.vars["x"].domain
    if not hasown:
        return sp.vars["x"]
    table = {v: cost_py(c) for v, c in zip(sp.vals["x"], own)}
    if flavour == 0:
        return VariableWithCostDict("x", dom, table)
    return VariableWithCostFunc("x", dom, lambda v, t=table: t[v])


def execute(case, n):
    sp = Space(DS, vals={"x": ["a", "b", "c"], "y": [0, 1], "z": [5, 2]})
    op = case["op"]
    exp = case["exp"]
    if op != "proj":
        want_vals = sorted(sp.vals["x"][i - 1] for i in exp["vals"])
        want_cost = cost_py(exp["cost"])
    if op == "find_optimal":
        x = mkvar(sp, case["own"], case["hasown"], n % 2)
        sp.vars["x"] = x
        if n % 3 == 1:
            # the OTHER variables carry own-value costs too (finite, huge, infinite): they are not part of the best response
            # of x nor of the cost find_optimal returns
            for name, costs in (("y", [7, float("inf") if n % 2 else 2 ** 60]), ("z", [2 ** 40, 13])):
                sp.vars[name] = VariableWithCostDict(name, sp.vars[name].domain, dict(zip(sp.vals[name], costs)))
        rels = [sp.matrix_rel(r, "c%d" % i) for i, r in enumerate(case["rels"])]
        asg = sp.asg(case["asg"]) if case["asg"] else {}
        vals, cost = R.find_optimal(x, dict(asg), rels, case["mode"])
    elif op == "find_arg_optimal":
        rel = sp.matrix_rel(case["r"])
        vals, cost = R.find_arg_optimal(sp.vars["x"], rel, case["mode"])
    elif op == "optimal_cost_value":
        x = mkvar(sp, case["own"], True, n % 2)
        val, cost = R.optimal_cost_value(x, case["mode"])
        if val not in want_vals:
            return "returned value %r, optimal values are %r" % (val, want_vals)
        return None if num_eq(cost, want_cost) else "returned cost %r, expected %r" % (cost, want_cost)
    elif op == "proj":
        from .C12 import same_table
        res = R.projection(sp.matrix_rel(case["r"]), sp.vars["x"], case["mode"])
        return same_table(sp, res, exp)
    if vals is None or len(set(vals)) != len(vals):
        return "returned values %r (duplicates or None)" % (vals,)
    if sorted(vals) != want_vals:
        return "returned values %r, the optimal values are %r" % (sorted(vals), want_vals)
    if not num_eq(cost, want_cost):
        return "returned cost %r, expected %r" % (cost, want_cost)
    return None


def kinds(case):
    out = set()
    tabs = [r["tab"] for r in case.get("rels", [])] + ([case["r"]["tab"]] if "r" in case else []) + ([case["own"]] if "own" in case else [])
    for t in tabs:
        for c in t:
            out.add("+inf" if c[0] > 0 else "-inf" if c[0] < 0 else "big" if c[1] else "small")
    return sorted(out)


def run(tier):
    quick = tier == "quick"
    v = Verdict("C06", tier, "model_checking")
    res = tlc.run("Gen_C06", CFG, consts=dict(NDraws=4 if quick else 16), workers=4 if quick else 16, seed=vseed() + 1)
    v.add_tlc(res, "case generation with expected results (Gen_C06)")
    cases = [c[0] for c in res.tagged("CASE")]
    if len(cases) != res.distinct or not cases:
        raise tlc.MachineryError("parsed %d cases, TLC reports %d" % (len(cases), res.distinct))
    ops = {}
    for n, case in enumerate(cases):
        try:
            msg = execute(case, n)
        except Exception as e:
            msg = "raised %s: %s" % (type(e).__name__, str(e)[:100])
        v.cov["evaluations"] += 1
        ops[case["op"]] = ops.get(case["op"], 0) + 1
        if len(case["exp"].get("vals", [1])) < 3:
            v.cov["distinct_nontrivial"] += 1
        if msg:
            v.violation({"op": case["op"], "mode": case["mode"], "own_cost": bool(case.get("hasown")), "cost_kinds": kinds(case)},
                        "%s: %s" % (case["op"], msg), case)
        elif case["op"] == "find_optimal" and case.get("hasown"):
            v.sample(case, cap=2)
    v.cov["per_operation"] = ops
    # part 2: DSA moves
    shapes = ["pair", "pair3", "parallel", "unarypair", "path3", "path3d3", "triangle", "tern", "star4"]
    plans = []
    for variant in "ABC":
        plans.append(dict(algo="dsa", params={"variant": variant, "stop_cycle": 6, "probability": 0.8}, props=["dsa"], shapes=shapes,
                          alpha=[0, 1, 2, 5, -1], vcalpha=[0, 1, 3], n=2 if quick else 6, scheds=2 if quick else 5))
    for variant in "ABC":
        plans.append(dict(algo="adsa", params={"variant": variant, "probability": 0.8}, props=["adsa"], shapes=shapes, timers=True,
                          max_steps=80, alpha=[0, 1, 2, 5, -1], vcalpha=[0, 1, 3], n=1 if quick else 4, scheds=2 if quick else 4))
    v2 = run_algo_check("C06", tier, "model_checking", plans, {"C06_dsa_move_not_best_response"},
                        nontrivial=lambda vd, m: vd["wit"]["moves"] > 0 or vd["wit"]["sels"] > len(m["inst"]["vars"]),
                        rule="")
    v.violations += v2.violations
    for i, n in v2.known.items():
        v.known[i] = v.known.get(i, 0) + n
        v.known_example.setdefault(i, v2.known_example[i])
    for k in ("evaluations", "distinct_nontrivial", "states", "transitions", "traces_validated_against_impl"):
        v.cov[k] += v2.cov[k]
    v.cov["tlc_runs"] += v2.cov["tlc_runs"]
    v.cov["samples"] += v2.cov["samples"][:1]
    v.cov["dsa_executions"] = v2.cov["evaluations"]
    v.cov["exhaustive"] = False
    v.cov["rule"] = ("part 1: for 7 constraint-scope sets over x:3 y:2 z:2 values (unary, binary in both orders, two constraints, ternary, "
                     "parallel), tables and own-cost tables drawn by TLC over {0,1,-2,3,2^40,2^40+1,+inf} and {..,-inf} (never both "
                     "infinities), every assignment of the other variables, min and max: find_optimal; every unary table: "
                     "find_arg_optimal; every own-cost table: optimal_cost_value; projection with infinite entries; expected value "
                     "sets and costs from Relations.tla / Gen_C06.tla; non-trivial = the optimal value set is a strict subset of the "
                     "domain. part 2: real DSA A/B/C executions; AlgoMon checks each value change against ArgBestLocal (Dcop.tla) "
                     "computed from the k-th value message of every neighbour")
    v.cov["rule"] += (". part 3: Dsa.tla (implementation-shaped model of DsaComputation A/B/C) checked by TLC over every start order, "
                      "FIFO delivery order and random draw (initial value, probability test, choice among the candidates) on TLC-drawn "
                      "instances, invariant MovesAreBestResponses; every explored transition replayed on the real computations")
    v.cov["trusted_base"] = ["TLC evaluation of Relations.tla/Costs.tla/Dcop.tla/AlgoMon.tla/Dsa.tla", "vlib/cases.py", "vlib/simrt.py"]
    from ..dsamodel import model_part
    model_part(v, tier, ["MovesAreBestResponses", "ValueInDomain"], {"C06_dsa_move_not_best_response"}, ["dsa"], seed_off=6, stop=3 if quick else 4)
    # A-DSA (periodic actions): Adsa.tla over every order of starts, timer firings and deliveries up to MaxTicks ticks per computation,
    # every transition replayed on the real ADsaComputation objects
    from ..adsamodel import model_part as adsa_part
    adsa_part(v, tier, {"C06_dsa_move_not_best_response"}, ["adsa"], seed_off=6)
    return v.finish()


from ..algocheck import replay  # noqa: E402,F401
