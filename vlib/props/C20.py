"""C20 - discovery views converge to the directory for subscribed items.
TLC (Gen_C20 / Discovery.tla) enumerates histories of discovery operations and single-message deliveries (exhaustively up to
a length, then -simulate for longer ones); each history is executed on REAL Agent / Discovery / Directory objects (agent
threads not started, inter-agent messages held in per-pair FIFO channels so that every delivery order can be imposed); at
every drain point the directory's and the agents' tables are observed and TLC (Judge_C20) checks, with the subscriptions the
specification derives from the operations, that each subscribed view equals the directory, that no handler raised, and
that every change of a callback-subscribed item fired a callback."""
import json, random, collections
from ..common import Verdict, seed, scratch, MachineryError
from .. import tlc, callcheck as CC
from ..agentrt import AgentWorld

AGENTS, COMPS = ["a1", "a2"], ["c1", "c2"]
GEN_CFG = "INIT Init\nNEXT Next\nINVARIANT Emit\n"
JUDGE_CFG = "INIT Init\nNEXT Next\nINVARIANT Emit\n"


class World:
    def __init__(self, sched_seed):
        self.w = AgentWorld()
        self.w.add_directory_agent("orchestrator")
        self.chan = collections.defaultdict(list)
        self.rnd = random.Random(sched_seed)
        for a in AGENTS:
            self.w.add_agent(a)
        for name, ag in self.w.agents.items():
            ag._comm.send_msg = self._sender(name)
        self.w.boot("orchestrator")
        for a in AGENTS:
            self.w.boot(a)
        self.cblog = []
        self.pub_delivered, self.pub_ops = [], []
        self.cbs = collections.defaultdict(list)      # persistent callbacks registered per (agent, computation)
        self.silent, self.refused = [], []
        self.drain()
        self.w.exc.clear()

    def _sender(self, me):
        def send_msg(src_agent, dest_agent, msg, on_error=None, from_retry=False):
            self.chan[(src_agent, dest_agent)].append(msg)
            return True
        return send_msg

    def deliver(self, src, dst):
        q = self.chan[(src, dst)]
        if not q:
            return False
        msg = q.pop(0)
        if dst == "orchestrator" and msg.msg.type == "publish_computation":
            self.pub_delivered.append((msg.msg.computation, msg.msg.agent))
        before = self.views()
        n0 = len(self.cblog)
        self.w.agents[dst]._comm.receive_msg(src, dst, msg)
        self.w.drain(dst)
        self.check_silent(before, n0)
        return True

    def drain(self):
        for _ in range(2000):
            ne = [k for k, q in self.chan.items() if q]
            if not ne:
                return
            self.deliver(*self.rnd.choice(sorted(ne)))
        raise MachineryError("discovery messages never drain")

    # ---- observation -------------------------------------------------------
    def views(self):
        out = {}
        for a in AGENTS:
            d = self.w.agents[a].discovery
            for c in COMPS:
                out[(a, "C", c)] = (d._computations_data.get(c, ""), len(d._computation_cbs.get(c, ())) if c in d._computation_cbs else 0)
                out[(a, "R", c)] = (tuple(sorted(d._replicas_data[c])) if c in d._replicas_data else (),
                                    len(d._replicas_cbs.get(c, ())) if c in d._replicas_cbs else 0)
        return out

    def check_silent(self, before, n0):
        after = self.views()
        events = self.cblog[n0:]
        for (a, kind, c), (val, ncb) in before.items():
            if after[(a, kind, c)][0] != val and ncb > 0:
                if not any(e[0] == a and e[1] == kind and e[2] == c for e in events):
                    self.silent.append({"a": a, "c": c, "kind": kind})

    def late_publications(self):
        """computations whose publications by different agents reached the directory in another order than they were made"""
        out = []
        for c in COMPS:
            made = [a for cc, a in self.pub_ops if cc == c]
            got = [a for cc, a in self.pub_delivered if cc == c and cc in COMPS]
            if got != made[:len(got)]:
                out.append(c)
        return out

    def observe(self, at):
        dd = self.w.directory
        return {"at": at,
                "dirC": {c: dd._computations_data.get(c, "") for c in COMPS},
                "dirR": {c: sorted(dd.discovery._replicas_data[c]) if c in dd.discovery._replicas_data else [] for c in COMPS},
                "viewC": {a: {c: self.w.agents[a].discovery._computations_data.get(c, "") for c in COMPS} for a in AGENTS},
                "viewR": {a: {c: (sorted(self.w.agents[a].discovery._replicas_data[c]) if c in self.w.agents[a].discovery._replicas_data else [])
                              for c in COMPS} for a in AGENTS}}

    # ---- operations -----------------------------------------------------------
    def cb(self, a, kind, c):
        return lambda evt, item, agent: self.cblog.append((a, kind, c, evt))

    def op(self, o):
        k, a, c = o["k"], o["a"], o["c"]
        if k == "dl":
            return self.deliver(a, "orchestrator") if c == "up" else self.deliver("orchestrator", a)
        if k == "drain":
            self.drain()
            return True
        ag = self.w.agents[a]
        d = ag.discovery
        before = self.views()
        n0 = len(self.cblog)
        try:
            if k == "reg":
                self.pub_ops.append((c, a))
                d.register_computation(c, a, ag.address)
            elif k == "unreg":
                self.cbs[(a, c)].clear()
                d.unregister_computation(c, a)
            elif k == "sub":
                d.subscribe_computation(c)
            elif k == "subcb":
                f = self.cb(a, "C", c)
                self.cbs[(a, c)].append(f)
                d.subscribe_computation(c, f)
            elif k == "unsubcb":
                d.unsubscribe_computation(c, self.cbs[(a, c)].pop())
            elif k == "subone":
                d.subscribe_computation(c, self.cb(a, "C", c), one_shot=True)
            elif k == "unsub":
                self.cbs[(a, c)].clear()
                d.unsubscribe_computation(c)
            elif k == "rep":
                d.register_replica(c, a)
            elif k == "unrep":
                d.unregister_replica(c, a)
            elif k == "rsub":
                d.subscribe_replica(c)
            elif k == "rsubcb":
                d.subscribe_replica(c, self.cb(a, "R", c))
            elif k == "runsub":
                d.unsubscribe_replica(c)
            else:
                raise MachineryError("unknown operation %r" % o)
        except MachineryError:
            raise
        except Exception as e:     # the API call itself refused (e.g. replica of a computation not known locally yet)
            self.refused.append({"op": o, "why": "%s: %s" % (type(e).__name__, str(e)[:80])})
            return False
        self.w.drain(a)
        if k not in ("runsub", "unsub"):      # (an unsubscription removes the callbacks in the very call that drops the entry)
            self.check_silent(before, n0)
        return True


def execute(hid, ops, sched_seed):
    w = World(sched_seed)
    done, obs = [], []
    for o in ops:
        if w.op(o) and o["k"] not in ("dl", "drain"):
            done.append(o)
        if o["k"] == "drain":
            obs.append(w.observe(len(done)))
    w.drain()
    obs.append(w.observe(len(done)))
    exc = [{"agent": e[0], "what": "%s handling %s from %s" % (e[4].split(":")[0], e[3], e[1])} for e in w.w.exc]
    return {"id": hid, "agents": AGENTS, "comps": COMPS, "ops": done, "obs": obs, "exc": exc,
            "silent": [x for x in w.silent], "refused": w.refused, "script": ops, "sched_seed": sched_seed,
            "late_pub": w.late_publications()}, w


def run(tier):
    quick = tier == "quick"
    v = Verdict("C20", tier, "model_checking")
    consts = dict(Agents=set(AGENTS), Comps=set(COMPS))
    cases, res = CC.generate("Gen_C20", consts=dict(consts, MaxLen=3 if quick else 4, Exhaustive=True, WithDeliveries=True), cfg=GEN_CFG, workers=8,
                             heap="6g", silent_states=1)
    v.add_tlc(res, "all histories of at most %d operations / single deliveries (Gen_C20 over Discovery.tla)" % (3 if quick else 4))
    # one computation, no explicit deliveries (every history is drained in a seeded order at its end): one operation deeper
    cases1, res1 = CC.generate("Gen_C20", consts=dict(Agents=set(AGENTS), Comps={"c1"}, MaxLen=4 if quick else 5, Exhaustive=True, WithDeliveries=False),
                               cfg=GEN_CFG, workers=8, heap="6g", silent_states=1)
    v.add_tlc(res1, "all histories of at most %d operations on one computation (Gen_C20)" % (4 if quick else 5))
    cases = cases + cases1
    sim = tlc.run("Gen_C20", GEN_CFG, consts=dict(consts, MaxLen=10, Exhaustive=False, WithDeliveries=True), workers=1, simulate=400 if quick else 6000, depth=11,
                  seed=seed() + 20, timeout=240 if quick else 1200)
    v.add_tlc(sim, "random histories of 10 operations (TLC -simulate)")
    longer = [c[0] for c in sim.tagged("CASE")]
    hist = []
    r = random.Random(seed() + 20)
    for case in cases + longer:
        for rep in range(1 if len(case["ops"]) <= 3 else 2):
            h, _ = execute(len(hist), case["ops"], r.randrange(10 ** 6))
            hist.append(h)
    from ..judge import judge
    verdicts, jres = judge("Judge_C20", hist, strip=("refused", "script", "sched_seed", "late_pub"))
    v.add_tlc(jres, "convergence judged on %d executed histories (Judge_C20 / Discovery.tla)" % len(hist))
    refused = collections.Counter()
    for h in hist:
        v.cov["evaluations"] += 1
        v.cov["traces_validated_against_impl"] += 1
        for x in h["refused"]:
            refused[x["op"]["k"] + ": " + x["why"].split(":")[0]] += 1
        if any(o["k"] in ("sub", "subcb", "subone", "rsub", "rsubcb") for o in h["ops"]):
            v.cov["distinct_nontrivial"] += 1
        seen = set()
        for b in verdicts[h["id"]]:
            clause = b[0]
            if clause in seen:
                continue
            seen.add(clause)
            kinds = [o["k"] for o in h["ops"]]
            key = {"clause": clause, "after_unreg": "unreg" in kinds, "after_runsub": "runsub" in kinds, "after_unsub": "unsub" in kinds,
                   "with_replica": "rep" in kinds}
            if clause == "computation_view_differs_from_directory":
                view, dirv, host = b[3], b[4], b[5]
                key["diagnosis"] = ("stale_entry_for_unhosted_computation" if dirv == "" and host == "" and view != "" else
                                "directory_lost_a_hosted_computation" if dirv == "" and host != "" else
                                "view_misses_directory_entry" if view == "" else "view_and_directory_name_different_hosts")
                key["publications_overtook_each_other"] = b[2] in h["late_pub"]
            v.violation(key, "%s for %s (operations %s)" % (clause, b[1:], " ".join("%s(%s,%s)" % (o["k"], o["a"], o["c"]) for o in h["ops"])),
                        {"script": h["script"], "sched_seed": h["sched_seed"], "obs": h["obs"][-1], "exc": h["exc"], "bad": verdicts[h["id"]]})
        if not verdicts[h["id"]] and len(h["ops"]) >= 5:
            v.sample({"ops": ["%s(%s,%s)" % (o["k"], o["a"], o["c"]) for o in h["ops"]], "final": h["obs"][-1]}, cap=2)
    v.cov["api_calls_refused"] = dict(refused)
    v.cov["exhaustive"] = True
    v.cov["rule"] = ("every history of at most %d enabled operations (register / unregister computation, subscribe without / with / one-shot "
                     "callback, unsubscribe, publish / unpublish replica, subscribe / unsubscribe replicas, by 2 agents on 2 computations) and "
                     "single-message deliveries on the 4 agent<->directory channels, then TLC-simulated histories of 10; each executed on real "
                     "agents with a seeded drain order; non-trivial = the history contains a subscription" % (3 if quick else 4))
    v.cov["trusted_base"] = ["TLC", "vlib/agentrt.py", "the channel interception of vlib/props/C20.py (inter-agent sends held in per-pair FIFO lists)"]
    v.assumptions = ["agents register at boot and stay; agent subscriptions and agent removal are exercised by C27, not here"]
    return v.finish()


def replay(path):
    d = json.load(open(path))
    h, w = execute(0, d["replay"]["script"], d["replay"]["sched_seed"])
    print(json.dumps(h["obs"][-1]), h["exc"], h["silent"])
    same = json.dumps(h["obs"][-1], sort_keys=True) == json.dumps(d["replay"]["obs"], sort_keys=True)
    print("same final observation as recorded:", same)
    return 1 if same else 0
