"""C20 - discovery views converge to the directory for subscribed items.
TLC (Gen_C20 / Discovery.tla) enumerates histories of discovery operations and single-message deliveries (exhaustively up to
a length, then -simulate for longer ones); each history is executed on REAL Agent / Discovery / Directory objects (agent
threads not started, inter-agent messages held in per-pair FIFO channels so that every delivery order can be imposed); at
every drain point the directory's and the agents' tables are observed and TLC (Judge_C20) checks, with the subscriptions the
specification derives from the operations, that each subscribed view equals the directory, that no handler raised, and
that every change of a callback-subscribed item fired a callback."""
import json, random, collections
from ..common import Verdict, seed, scratch, MachineryError
from .. import tlc, callcheck as CC
from ..agentrt import AgentWorld

AGENTS, COMPS = ["a1", "a2"], ["c1", "c2"]
GEN_CFG = "INIT Init\nNEXT Next\nINVARIANT Emit\n"
JUDGE_CFG = "INIT Init\nNEXT Next\nINVARIANT Emit\n"


class World:
    def __init__(self, sched_seed, agents=None):
        self.AG = list(agents or AGENTS)
        self.w = AgentWorld()
        self.w.add_directory_agent("orchestrator")
        self.chan = collections.defaultdict(list)
        self.rnd = random.Random(sched_seed)
        # drain order: seeded random choice among the non-empty channels, or (seed % 3 = 1, 2) the channels in a fixed priority
        # order - everything one agent sent to the directory before what the other one sent, notifications last / first
        self.policy = sched_seed % 3
        for a in self.AG:
            self.w.add_agent(a)
        for name, ag in self.w.agents.items():
            ag._comm.send_msg = self._sender(name)
        self.w.boot("orchestrator")
        for a in self.AG:
            self.w.boot(a)
        self.cblog = []
        self.pub_delivered, self.pub_ops = [], []
        self.asub_delivered = []      # (subscriber, agent, the directory knew the agent) of every agent subscription the directory got
        self.cbs = collections.defaultdict(list)      # persistent callbacks registered per (agent, computation)
        self.silent, self.refused = [], []
        self.drain()
        self.w.exc.clear()

    def _sender(self, me):
        def send_msg(src_agent, dest_agent, msg, on_error=None, from_retry=False):
            self.chan[(src_agent, dest_agent)].append(msg)
            return True
        return send_msg

    def deliver(self, src, dst):
        q = self.chan[(src, dst)]
        if not q:
            return False
        msg = q.pop(0)
        if dst == "orchestrator" and msg.msg.type == "publish_computation":
            self.pub_delivered.append((msg.msg.computation, msg.msg.agent))
        if dst == "orchestrator" and msg.msg.type == "subscribe_agent" and msg.msg.subscribe:
            self.asub_delivered.append([src, msg.msg.agent, msg.msg.agent in self.w.directory.discovery._agents_data])
        before = self.views()
        n0 = len(self.cblog)
        self.w.agents[dst]._comm.receive_msg(src, dst, msg)
        self.w.drain(dst)
        self.check_silent(before, n0)
        return True

    def drain(self):
        for _ in range(2000):
            ne = [k for k, q in self.chan.items() if q]
            if not ne:
                return
            ne = sorted(ne)
            self.deliver(*(self.rnd.choice(ne) if self.policy == 0 else ne[0] if self.policy == 1 else ne[-1]))
        raise MachineryError("discovery messages never drain")

    # ---- observation -------------------------------------------------------
    def views(self):
        out = {}
        for a in self.AG:
            d = self.w.agents[a].discovery
            for c in COMPS:
                out[(a, "C", c)] = (d._computations_data.get(c, ""), len(d._computation_cbs.get(c, ())) if c in d._computation_cbs else 0)
                out[(a, "R", c)] = (tuple(sorted(d._replicas_data[c])) if c in d._replicas_data else (),
                                    len(d._replicas_cbs.get(c, ())) if c in d._replicas_cbs else 0)
        return out

    def check_silent(self, before, n0):
        after = self.views()
        events = self.cblog[n0:]
        for (a, kind, c), (val, ncb) in before.items():
            if after[(a, kind, c)][0] != val and ncb > 0:
                if not any(e[0] == a and e[1] == kind and e[2] == c for e in events):
                    self.silent.append({"a": a, "c": c, "kind": kind})

    def late_publications(self):
        """computations whose publications by different agents reached the directory in another order than they were made"""
        out = []
        for c in COMPS:
            made = [a for cc, a in self.pub_ops if cc == c]
            got = [a for cc, a in self.pub_delivered if cc == c and cc in COMPS]
            if got != made[:len(got)]:
                out.append(c)
        return out

    def observe(self, at):
        dd = self.w.directory
        return {"at": at,
                "dirC": {c: dd._computations_data.get(c, "") for c in COMPS},
                "dirR": {c: sorted(dd.discovery._replicas_data[c]) if c in dd.discovery._replicas_data else [] for c in COMPS},
                "dirA": sorted(x for x in self.AG if x in dd.discovery._agents_data),
                "viewA": {a: sorted(x for x in self.AG if x in self.w.agents[a].discovery._agents_data) for a in self.AG},
                "viewC": {a: {c: self.w.agents[a].discovery._computations_data.get(c, "") for c in COMPS} for a in self.AG},
                "viewR": {a: {c: (sorted(self.w.agents[a].discovery._replicas_data[c]) if c in self.w.agents[a].discovery._replicas_data else [])
                              for c in COMPS} for a in self.AG}}

    # ---- operations -----------------------------------------------------------
    def cb(self, a, kind, c):
        return lambda evt, item, agent: self.cblog.append((a, kind, c, evt))

    def op(self, o):
        k, a, c = o["k"], o["a"], o["c"]
        if k == "dl":
            return self.deliver(a, "orchestrator") if c == "up" else self.deliver("orchestrator", a)
        if k == "drain":
            self.drain()
            return True
        ag = self.w.agents[a]
        d = ag.discovery
        before = self.views()
        n0 = len(self.cblog)
        try:
            if k == "reg":
                self.pub_ops.append((c, a))
                d.register_computation(c, a, ag.address)
            elif k == "unreg":
                self.cbs[(a, c)].clear()
                d.unregister_computation(c, a)
            elif k == "sub":
                d.subscribe_computation(c)
            elif k == "subcb":
                f = self.cb(a, "C", c)
                self.cbs[(a, c)].append(f)
                d.subscribe_computation(c, f)
            elif k == "unsubcb":
                d.unsubscribe_computation(c, self.cbs[(a, c)].pop())
            elif k == "subone":
                d.subscribe_computation(c, self.cb(a, "C", c), one_shot=True)
            elif k == "unsub":
                self.cbs[(a, c)].clear()
                d.unsubscribe_computation(c)
            elif k == "rep":
                d.register_replica(c, a)
            elif k == "unrep":
                d.unregister_replica(c, a)
            elif k == "rsub":
                d.subscribe_replica(c)
            elif k == "rsubcb":
                d.subscribe_replica(c, self.cb(a, "R", c))
            elif k == "runsub":
                d.unsubscribe_replica(c)
            elif k == "asub":
                d.subscribe_agent(c)
            elif k == "asubcb":
                d.subscribe_agent(c, self.cb(a, "A", c))
            elif k == "aunsub":
                d.unsubscribe_agent(c)
            elif k == "aunreg":
                d.unregister_agent(a)
            elif k == "areg":
                d.register_agent(a, ag.address)
            else:
                raise MachineryError("unknown operation %r" % o)
        except MachineryError:
            raise
        except Exception as e:     # the API call itself refused (e.g. replica of a computation not known locally yet)
            self.refused.append({"op": o, "why": "%s: %s" % (type(e).__name__, str(e)[:80])})
            return False
        self.w.drain(a)
        if k not in ("runsub", "unsub", "aunsub", "aunreg"):      # (an unsubscription removes the callbacks in the very call that drops the entry)
            self.check_silent(before, n0)
        return True


def execute(hid, ops, sched_seed, agents=None):
    w = World(sched_seed, agents)
    done, obs = [], []
    for o in ops:
        if w.op(o) and o["k"] not in ("dl", "drain"):
            done.append(o)
        if o["k"] == "drain":
            obs.append(w.observe(len(done)))
    w.drain()
    obs.append(w.observe(len(done)))
    exc = [{"agent": e[0], "what": "%s handling %s from %s" % (e[4].split(":")[0], e[3], e[1])} for e in w.w.exc]
    return {"id": hid, "agents": w.AG, "comps": COMPS, "ops": done, "obs": obs, "exc": exc,
            "silent": [x for x in w.silent], "refused": w.refused, "script": ops, "sched_seed": sched_seed,
            "late_pub": w.late_publications(), "asub_delivered": list(w.asub_delivered)}, w


PROTO_CFG = """INIT Init
NEXT Next
INVARIANT DirectoryTrueInOrder
INVARIANT ConvergedIfNeverDropped
INVARIANT SubscribedAtDirectory
INVARIANT ViewsNameRealHosts
INVARIANT ReplicaConvergedIfStable
INVARIANT DirectoryRepTrueIfStable
INVARIANT AgentConvergedIfNeverDropped
VIEW View
ACTION_CONSTRAINT Edge
"""
PROTO_CEX_CFG = "INIT Init\nNEXT Next\nINVARIANT %s\nVIEW View\n"
_KIND = {"publish_computation": ("pub", "added"), "unpublish_computation": ("unpub", "removed")}


def proto_project(w, nops, comps):
    """the real objects in the shape of DiscoveryProtocol!Proj"""
    dd = w.w.directory

    def summ(q, down):
        out = []
        for m in q:
            t = m.msg.type
            if t == "subscribe_computation":
                out.append({"t": "sub", "c": m.msg.computation, "a": "on" if m.msg.subscribe else "off"})
            elif t == "subscribe_agent":
                out.append({"t": "asub", "c": m.msg.agent, "a": "on" if m.msg.subscribe else "off"})
            elif t == "publish_agent":
                out.append({"t": "agAdded" if down else "pubA", "c": "", "a": m.msg.agents})
            elif t == "unpublish_agent":
                out.append({"t": "agRemoved" if down else "unpubA", "c": "", "a": m.msg.agent})
            elif t == "subscribe_replica":
                out.append({"t": "rsub", "c": m.msg.replica, "a": "on" if m.msg.subscribe else "off"})
            elif t == "publish_replica":
                out.append({"t": ("repAdded" if m.msg.publish else "repRemoved") if down else ("repOn" if m.msg.publish else "repOff"),
                            "c": m.msg.replica, "a": m.msg.agent})
            elif t in _KIND:
                out.append({"t": _KIND[t][1 if down else 0], "c": m.msg.computation, "a": m.msg.agent})
            else:
                out.append({"t": t, "c": "", "a": ""})
        return out
    disc = {a: w.w.agents[a].discovery for a in w.AG}
    cbs = {a: {c: list(dict.get(disc[a]._computation_cbs, c, ())) for c in comps} for a in w.AG}
    rcbs = {a: {c: list(dict.get(disc[a]._replicas_cbs, c, ())) for c in comps} for a in w.AG}
    acbs = {a: {b: list(dict.get(disc[a]._agent_cbs, b, ())) for b in w.AG} for a in w.AG}
    return {"vAg": {a: sorted(b for b in w.AG if b in disc[a]._agents_data) for a in w.AG},
            "akey": {a: {b: dict.__contains__(disc[a]._agent_cbs, b) for b in w.AG} for a in w.AG},
            "apcb": {a: {b: len(acbs[a][b]) for b in w.AG} for a in w.AG},
            "dAg": sorted(b for b in w.AG if b in dd._agents_data),
            "dSubA": {b: sorted(x.replace("_discovery_", "") for x in dict.get(dd._subscription_agents, b, ())) for b in w.AG},"vRep": {a: {c: sorted(dict.get(disc[a]._replicas_data, c, ())) for c in comps} for a in w.AG},
            "rkey": {a: {c: dict.__contains__(disc[a]._replicas_cbs, c) for c in comps} for a in w.AG},
            "rpcb": {a: {c: len(rcbs[a][c]) for c in comps} for a in w.AG},
            "dRep": {c: sorted(dict.get(dd.discovery._replicas_data, c, ())) for c in comps},
            "dSubR": {c: sorted(x.replace("_discovery_", "") for x in dict.get(dd._subscription_replicas, c, ())) for c in comps},"vHost": {a: {c: disc[a]._computations_data.get(c, "") for c in comps} for a in w.AG},
            "key": {a: {c: dict.__contains__(disc[a]._computation_cbs, c) for c in comps} for a in w.AG},
            "pcb": {a: {c: sum(1 for _, one in cbs[a][c] if not one) for c in comps} for a in w.AG},
            "ocb": {a: {c: sum(1 for _, one in cbs[a][c] if one) for c in comps} for a in w.AG},
            "dHost": {c: dd._computations_data.get(c, "") for c in comps},
            "dSub": {c: sorted(x.replace("_discovery_", "") for x in dict.get(dd._subscription_computations, c, ())) for c in comps},
            "up": {a: summ(w.chan[(a, "orchestrator")], False) for a in w.AG},
            "down": {a: summ(w.chan[("orchestrator", a)], True) for a in w.AG}, "nops": nops}


def proto_op(a):
    return {"k": "dl", "a": a["a"], "c": a["n"]} if a["n"] in ("up", "down") else {"k": a["n"], "a": a["a"], "c": a["c"]}


def protocol_part(v, quick, hist):
    """DiscoveryProtocol.tla: (1) model-checked exhaustively with the invariants that hold, every explored transition replayed on
    the real Discovery / Directory objects with full projection comparison; (2) the statement itself (Converged, DirectoryTrue) is
    violated in the model: TLC's counterexamples are executed on the real objects and judged with the other histories - they have
    to show a violation there too (otherwise the model is wrong), and it has to be a known finding (otherwise it is reported)"""
    from .. import replay as RP
    tot = {"edges": 0, "paths": 0, "steps": 0, "configs": []}
    # (replicas: 12 kinds of API calls instead of 7; the computation part alone goes one call deeper)
    configs = [({"c1"}, 3, True, False), ({"c1"}, 3, False, True)] if quick else \
        [({"c1"}, 5, True, False), ({"c1"}, 6, False, False), ({"c1", "c2"}, 4, False, False), ({"c1", "c2"}, 3, True, False), ({"c1"}, 4, False, True), ({"c1"}, 4, True, True)]
    order = "@<<" + ", ".join('"%s"' % a for a in list(set(AGENTS))) + ">>"     # the interpreter's iteration order of a set of agents
    for comps, maxops, withrep, withag in configs:
        consts = dict(Agents=set(AGENTS), Comps=comps, MaxOps=maxops, WithReplicas=withrep, WithAgents=withag, AgentOrder=order)
        g, res = RP.dump_edges("DiscoveryProtocol", PROTO_CFG, consts=consts, heap="6g")
        if res.violated or res.errors:
            raise MachineryError("DiscoveryProtocol.tla: %s %s" % (res.violated, res.errors[:2]))
        v.add_tlc(res, "exhaustive model checking of DiscoveryProtocol.tla (%d computation(s), at most %d API calls%s, all deliveries) + labelled edge dump" % (
            len(comps), maxops, (", replicas included" if withrep else "") + (", agent subscriptions / departures included" if withag else "")))
        cl = sorted(comps)
        init = proto_project(World(0), 0, cl)
        paths = g.cover(init, max_len=40)
        tot["edges"] += g.nedges
        tot["configs"].append({"computations": len(comps), "max_api_calls": maxops, "replicas": withrep, "agents": withag, "states": res.distinct, "edges": g.nedges, "paths": len(paths)})
        for pi, path in enumerate(paths):
            w = World(0)
            nops = 0
            for k, (a, exp) in enumerate(path):
                w.op(proto_op(a))
                if a["n"] not in ("up", "down"):
                    nops += 1
                tot["steps"] += 1
                got = proto_project(w, nops, cl)
                exp = dict(exp, **{f: {c: sorted(x) for c, x in exp[f].items()} for f in ("dSub", "dSubR", "dRep")})
                exp["vRep"] = {a_: {c: sorted(x) for c, x in m_.items()} for a_, m_ in exp["vRep"].items()}
                exp["vAg"] = {a_: sorted(x) for a_, x in exp["vAg"].items()}
                exp["dAg"] = sorted(exp["dAg"])
                exp["dSubA"] = {b_: sorted(x) for b_, x in exp["dSubA"].items()}
                diff = RP.first_diff(got, exp)
                if diff:
                    v.divergence("DiscoveryProtocol path %d step %d (%s): real objects differ from the model at %s" % (pi, k, a, diff))
                    break
            if w.w.exc:
                v.divergence("DiscoveryProtocol path %d: handler raised %s" % (pi, w.w.exc[0][4][:80]))
        tot["paths"] += len(paths)
    # the statement, unrestricted
    cex = []
    for inv in ("Converged", "DirectoryTrue", "ReplicaConverged", "DirectoryRepTrue", "AgentConverged"):
        res = tlc.run("DiscoveryProtocol", PROTO_CEX_CFG % inv, consts=dict(Agents=set(AGENTS), Comps={"c1"}, MaxOps=5, WithReplicas=inv.find("Rep") >= 0,
                                                                            WithAgents=inv.startswith("Agent"), AgentOrder=order), workers=1)
        acts = [st["act"] for st in (res.trace_json or [])[1:] if isinstance(st.get("act"), dict)]
        if not res.violated:
            v.notes.append("DiscoveryProtocol.tla no longer violates %s within 5 API calls" % inv)
            continue
        if not acts:
            raise MachineryError("DiscoveryProtocol.tla violates %s and TLC gave no counterexample" % inv)
        v.add_tlc(res, "DiscoveryProtocol.tla, the statement itself (%s): violated in the model, counterexample of %d steps" % (inv, len(acts)))
        script = [proto_op(a) for a in acts]
        h, w = execute(len(hist), script, 0)
        hist.append(h)
        # the real objects end where the model's counterexample ends
        last = res.trace_json[-1]
        got = proto_project(w, 0, ["c1"])
        last = dict(last, dRep={c: sorted(x) for c, x in last["dRep"].items()}, vRep={a_: {c: sorted(x) for c, x in m_.items()} for a_, m_ in last["vRep"].items()})
        last["vAg"] = {a_: sorted(x) for a_, x in last["vAg"].items()}
        last["dAg"] = sorted(last["dAg"])
        for f in ("vHost", "dHost", "vRep", "dRep", "vAg", "dAg"):
            if got[f] != last[f]:
                # (on the unchanged tree this means the model is wrong; on a changed tree, that the code left the model)
                v.divergence("DiscoveryProtocol.tla violates %s; the real objects, driven along TLC's counterexample, end with %s = %s where "
                             "the model has %s" % (inv, f, got[f], last[f]))
        if inv in ("Converged", "ReplicaConverged", "AgentConverged"):          # (the Directory... ones are not part of the statement: they are root causes of findings)
            cex.append((h["id"], inv, script))
        v.cov.setdefault("statement_counterexamples_reproduced_on_the_real_objects", []).append(
            {"invariant": inv, "script": ["%s(%s,%s)" % (o["k"], o["a"], o["c"]) for o in script], "real_final": {f: got[f] for f in ("vHost", "dHost", "vRep", "dRep", "vAg", "dAg")}})
    v.cov["discovery_protocol_model"] = tot
    v.cov["replayed_paths"] = tot["paths"]
    v.cov["replayed_steps"] = tot["steps"]
    v.cov["model_edges"] = tot["edges"]
    return cex


def run(tier):
    quick = tier == "quick"
    v = Verdict("C20", tier, "model_checking")
    consts = dict(Agents=set(AGENTS), Comps=set(COMPS))
    ALL = {"reg", "unreg", "sub", "subcb", "subone", "unsub", "unsubcb", "rep", "unrep", "rsub", "rsubcb", "runsub"}
    consts = dict(consts, Kinds=ALL, WithAgentOps=False, DrainOnly=False)
    cases, res = CC.generate("Gen_C20", consts=dict(consts, MaxLen=3 if quick else 4, Exhaustive=True, WithDeliveries=True), cfg=GEN_CFG, workers=8,
                             heap="6g", silent_states=1)
    v.add_tlc(res, "all histories of at most %d computation / replica operations / single deliveries (Gen_C20 over Discovery.tla)" % (3 if quick else 4))
    # one computation, no explicit deliveries (every history is drained in a seeded order at its end): one operation deeper
    cases1, res1 = CC.generate("Gen_C20", consts=dict(consts, Comps={"c1"}, MaxLen=4 if quick else 5, Exhaustive=True, WithDeliveries=False),
                               cfg=GEN_CFG, workers=8, heap="6g", silent_states=1)
    v.add_tlc(res1, "all histories of at most %d computation / replica operations on one computation (Gen_C20)" % (4 if quick else 5))
    # agent subscriptions and departures, with the computation operations that make an agent known to another one
    casesA, resA = CC.generate("Gen_C20", consts=dict(consts, Comps={"c1"}, Kinds={"reg", "unreg", "sub", "rep"}, WithAgentOps=True, MaxLen=4,
                                                      Exhaustive=True, WithDeliveries=False), cfg=GEN_CFG, workers=8, heap="6g", silent_states=1)
    v.add_tlc(resA, "all histories of at most 4 operations among agent subscriptions, departures, register / unregister / subscribe / replica (Gen_C20)")
    # three agents (a subscriber, a host and the holder of a replica are three different agents), registrations and replicas
    cases3, res3 = CC.generate("Gen_C20", consts=dict(consts, Agents={"a1", "a2", "a3"}, Comps={"c1"}, Kinds={"reg", "sub", "rsub", "rep"},
                                                      MaxLen=6, Exhaustive=True, WithDeliveries=True, DrainOnly=True), cfg=GEN_CFG, workers=8, heap="6g", silent_states=1)
    v.add_tlc(res3, "all histories of at most 6 operations / drains among register / subscribe / replica operations by three agents (Gen_C20)")
    # (what this family adds is about replica views: only the histories with a replica subscription and a replica are kept)
    n3 = len(cases3)
    cases3 = [c for c in cases3 if {"rep", "rsub"} <= {o["k"] for o in c["ops"]}]
    v.cov["three_agent_histories"] = {"generated": n3, "with_replica_and_subscription": len(cases3)}
    if quick and len(cases3) > 4000:
        random.Random(seed() + 2021).shuffle(cases3)
        cases3 = cases3[:4000]
    for c3 in cases3:
        c3["agents"] = ["a1", "a2", "a3"]
    v.cov["histories_generated"] = {"with_deliveries": len(cases), "one_computation": len(cases1), "agent_operations": len(casesA), "three_agents": len(cases3)}
    sampled = False
    if quick and len(casesA) > 4000:
        # (the quick tier executes a seeded sample of the agent-operation histories)
        random.Random(seed() + 2020).shuffle(casesA)
        casesA, sampled = casesA[:4000], True
    cases = cases + cases1 + casesA + cases3
    consts = dict(consts, WithAgentOps=True)
    sim = tlc.run("Gen_C20", GEN_CFG, consts=dict(consts, MaxLen=10, Exhaustive=False, WithDeliveries=True), workers=1, simulate=1000 if quick else 8000, depth=11,
                  seed=seed() + 20, timeout=240 if quick else 1200)
    v.add_tlc(sim, "random histories of 10 operations (TLC -simulate; about 25 histories per requested trace)")
    longer = [c[0] for c in sim.tagged("CASE")]
    hist = []
    r = random.Random(seed() + 20)
    for case in cases + longer:
        explicit = any(o["k"] in ("dl", "drain") for o in case["ops"])
        for rep in range(1 if explicit and (len(case["ops"]) <= 3 or (quick and len(case["ops"]) >= 10)) else 2 if explicit else 3):
            # (histories without explicit deliveries are drained at their end: once in a random order, once per priority order)
            h, _ = execute(len(hist), case["ops"], 3 * r.randrange(10 ** 6) + (rep if not explicit else 0), case.get("agents"))
            hist.append(h)
    cex = protocol_part(v, quick, hist)
    from ..judge import judge
    verdicts, jres = judge("Judge_C20", hist, strip=("refused", "script", "sched_seed", "late_pub", "asub_delivered"))
    v.add_tlc(jres, "convergence judged on %d executed histories (Judge_C20 / Discovery.tla)" % len(hist))
    for hid, inv, script in cex:
        if not verdicts[hid]:
            v.divergence("DiscoveryProtocol.tla violates %s but the real objects, driven along TLC's counterexample %s, converge: "
                         "the model and the code differ" % (inv, script))
    refused = collections.Counter()
    for h in hist:
        v.cov["evaluations"] += 1
        v.cov["traces_validated_against_impl"] += 1
        for x in h["refused"]:
            refused[x["op"]["k"] + ": " + x["why"].split(":")[0]] += 1
        if any(o["k"] in ("sub", "subcb", "subone", "rsub", "rsubcb", "asub", "asubcb") for o in h["ops"]):
            v.cov["distinct_nontrivial"] += 1
        seen = set()
        for b in verdicts[h["id"]]:
            clause = b[0]
            if clause in seen:
                continue
            seen.add(clause)
            kinds = [o["k"] for o in h["ops"]]
            key = {"clause": clause, "after_unreg": "unreg" in kinds, "after_runsub": "runsub" in kinds, "after_unsub": "unsub" in kinds,
                   "with_replica": "rep" in kinds, "agent_left": "aunreg" in kinds, "agent_back": "areg" in kinds}
            if clause == "computation_view_differs_from_directory":
                view, dirv, host = b[3], b[4], b[5]
                key["diagnosis"] = ("stale_entry_for_unhosted_computation" if dirv == "" and host == "" and view != "" else
                                "directory_lost_a_hosted_computation" if dirv == "" and host != "" else
                                "view_misses_directory_entry" if view == "" else "view_and_directory_name_different_hosts")
                key["publications_overtook_each_other"] = b[2] in h["late_pub"]
            if clause == "agent_view_differs_from_directory":
                # what the directory knew when it got this agent's last subscription to the other one
                got = [x for x in h["asub_delivered"] if x[0] == b[1] and x[1] == b[2]]
                stale = b[2] in h["obs"][-1]["viewA"][b[1]]
                key["diagnosis"] = ("stale_address_directory_did_not_know_the_agent_at_subscription" if stale and got and not got[-1][2] else
                                    "stale_address" if stale else "view_misses_registered_agent")
            v.violation(key, "%s for %s (operations %s)" % (clause, b[1:], " ".join("%s(%s,%s)" % (o["k"], o["a"], o["c"]) for o in h["ops"])),
                        {"script": h["script"], "sched_seed": h["sched_seed"], "agents": h["agents"], "obs": h["obs"][-1], "exc": h["exc"], "bad": verdicts[h["id"]]})
        if not verdicts[h["id"]] and len(h["ops"]) >= 5:
            v.sample({"ops": ["%s(%s,%s)" % (o["k"], o["a"], o["c"]) for o in h["ops"]], "final": h["obs"][-1]}, cap=2)
    v.cov["api_calls_refused"] = dict(refused)
    v.cov["exhaustive"] = not sampled
    v.cov["rule"] = ("every history of at most %d enabled operations (register / unregister computation, subscribe without / with / one-shot "
                     "callback, unsubscribe, publish / unpublish replica, subscribe / unsubscribe replicas, subscribe / unsubscribe to an agent, an agent "
                     "leaving, by 2 agents on 2 computations) and "
                     "single-message deliveries on the 4 agent<->directory channels, then TLC-simulated histories of 10; each executed on real "
                     "agents with a seeded drain order; non-trivial = the history contains a subscription" % (3 if quick else 4))
    v.cov["trusted_base"] = ["TLC", "vlib/agentrt.py", "the channel interception of vlib/props/C20.py (inter-agent sends held in per-pair FIFO lists)"]
    v.assumptions = ["agents register at boot; an agent that leaves (unregister_agent) does nothing afterwards, except registering again"]
    return v.finish()


def replay(path):
    d = json.load(open(path))
    h, w = execute(0, d["replay"]["script"], d["replay"]["sched_seed"], d["replay"].get("agents"))
    print(json.dumps(h["obs"][-1]), h["exc"], h["silent"])
    same = json.dumps(h["obs"][-1], sort_keys=True) == json.dumps(d["replay"]["obs"], sort_keys=True)
    print("same final observation as recorded:", same)
    return 1 if same else 0
