"""C02 - SyncBB finds the optimum of every binary-constraint DCOP."""
from ..algocheck import run_algo_check, replay  # noqa: F401

SHAPES = ["single", "pair", "pair3", "pairrev", "parallel", "isolated", "isomid", "isofirst", "gap4", "path3", "path3d3", "fork3", "triangle", "twocomp", "path4", "star4", "cycle4", "tritail"]
CLAUSES = {"EXC", "quiet_but_not_all_finished", "quiet_with_incomplete_assignment", "quiet_on_non_optimal_assignment"}


def run(tier):
    quick = tier == "quick"
    plans = []
    for alpha, stratum in (([0, 1, 2, 5], "nonneg"), ([0, 1, -2, 3], "signed")):
        plans.append(dict(algo="syncbb", params={}, props=["quiet_fin", "optq"], shapes=SHAPES, alpha=alpha, n=3 if quick else 10,
                          scheds=2 if quick else 4, policies=["random", "starts_first", "lag"], stratum=stratum))
    # SyncBB passes a single token: the schedule hardly matters, the inputs do.  Many instances over a tiny cost alphabet
    # (ties between branches and with the bound are frequent), one schedule each.
    plans.append(dict(algo="syncbb", params={}, props=["quiet_fin", "optq"], shapes=[x for x in SHAPES if x != "single"], alpha=[0, 1, 2],
                      n=25 if quick else 150, scheds=1, policies=["random"]))
    plans.append(dict(algo="syncbb", params={}, props=["quiet_fin", "optq"], shapes=["path3d3", "pair3", "pairrev", "triangle", "path4"], alpha=[1, 2, 3, 4],
                      n=15 if quick else 100, scheds=1, policies=["starts_first"]))
    v = run_algo_check("C02", tier, "model_checking", plans, CLAUSES,
                       nontrivial=lambda vd, m: vd["quiet"] and len(m["inst"]["vars"]) > 1,
                       key_extra=lambda vd, m: {"costs": "signed" if any(x < 0 for c in m["inst"]["cons"] for x in c["tab"]) else "nonneg"},
                       rule="instances: binary-constraint Gen_Dcop shapes (incl. variables without constraint, two components) in two strata, "
                            "non-negative costs and costs of both signs, min and max; optimum from Dcop!Opt; real SyncBB computations on the real "
                            "ordered graph under seeded start/delivery orders; at quiescence all computations must have finished and the held "
                            "values must form an optimal assignment; non-trivial = more than one variable and quiescence reached. "
                            "MODEL: SyncBB.tla (SyncBBComputation on the chain of the real ordered graph; get_next_assignment, the last variable's "
                            "sweep and the three handlers transcribed) checked by TLC over every start and delivery order (pre-start buffering and "
                            "re-injection included): invariants QuietMeansFinished, TerminatedMeansOptimal, FirstFinishesFirst, SingleToken, "
                            "ValueInDomain, BoundIsACost, PathsWellFormed, no deadlock before the end; every explored transition replayed on the real "
                            "computations with bounds, values, cycle counts, end flags and every message (path triples, bound) compared; on the "
                            "signed stratum TLC's counterexample to TerminatedMeansOptimal is replayed on the real computations and must fail there")
    from ..syncbbmodel import model_part
    model_part(v, tier, CLAUSES, ["quiet_fin", "optq"], seed_off=2)
    return v.finish()
