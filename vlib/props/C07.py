"""C07 - cycle-bounded local search (MGM, MGM2, DSA) finishes after exactly stop_cycle cycles."""
from ..algocheck import run_algo_check, replay  # noqa: F401

SMALL = ["single", "unary1", "pair", "parallel", "unarypair", "upath", "uall", "isolated", "isounary", "path3", "star4", "triangle", "tern", "ternpair"]
LARGE = ["twocomp", "path4", "cycle4", "tritail", "path5", "tern5", "path3d3", "pair3"]
CLAUSES = {"EXC", "quiet_but_not_all_finished", "C07_finished_at_wrong_cycle"}


def run(tier):
    quick = tier == "quick"
    plans = []
    for algo, extra in [("mgm", {}), ("mgm2", {}), ("dsa", {"variant": "A"}), ("dsa", {"variant": "B"}), ("dsa", {"variant": "C"})]:
        for k in ([1, 3] if quick else [1, 2, 3, 5]):
            params = dict(extra, stop_cycle=k)
            plans.append(dict(algo=algo, params=params, props=["quiet_fin", "stop"], k=k, shapes=SMALL if quick else SMALL + LARGE,
                              alpha=[0, 1, 2, 5, -1], vcalpha=[0, 1, 3], n=1 if quick else 3, scheds=4 if quick else 8,
                              with_init=(k % 2 == 1)))
    v = run_algo_check("C07", tier, "model_checking", plans, CLAUSES,
                       nontrivial=lambda vd, m: vd["allfin"] and m["steps"] > 1,
                       rule="instances: Gen_Dcop shapes (isolated variables, unary/binary/ternary constraints, parallel constraints, "
                            "2 components) with TLC-drawn tables; per instance several seeded per-channel-FIFO schedules under four policies "
                            "(random, all starts first, laggard computation, barrier); stop_cycle k in {1,2,3,5}; judged by AlgoMon clauses "
                            "EXC / quiet_but_not_all_finished / C07_finished_at_wrong_cycle; non-trivial = execution with >1 step that "
                            "reached all-finished, distinct by (algorithm, instance, policy, schedule class). "
                            "MODEL: Mgm.tla checked by TLC over every start order, FIFO delivery order and random draw (invariants "
                            "FinishedAtStop, QuietMeansFinished, absence of deadlock before the end, structural ones) for stop_cycle 1-3, "
                            "every explored transition replayed on the real MgmComputation objects; the same with Dsa.tla (variants A, B, C) "
                            "on the real DsaComputation objects")
    from ..mgmmodel import model_part
    for k in ([2] if quick else [1, 2, 4]):
        model_part(v, tier, ["FinishedAtStop", "QuietMeansFinished"], CLAUSES, ["quiet_fin", "stop"], seed_off=7 + k, stop=k,
                   shapes=["pair", "isolated", "isounary", "path3"] if quick else ["pair", "unarypair", "isolated", "isounary", "path3", "fork3", "triangle", "tern", "twocomp", "path3d3"])
    from ..mgm2model import model_part as mgm2_part
    mgm2_part(v, tier, ["FinishedAtStop", "QuietMeansFinished"], CLAUSES, ["quiet_fin", "stop"], seed_off=7, stop=2 if quick else 3,
              shapes=["pair", "isolated", "path3"] if quick else None)
    from ..dsamodel import model_part as dsa_model_part
    dsa_model_part(v, tier, ["FinishedAtStop", "QuietMeansFinished"], CLAUSES, ["quiet_fin", "stop"], seed_off=7)
    return v.finish()
