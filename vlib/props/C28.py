"""C28 - algorithm parameters are validated and completed exactly.
The real algo_params tables of every shipped algorithm are read from the modules and given to TLC as a constant;
Gen_C28/Params.tla enumerate user inputs (subsets of parameters x value kinds x unknown parameter) with the result
Params!Prepare defines; each is run through prepare_algo_params, AlgorithmDef.build_with_default_param and, when
all values are strings, commands._utils.build_algo_def ('name:value' strings)."""
import contextlib, io, json
from ..common import Verdict, seed, MachineryError
from .. import callcheck as CC
from pydcop.algorithms import (list_available_algorithms, load_algorithm_module, prepare_algo_params, AlgorithmDef,
                               AlgoParameterDef)

SYNTH = [AlgoParameterDef("label", "str", None, "x"), AlgoParameterDef("level", "int", [1, 2, 3], 2),
         AlgoParameterDef("ratio", "float", [0.5, 1.5], 0.5), AlgoParameterDef("limit", "int", None, None)]


def absval(x):
    if x is None:
        return {"k": "none", "h": 0, "s": "", "p": ""}
    if isinstance(x, bool):
        raise MachineryError("boolean parameter values are not modelled")
    if isinstance(x, int):
        return {"k": "int", "h": 2 * x, "s": "", "p": ""}
    if isinstance(x, float):
        if (2 * x) != int(2 * x):
            # not a multiple of 1/2: only used as an opaque default; keep its text so equality stays exact
            return {"k": "float", "h": 0, "s": repr(x), "p": "opaque"}
        return {"k": "float", "h": int(2 * x), "s": "", "p": ""}
    if isinstance(x, str):
        p, h = "none", 0
        try:
            h, p = 2 * int(x), "int"
        except ValueError:
            try:
                f = float(x)
                if 2 * f == int(2 * f):
                    h, p = int(2 * f), "float"
            except ValueError:
                pass
        return {"k": "str", "h": h, "s": x, "p": p}
    raise MachineryError("unmodelled parameter value %r" % (x,))


def pyval(v):
    if v["k"] == "none":
        return None
    if v["k"] == "int":
        return v["h"] // 2
    if v["k"] == "float":
        return float(v["s"]) if v["p"] == "opaque" else v["h"] / 2
    return v["s"]


def same(got, v):
    want = pyval(v)
    return type(got) is type(want) and got == want


def tables():
    out = []
    for a in sorted(list_available_algorithms()):
        try:
            m = load_algorithm_module(a)
        except Exception:
            continue
        out.append((a, list(getattr(m, "algo_params", [])), m))
    out.append(("synthetic", SYNTH, None))
    return out


TABS = {}


def execute(case):
    algo = case["algo"]
    defs, mod = TABS[algo]
    given = {}
    for d, g in zip(defs, case["given"]):
        if g["k"] != "absent":
            given[d.name] = pyval(g)
    if case["unknown"]:
        # an undeclared name; sometimes one that ends with a declared name
        h = sum(len(str(x)) for x in given.values()) + len(given)
        uname = "bogus_parameter" if h % 2 or not defs else "x-" + defs[h % len(defs)].name
        given[uname] = "1" if h % 3 == 0 else 1
    exp = case["exp"]
    routes = [("prepare_algo_params", lambda: prepare_algo_params(dict(given), defs)),
              ("AlgorithmDef.build_with_default_param",
               lambda: AlgorithmDef.build_with_default_param(algo, dict(given), parameters_definitions=defs).params)]
    if mod is not None and all(isinstance(x, str) for x in given.values()):
        from pydcop.commands._utils import build_algo_def
        cli = ["%s:%s" % (k, x) for k, x in given.items()]

        def via_cli():
            with contextlib.redirect_stdout(io.StringIO()):
                try:
                    return build_algo_def(mod, algo, "min", cli or None).params
                except SystemExit:
                    raise ValueError("rejected (exit)")
        routes.append(("build_algo_def", via_cli))
    for name, f in routes:
        try:
            got = f()
        except ValueError:
            got = "error"
        if exp["err"]:
            if got != "error":
                return "%s accepted %r: %r" % (name, given, got)
            continue
        if got == "error":
            return "%s rejected the valid input %r" % (name, given)
        want = {p["name"]: p["value"] for p in exp["params"]}
        if set(got) != set(want):
            return "%s(%r) has parameters %s, expected %s" % (name, given, sorted(got), sorted(want))
        for k, v in want.items():
            if not same(got[k], v):
                return "%s(%r): %s = %r, expected %r" % (name, given, k, got[k], pyval(v))
    return None


def key_of(case, msg):
    return {"algo": case["algo"], "expected_error": case["exp"]["err"], "route": msg.split("(")[0].split(" ")[0]}


def run(tier):
    v = Verdict("C28", tier, "model_checking")
    algos = []
    for a, defs, mod in tables():
        TABS[a] = (defs, mod)
        algos.append({"algo": a, "defs": [{"name": d.name, "type": d.type, "values": [absval(x) for x in (d.values or [])],
                                           "default": absval(d.default_value)} for d in defs]})
    maxc = 800 if tier == "quick" else 0
    cases, res = CC.generate("Gen_C28", consts=dict(Algos=algos, MaxCases=maxc), workers=4 if tier == "quick" else 16, seed=seed())
    v.add_tlc(res, "case generation with expected results (Gen_C28) over the real algo_params tables of %d algorithms + 1 synthetic" % (len(algos) - 1))
    CC.run_cases(v, cases, execute, key_of, nontrivial=lambda c: any(g["k"] != "absent" for g in c["given"]) or c["unknown"],
                 group=lambda c: c["algo"])
    v.cov["exhaustive"] = maxc == 0
    v.cov["rule"] = ("for each shipped algorithm's real parameter table and a synthetic one: every subset of parameters x every value kind "
                     "(typed, numeric string, int for float, invalid string, value outside the allowed list, ill-typed) x with/without an "
                     "undeclared parameter" + (" (at most %d cases per algorithm drawn by TLC in the quick tier)" % maxc if maxc else "") +
                     "; result compared with type-exact equality through three entry points")
    v.cov["trusted_base"] = ["TLC evaluation of Params.tla", "absval/pyval mapping of values in vlib/props/C28.py"]
    v.assumptions = ["float -> int truncation and booleans as parameter values are not generated (the statement does not define them)"]
    return v.finish()


def replay(path):
    d = json.load(open(path))
    for a, defs, mod in tables():
        TABS[a] = (defs, mod)
    msg = execute(d["replay"])
    print(msg or "case agrees with the specification")
    return 1 if msg else 0
