"""Batched judging: records are written as ndjson chunks, each judged by its own TLC process (Judge_* modules print one
VERDICT line per record); the verdicts are merged."""
import json
from concurrent.futures import ThreadPoolExecutor
from . import tlc
from .common import scratch, MachineryError

JUDGE_CFG = "INIT Init\nNEXT Next\nINVARIANT Emit\n"


def judge(module, records, chunk=15000, procs=6, workers=2, heap="4g", timeout=1500, strip=(), xss=None):
    """records: list of dicts with a unique "id"; -> ({id: bad}, merged TlcResult)"""
    if not records:
        raise MachineryError("nothing to judge")
    chunks = [records[i:i + chunk] for i in range(0, len(records), chunk)]

    def one(args):
        n, recs = args
        f = scratch() / ("judge_%s_%d.ndjson" % (module, n))
        with open(f, "w") as fh:
            for r in recs:
                fh.write(json.dumps({k: x for k, x in r.items() if k not in strip}) + "\n")
        res = tlc.run(module, JUDGE_CFG, env={"TRACE_FILE": str(f)}, workers=workers, heap=heap, timeout=timeout, xss=xss)
        f.unlink()
        return res
    with ThreadPoolExecutor(max_workers=procs) as ex:
        results = list(ex.map(one, enumerate(chunks)))
    verdicts = {}
    for res in results:
        for x in res.tagged("VERDICT"):
            verdicts[x[0]["id"]] = x[0]["bad"]
    if len(verdicts) != len(records):
        raise MachineryError("%s returned %d verdicts for %d records" % (module, len(verdicts), len(records)))
    total = results[0]
    total.generated = sum(r.generated for r in results)
    total.distinct = sum(r.distinct for r in results)
    total.wall = max(r.wall for r in results)
    total.cmd += "   (x%d processes over a split batch)" % len(results)
    return verdicts, total
