"""Binding of spec/Dpop.tla to pydcop.algorithms.dpop.DpopAlgo (on the pseudo-tree the real builder produces)."""
import itertools, json
from .algomodel import Binding, _num
from pydcop.computations_graph.pseudotree import get_dfs_relations


def canon_rel(w, rel):
    """a real relation as (sorted variable names, [[assignment as indices, value]] sorted): what Dpop!RelProj prints"""
    dims = sorted(v.name for v in rel.dimensions)
    byname = {v.name: v for v in rel.dimensions}
    tab = []
    for combo in itertools.product(*[range(len(byname[n].domain)) for n in dims]):
        asg = {n: list(byname[n].domain)[i] for n, i in zip(dims, combo)}
        tab.append([{n: i + 1 for n, i in zip(dims, combo)} or [], _num(rel(**asg))])
    tab.sort(key=lambda e: json.dumps(e, sort_keys=True))
    return {"dims": dims, "tab": tab}


def norm_rel(r):
    return {"dims": sorted(r["dims"]), "tab": sorted(([a or [], c] for a, c in r["tab"]), key=lambda e: json.dumps(e, sort_keys=True))}


class DpopBinding(Binding):
    algo = "dpop"
    module = "Dpop"

    def params(self, consts, inst=None):
        return {}

    def _msg(self, w, m):
        if m.type == "UTIL":
            return {"t": "UTIL", "rel": canon_rel(w, m.content)}
        vs, vals = m.content
        return {"t": "VALUE", "asg": {v.name: w.vidx(v.name, x) for v, x in zip(vs, vals)}}

    def project(self, w):
        loc = {}
        for n, c in w.comps.items():
            loc[n] = {"run": "running" if c._running else ("stopped" if w.started[n] else "idle"),
                      "waited": sorted(c._waited_children), "ju": canon_rel(w, c._joined_utils),
                      "csep": {ch: sorted(v.name for v in c._children_separator.get(ch, [])) for ch in c._children} or [],
                      "val": w.vidx(n, c.current_value), "fin": bool(w.fin[n])}
        chan = {}
        for n, c in w.comps.items():
            for x in list(c._children) + ([c._parent] if c._parent else []):
                chan['<<"%s", "%s">>' % (n, x)] = [self._msg(w, m) for _, m in w.chan.get((n, x), [])]
        return {"started": sorted(n for n in w.comps if w.started[n]), "loc": loc, "chan": chan or [],
                "pre": {n: [{"from": s, "m": self._msg(w, m)} for s, m, _ in c._paused_messages_recv] for n, c in w.comps.items()},
                "reinj": {n: [{"from": s, "m": self._msg(w, m)} for s, _, m in w.reinj.get(n, [])] for n in w.comps}}

    def norm(self, p):
        def msg(m):
            return dict(m, rel=norm_rel(m["rel"])) if m.get("t") == "UTIL" else m
        p = dict(p)
        p["started"] = sorted(p["started"])
        p["loc"] = {n: dict(l, waited=sorted(l["waited"]), ju=norm_rel(l["ju"]), csep={k: sorted(x) for k, x in l["csep"].items()} if l["csep"] else [])
                    for n, l in p["loc"].items()}
        p["chan"] = {k: [msg(m) for m in q] for k, q in p["chan"].items()} if p["chan"] else p["chan"]
        p["pre"] = {n: [dict(e, m=msg(e["m"])) for e in q] for n, q in p["pre"].items()}
        p["reinj"] = {n: [dict(e, m=msg(e["m"])) for e in q] for n, q in p["reinj"].items()}
        return p


def with_tree(inst):
    """the pseudo-tree the real builder gives for the instance (the model runs DPOP on THAT tree)"""
    from .simrt import World
    w = World(inst, "dpop", {})
    tree = {}
    for node in w.cg.nodes:
        parent, pps, children, pcs = get_dfs_relations(node)
        tree[node.name] = {"parent": parent or "", "children": list(children), "pp": list(pps), "pc": list(pcs)}
    return dict(inst, tree=tree)


def model_part(v, tier, invariants, clauses, props, seed_off=0, shapes=None):
    from . import algomodel as AM, algotrace as AT
    from .common import seed as vseed
    quick = tier == "quick"
    shapes = shapes or (["single", "unary1", "pair", "pair3", "unarypair", "upath", "ustar", "isolated", "path3", "fork3", "triangle", "tern"] if quick else
                        ["single", "unary1", "pair", "pair3", "pairrev", "parallel", "unarypair", "upair1", "upath", "ustar", "uall", "isolated", "isounary",
                         "path3", "path3d3", "fork3", "triangle", "tern", "ternpair", "twocomp", "path4", "star4", "cycle4", "tritail"])
    insts, gres = AT.gen_instances(shapes, [0, 1, 3, -2, 7], [0, 2], n=1 if quick else 2, seed=vseed() + 950 + seed_off)
    v.add_tlc(gres, "instance generation (Gen_Dcop) for Dpop.tla")
    if quick:
        insts = AM.spread(insts, 1, 12, offset=seed_off % 3)
    insts = [with_tree(i) for i in insts]
    tot = AM.run_model(v, DpopBinding(), insts, {}, invariants, clauses, props, max_paths=600 if quick else None)
    v.cov["dpop_model"] = dict(tot, invariants=invariants)
    v.cov["replayed_paths"] = v.cov.get("replayed_paths", 0) + tot["paths"]
    v.cov["replayed_steps"] = v.cov.get("replayed_steps", 0) + tot["steps"]
    v.cov["model_edges"] = v.cov.get("model_edges", 0) + tot["edges"]
    return tot
