"""Abstract cases printed by TLC  <->  real pyDCOP objects.  No oracle logic lives here."""
import itertools
import numpy as np
from .common import REPO  # noqa: F401  (puts /repo first on sys.path)
from pydcop.dcop.objects import Variable, Domain, VariableWithCostDict, VariableWithCostFunc
from pydcop.dcop.relations import NAryMatrixRelation

INF = float("inf")

# concrete domains: non-contiguous ints shared by several variables at different positions, so that an index is never a
# value by accident and a value never identifies its variable
DOMVALS = {"x": [5, 3], "y": [3, 5], "z": [3, 5, 9], "w": ["R", "G"], "u": [1, 0]}


def cost_py(c):
    """<<inf, hi, lo>> -> Python number (Costs.tla)."""
    if isinstance(c, (int, float)):
        return c
    inf, hi, lo = c
    if inf > 0:
        return INF
    if inf < 0:
        return -INF
    v = hi * 2 ** 40 + (lo // 2 if lo % 2 == 0 else lo / 2)
    return v


def cost_abs(v):
    """Python number -> <<inf, hi, lo>> (only used to report observations to TLC judges)."""
    if v == INF:
        return [1, 0, 0]
    if v == -INF:
        return [-1, 0, 0]
    hi = int(v // 2 ** 39) // 2 if abs(v) >= 2 ** 39 else 0
    lo2 = (v - hi * 2 ** 40) * 2
    if lo2 != int(lo2):
        return ["odd", repr(v)]
    return [0, hi, int(lo2)]


def domvals(v, n):
    vals = DOMVALS.get(v)
    if vals is None or len(vals) < n:
        vals = list(range(n))
    return vals[:n]


class Space:
    """Variables of one case, built once so that relations of a case share Variable objects."""

    def __init__(self, ds, vals=None):
        self.ds = ds
        self.vals = {v: (vals[v] if vals else domvals(v, n)) for v, n in ds.items()}
        self.vars = {v: Variable(v, Domain("d_" + v, "", self.vals[v])) for v in ds}

    def matrix_rel(self, R, name="r"):
        scope = [self.vars[v] for v in R["scope"]]
        shape = [self.ds[v] for v in R["scope"]]
        tab = [cost_py(c) for c in R["tab"]]
        return NAryMatrixRelation(scope, np.array(tab).reshape(shape), name=name)

    def asg(self, a):
        """index assignment {var: 1-based index} -> {var: value}"""
        return {v: self.vals[v][i - 1] for v, i in a.items()}

    def all_asg(self, scope):
        """assignments over scope, row-major (first variable slowest) - the order of Relations!Table"""
        for combo in itertools.product(*[self.vals[v] for v in scope]):
            yield dict(zip(scope, combo))

    def table_of(self, rel, scope):
        out = []
        for a in self.all_asg(scope):
            out.append(rel(**a) if a else rel())
        return out


def num_eq(a, b):
    try:
        if hasattr(a, "item"):
            a = a.item()
        if hasattr(b, "item"):
            b = b.item()
        return a == b and type(a) is not bool
    except Exception:
        return False
