"""Real threads advanced one yield point at a time.  The body of a stepped thread is real pyDCOP code; the harness wraps a
few callables it goes through (a discovery lookup, a queue put, a list append) with `point(name)`, where the thread parks
until the harness lets it proceed.  Exactly one stepped thread runs at any time, so a TLC-chosen interleaving of the
model's steps is reproduced on the real code deterministically (no sleeps, no timing)."""
import threading


class Stepper:
    def __init__(self):
        self.cv = threading.Condition()
        self.state = {}        # key -> ("parked", point) | ("running", None) | ("done", None) | ("error", text)
        self.turn = None
        self.local = threading.local()
        self.threads = {}
        self.free = False      # free_run(): every thread runs on without parking
        self.adopted = {}      # thread object -> key: threads not spawned here (e.g. an Agent's own thread) that are stepped too

    # ---- called from stepped threads ------------------------------------
    def point(self, name):
        key = getattr(self.local, "key", None)
        if key is None:
            key = self.adopted.get(threading.current_thread())
            if key is None:
                return                  # not a stepped thread: never blocks
            self.local.key = key
        allowed = getattr(self.local, "allowed", None)
        if (allowed is not None and name not in allowed) or self.free:
            return
        with self.cv:
            self.state[key] = ("parked", name)
            self.cv.notify_all()
            while self.turn != key and not self.free:
                self.cv.wait()
            if self.turn == key:
                self.turn = None
            self.state[key] = ("running", None)
        nxt = getattr(self.local, "next_allowed", None)
        if nxt is not None:
            self.local.allowed = nxt.get(name, set())

    def spawn(self, key, body, next_allowed=None, first=None):
        """body(): runs in a new thread; it must call point() (directly or through wrapped callables)"""
        def run():
            self.local.key = key
            self.local.next_allowed = next_allowed
            self.local.allowed = first
            try:
                body()
                with self.cv:
                    self.state[key] = ("done", None)
                    self.cv.notify_all()
            except BaseException as e:          # noqa
                with self.cv:
                    self.state[key] = ("error", "%s: %s" % (type(e).__name__, str(e)[:200]))
                    self.cv.notify_all()
        with self.cv:
            self.state[key] = ("running", None)
        t = threading.Thread(target=run, name="stepped-%s" % key, daemon=True)
        self.threads[key] = t
        t.start()
        self.wait_parked(key)

    def adopt(self, thread, key):
        """step a thread created by the code under test (call before it reaches its first point)"""
        self.adopted[thread] = key
        with self.cv:
            self.state[key] = ("running", None)

    def mark_done(self, key):
        with self.cv:
            self.state[key] = ("done", None)
            self.cv.notify_all()

    # ---- called from the harness ----------------------------------------
    def free_run(self, timeout=10):
        """give up stepping: every stepped thread runs to its end (used when the code no longer follows the model's steps)"""
        with self.cv:
            self.free = True
            self.cv.notify_all()
        for t in list(self.threads.values()):
            t.join(timeout)

    def wait_parked(self, key, timeout=2):
        with self.cv:
            ok = self.cv.wait_for(lambda: self.state[key][0] != "running", timeout)
        if not ok:
            import sys, traceback
            frames = sys._current_frames()
            dump = []
            for t in threading.enumerate():
                fr = frames.get(t.ident)
                if fr is not None and t is not threading.current_thread():
                    dump.append("%s: %s" % (t.name, " < ".join("%s:%d" % (f.f_code.co_name, f.f_lineno) for f, _ in list(traceback.walk_stack(fr))[:6])))
            raise RuntimeError("stepped thread %r did not reach a yield point; live threads: %s" % (key, " | ".join(dump)))
        return self.state[key]

    def where(self, key):
        with self.cv:
            return self.state[key]

    def advance(self, key):
        with self.cv:
            st = self.state[key]
            if st[0] != "parked":
                raise RuntimeError("thread %r is not parked (%r)" % (key, st))
            self.state[key] = ("running", None)
            self.turn = key
            self.cv.notify_all()
        return self.wait_parked(key)

    def finish_all(self, max_steps=1000, skip=()):
        n = 0
        for key in list(self.state):
            if key in skip:
                continue
            while self.where(key)[0] == "parked" and n < max_steps:
                self.advance(key)
                n += 1
