"""Shared plumbing of the checks: seeds, scratch space, known findings, verdicts, evidence."""
import atexit, json, os, shutil, sys, tempfile, time
from pathlib import Path

VERIF = Path(__file__).resolve().parent.parent
REPO = Path(os.environ.get("VERIF_REPO", "/repo"))
# where evidence and replay files go (the seeded-change tooling points this elsewhere so that a run against a changed copy of the
# repository does not overwrite the evidence of the unchanged tree)
OUT = Path(os.environ.get("VERIF_OUT", str(VERIF)))
SPEC = VERIF / "spec"
GUARD = "PYDCOP_VERIF"

# the checks always exercise /repo's current working tree
if str(REPO) not in sys.path:
    sys.path.insert(0, str(REPO))
os.environ.setdefault(GUARD, "1")
import logging  # noqa: E402
logging.disable(logging.CRITICAL)


def seed():
    try:
        return int(os.environ.get("VERIF_SEED", "0"))
    except ValueError:
        return 0


_scratch = None


def scratch():
    """A private scratch directory outside /repo and /verif, removed at exit."""
    global _scratch
    if _scratch is None:
        _scratch = Path(tempfile.mkdtemp(prefix="pydcop_verif_"))
        atexit.register(shutil.rmtree, str(_scratch), True)
    return _scratch


class MachineryError(Exception):
    """The machinery (TLC, parsing, harness) failed; never reported as a violation (exit 2)."""


def load_findings():
    out = []
    p = VERIF / "known_findings.jsonl"
    if p.exists():
        for line in p.read_text().splitlines():
            line = line.strip()
            if line and not line.startswith("#"):
                out.append(json.loads(line))
    return out


def _key_matches(entry_key, key):
    for k, v in entry_key.items():
        if k not in key:
            return False
        if isinstance(v, list) and not isinstance(key[k], list):
            if key[k] not in v:
                return False
        elif key[k] != v:
            return False
    return True


class Verdict:
    """Collects what one run of one check saw and turns it into exit code, evidence and replay files."""

    def __init__(self, prop, tier, level):
        self.prop, self.tier, self.level = prop, tier, level
        self.t0 = time.time()
        self.findings = [f for f in load_findings() if f.get("property") == prop and f.get("kind") == "finding"]
        self.violations = []      # (key, what, replay)
        self.known = {}           # finding index -> count
        self.known_example = {}
        self.cov = {"evaluations": 0, "distinct_nontrivial": 0, "rule": "", "samples": [],
                    "states": 0, "transitions": 0, "traces_validated_against_impl": 0,
                    "exhaustive": False, "tlc_runs": [], "trusted_base": []}
        self.assumptions = []
        self.notes = []
        self.divergences = []

    # ---- bookkeeping -------------------------------------------------
    def add_tlc(self, res, what):
        self.cov["states"] += res.distinct
        self.cov["transitions"] += res.generated
        self.cov["tlc_runs"].append({"what": what, "cmd": res.cmd, "generated": res.generated,
                                     "distinct": res.distinct, "wall_s": round(res.wall, 2),
                                     "coverage": res.coverage or None})

    def sample(self, obj, cap=4):
        if len(self.cov["samples"]) < cap:
            self.cov["samples"].append(obj)

    def violation(self, key, what, replay):
        """key: dict identifying the failing input/call site/history; replay: json-able reproducer."""
        for i, f in enumerate(self.findings):
            if _key_matches(f["key"], key):
                self.known[i] = self.known.get(i, 0) + 1
                self.known_example.setdefault(i, (key, what, replay))
                return False
        self.violations.append((key, what, replay))
        return True

    def divergence(self, what):
        self.divergences.append(what)

    # ---- output ------------------------------------------------------
    def finish(self):
        wall = time.time() - self.t0
        rdir = OUT / "replays"
        rdir.mkdir(parents=True, exist_ok=True)
        for i, f in enumerate(self.findings):
            if i in self.known:
                print("KNOWN-FINDING: property=%s %s (seen %d times in this run)" % (self.prop, f["what"], self.known[i]))
                key, what, replay = self.known_example[i]
                (rdir / ("%s_%s_known_%d.json" % (self.prop, self.tier, i))).write_text(
                    json.dumps({"property": self.prop, "key": key, "what": what, "replay": replay}, indent=1, default=str))
        vio_lines = []
        seen = set()
        for n, (key, what, replay) in enumerate(self.violations):
            sig = json.dumps(key, sort_keys=True, default=str)
            if sig in seen and n >= 5:
                continue
            seen.add(sig)
            if len(vio_lines) >= 10:
                break
            path = rdir / ("%s_%s_%d.json" % (self.prop, self.tier, len(vio_lines)))
            path.write_text(json.dumps({"property": self.prop, "key": key, "what": what, "replay": replay},
                                       indent=1, default=str))
            vio_lines.append("VIOLATION property=%s replay=%s  # %s" % (self.prop, path, what))
        classes = {}
        for key, what, replay in self.violations:
            k2 = json.dumps({k: v for k, v in key.items() if k not in ("shape",)}, sort_keys=True, default=str)
            classes[k2] = classes.get(k2, 0) + 1
        for k2, n in sorted(classes.items()):
            print("violation-class n=%d %s" % (n, k2))
        for d in self.divergences[:10]:
            print("DIVERGENCE property=%s %s" % (self.prop, d))
        cov = dict(self.cov)
        cov["conformance_divergences"] = len(self.divergences)
        cov["known_findings_seen"] = sum(self.known.values())
        if self.notes:
            cov["notes"] = self.notes
        ev = {"property_id": self.prop, "tier": self.tier, "seed": seed(), "level": self.level,
              "coverage": cov, "assumptions": self.assumptions, "wall_s": round(wall, 2),
              "violations": len(self.violations)}
        edir = OUT / "evidence"
        edir.mkdir(parents=True, exist_ok=True)
        (edir / (self.prop + ".json")).write_text(json.dumps(ev, indent=1, default=str) + "\n")
        for l in vio_lines:
            print(l)
        print("%s %s: evaluations=%d nontrivial=%d states=%d traces=%d violations=%d known=%d divergences=%d wall=%.1fs" % (
            self.prop, self.tier, cov["evaluations"], cov["distinct_nontrivial"], cov["states"],
            cov["traces_validated_against_impl"], len(self.violations), sum(self.known.values()),
            len(self.divergences), wall))
        return 1 if self.violations else 0
