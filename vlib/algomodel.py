"""Implementation-shaped algorithm models (Mgm.tla, ...): for one DCOP instance TLC explores EVERY start order, per-channel-FIFO
delivery order and random draw of the algorithm and checks the property invariants in every state (pattern M); every
transition it explored is then stepped through the REAL computations (simrt.World) with the full local state compared after
each step (pattern E).  When the real computations leave the model, the real execution is continued to quiescence and judged
on its own by AlgoMon.tla: only a property clause failing on the REAL run is a violation; the departure itself is a
conformance divergence."""
import json, os, random
from . import tlc, replay as RP, algotrace as AT
from .common import scratch, MachineryError, seed as vseed
from .simrt import World, ForcedMismatch, build_dcop


def spread(insts, per_shape=1, cap=None, offset=0):
    """a selection that covers the shapes: per_shape instances of each (the generator returns them sorted shape by shape)"""
    by, pick = {}, []
    for inst in insts[offset:] + insts[:offset]:
        if by.setdefault(inst["shape"], 0) < per_shape:
            by[inst["shape"]] += 1
            pick.append(inst)
    return pick[:cap] if cap else pick


def weight(inst):
    """an estimate of the size of an instance's state space (variables without initial value multiply it)"""
    free = sum(1 for x in inst["vars"] if not (inst.get("init") or {}).get(x))
    return (2 ** free) * (4 ** len(inst["cons"])) * len(inst["vars"])


def with_vrank(inst):
    """rank of every concrete domain value in Python's order (optimal_cost_value breaks ties on the value itself)"""
    _, doms = build_dcop(inst)
    i2 = dict(inst)
    i2["vrank"] = {v: [sorted(doms[v]).index(x) + 1 for x in doms[v]] for v in inst["vars"]}
    i2.setdefault("init", {v: 0 for v in inst["vars"]})
    i2["init"] = {v: int(i2["init"].get(v) or 0) for v in inst["vars"]}
    return i2


def _num(x):
    if x is None:
        return 0
    try:
        f = float(x)
    except (TypeError, ValueError):
        return repr(x)
    return int(f) if f == int(f) else f


def model_check(module, insts, consts, invariants, edges, workers=4, timeout=900, heap="3g", norm=None, constraint=None,
                spec="Spec", properties=()):
    """one TLC run over a batch of instances (the initial states): invariants (+ the labelled transition dump when edges).
    -> ({t: [edges]} | None, TlcResult)"""
    f = scratch() / ("inst_%d_%d.ndjson" % (os.getpid(), random.getrandbits(40)))
    f.write_text("".join(json.dumps(i) + "\n" for i in insts))
    cfg = "SPECIFICATION %s\nVIEW View\n" % spec + "".join("INVARIANT %s\n" % i for i in invariants) + "".join("PROPERTY %s\n" % i for i in properties)
    if constraint:
        cfg += "CONSTRAINT %s\n" % constraint
    if edges:
        cfg += "ACTION_CONSTRAINT Edge\n"
    res = tlc.run(module, cfg, consts=consts, env={"INST": str(f)}, workers=1 if edges else workers, heap=heap,
                  timeout=timeout, deadlock=True)
    f.unlink()
    if any("Deadlock" in e for e in res.errors) and not res.trace:
        res.trace = tlc.parse_error_trace(res.out)
    g = None
    if edges and not res.violated and not any("Deadlock" in e for e in res.errors):
        g = {}
        n = 0
        for e in res.tagged("EDGE"):
            if len(e) != 3:
                raise MachineryError("%s: malformed edge line" % module)
            s_, a, d = e
            t = s_.pop("t")
            d.pop("t")
            if norm:
                s_, d = norm(s_), norm(d)
            g.setdefault(t, []).append((s_, a, d))
            n += 1
        if not n:
            raise MachineryError("%s: no edge printed" % module)
    return g, res


def counterexample_actions(res):
    """the `act` records along TLC's counterexample"""
    if getattr(res, "trace_json", None):
        return [st["act"] for st in res.trace_json[1:] if isinstance(st.get("act"), dict) and st["act"].get("n") != "init"]
    acts = []
    for st in res.trace[1:]:
        if "act" in st:
            acts.append(tlc.tla_record_to_py(st["act"]))
    return acts


class Binding:
    """what a model needs to be replayed on the real computations"""
    algo = None
    module = None

    def params(self, consts, inst=None):
        raise NotImplementedError

    def project(self, w):
        raise NotImplementedError

    def norm(self, p):
        return p

    def force(self, w, a):
        """values to force into the algorithm's random draws for action a"""
        return []

    best_response = False       # every move must be a best response to the neighbours' values of the cycle (DSA, C06)
    random_options = [0.0]      # outcomes of random.random() worth enumerating when the real graph is explored

    def world(self, inst, consts, seed=1):
        return World(inst, self.algo, self.params(consts, inst), seed=seed)

    def pairs(self, w):
        """MGM2: accepted coordinated pairs as [cycle, x, y]"""
        return []

    def apply(self, w, a):
        w.rnd.forced.clear()
        for x in self.force(w, a):
            w.rnd.forced.append(x)
        st = ("start", a["c"]) if a["n"] == "start" else ("deliver", a["src"], a["c"]) if a["n"] == "deliver" else ("reinj", a["c"])
        if st not in w.enabled():
            raise KeyError("%r is not enabled" % (st,))
        if a["n"] == "start":
            ev = w.step(("start", a["c"]))
        elif a["n"] == "deliver":
            ev = w.step(("deliver", a["src"], a["c"]))
        elif a["n"] == "reinj":
            ev = w.step(("reinj", a["c"]))
        else:
            raise MachineryError("unknown model action %r" % (a,))
        left = list(w.rnd.forced)
        w.rnd.forced.clear()
        return ev, left


def safe_project(b, w):
    """the binding's projection; when the code no longer has the variables it reads (a refactoring renamed or removed them), a
    generic one - values, cycle counts, end flags, message payloads per channel - so that a departure is reported, not a crash"""
    try:
        return b.project(w)
    except (AttributeError, KeyError, TypeError, IndexError) as e:
        from .simrt import payload
        return {"_unprojectable": "%s: %s" % (type(e).__name__, str(e)[:120]), "values": w.values(),
                "cyc": {n: int(getattr(c, "cycle_count", 0) or 0) for n, c in w.comps.items()}, "fin": dict(w.fin),
                "started": sorted(n for n in w.comps if w.started[n]),
                "chan": {"%s>%s" % k: [payload(m) for _, m in q] for k, q in w.chan.items() if q},
                "reinj": {k: [payload(m) for _, _, m in q] for k, q in w.reinj.items() if q}}


def judge_real(worlds, props, k):
    """AlgoMon verdicts of real executions (list of (tag, World)) -> {tag: verdict}"""
    recs = [AT.trace_record(i, w, props, k=k) for i, (_, w) in enumerate(worlds)]
    verdicts, rejected, jres = AT.judge(recs)
    return {worlds[i][0]: verdicts.get(i) for i in range(len(worlds))}, jres


def _replay_worker(args):
    """(binding, inst, consts, edges, props, label, max_paths, seed) -> plain data: paths, steps, divergences, departed records"""
    b, inst, consts, edges, props, label, max_paths, sd = args
    g = RP.Graph(edges)
    w0 = b.world(inst, consts, 1)
    try:
        paths = g.cover(safe_project(b, w0), max_len=80)
    except MachineryError:
        # the real computations do not even start in the model's initial state (or cannot be projected): one departure, at step 0
        w = b.world(inst, consts, 1)
        w.run_random(random.Random(1), max_steps=2000)
        return 0, 0, ["%s: the initial state of the real computations is not the model's (%s)" % (
            label, json.dumps(safe_project(b, w0), sort_keys=True, default=str)[:200])], \
            [{"label": label, "path": [], "then": 1, "rec": AT.trace_record(0, w, props, k=inst.get("stop", consts.get("StopCycle", 0)))}], g.nedges
    if max_paths and len(paths) > max_paths:
        random.Random(sd).shuffle(paths)
        paths = paths[:max_paths]
    nsteps, divs, departed = 0, [], []
    for pi, path in enumerate(paths):
        w = b.world(inst, consts, pi + 1)
        for k, (a, exp) in enumerate(path):
            why = None
            try:
                ev, left = b.apply(w, a)
            except ForcedMismatch as e:
                why = "the draw the model makes is not possible in the code: %s" % e
                ev, left = None, []
            except (KeyError, IndexError) as e:
                why = "the model's step is not enabled in the code: %r" % (e,)
                ev, left = None, []
            nsteps += 1
            if why is None and ev is not None and ev["exc"]:
                why = "handler raised %s" % ev["exc"]
            if why is None and left:
                why = "the code did not make the draw the model makes"
            if why is None:
                d = RP.first_diff(exp, safe_project(b, w))
                if d:
                    why = "local state differs from %s at %s (expected vs real)" % (b.module, d)
            if why:
                divs.append("%s path %d step %d %s: %s" % (label, pi, k, json.dumps(a, sort_keys=True), why))
                # the real computations go on alone, to quiescence, and are judged on their own
                w.rnd.forced.clear()
                w.run_random(random.Random(pi * 31 + k), max_steps=2000)
                departed.append({"label": label, "path": [x for x, _ in path[:k + 1]], "then": pi * 31 + k,
                                 "rec": AT.trace_record(0, w, props, k=inst.get("stop", consts.get("StopCycle", 0)))})
                break
        if len(departed) >= 12:
            break
    return len(paths), nsteps, divs, departed, g.nedges


def instrument(w):
    """record h[c] = the value c holds at each new_cycle() (CycleHist.tla) - wrapped around the real method"""
    w.hist = {n: [] for n in w.comps}
    for n, c in w.comps.items():
        if not hasattr(c, "new_cycle"):
            continue
        orig = c.new_cycle

        def nc(_o=orig, _n=n, _c=c):
            w.hist[_n].append(w.vidx(_n, _c.current_value))
            return _o()
        c.new_cycle = nc
    return w


def _pairs(b, w):
    try:
        return b.pairs(w)
    except Exception:
        return []


def hist_record(b, w, inst, stop, rid, exc=""):
    stop = inst.get("stop", stop)
    vs = [n for n in w.comps if hasattr(w.comps[n], "current_value")]
    return {"id": rid, "inst": {x: inst[x] for x in ("vars", "dsize", "cons", "varcost", "mode")}, "stop": stop,
            "hist": {n: list(w.hist.get(n, [])) for n in vs}, "idle": {n: max(1, w.vidx(n, w.comps[n].current_value)) for n in vs},
            "val": {n: w.vidx(n, w.comps[n].current_value) for n in vs},
            "cyc": {n: int(getattr(w.comps[n], "cycle_count", 0) or 0) for n in vs}, "fin": {n: bool(w.fin[n]) for n in vs},
            "quiet": bool(w.quiet()), "allstarted": all(w.started.values()), "exc": exc, "pairs": _pairs(b, w), "bestresp": bool(b.best_response)}


def explore_real(args):
    """the reachable graph of the REAL computations of one instance: breadth-first, by re-execution from the initial state,
    all enabled steps x all outcomes of the random draws (choice, random() against a probability, numpy randint); state
    identity = the model's projection + the history.
    -> (records of the distinct (history, end-flags) reached, number of states, number of re-executed steps, complete?)"""
    b, inst, consts, max_states, budget_s = args
    import time
    from collections import deque
    t0 = time.time()
    stop = consts.get("StopCycle", 0)

    def fresh():
        w = instrument(b.world(inst, consts, 1))
        w.rnd.explore = True
        w.rnd.random_options = list(b.random_options)
        return w

    def rerun(path):
        w = fresh()
        for st, f in path:
            w.rnd.forced.clear()
            w.rnd.forced.extend(f)
            w.step(st)
        w.rnd.forced.clear()
        return w

    def key(w, exc):
        return json.dumps([safe_project(b, w), w.hist, exc], sort_keys=True, default=str)
    w = rerun([])
    seen = {key(w, "")}
    recs = {}
    frontier = deque([[]])
    nsteps, complete = 0, True

    def note(w, exc):
        r = hist_record(b, w, inst, stop, 0, exc)
        recs.setdefault(json.dumps([r["hist"], r["fin"], r["cyc"], r["quiet"], r["exc"], r["val"], r["pairs"]], sort_keys=True), r)
    note(w, "")
    while frontier:
        if len(seen) >= max_states or time.time() - t0 > budget_s:
            complete = False
            break
        path = frontier.popleft()
        w = rerun(path)
        nsteps += len(path)
        for st in [s for s in w.enabled() if s[0] != "timer"]:
            variants, tried = [()], set()
            while variants:
                f = variants.pop()
                if repr(f) in tried:
                    continue
                w2 = rerun(path)
                nsteps += len(path) + 1
                w2.rnd.forced.extend(f)
                w2.rnd.draws_seen = []
                nlog = len(w2.rnd.log)
                ev = w2.step(st)
                w2.rnd.forced.clear()
                # the draws of this step as forcible entries, and the alternatives at every draw that was not forced
                tv = []
                for (kind, opts), (lk, lv) in zip(w2.rnd.draws_seen, [x for x in w2.rnd.log[nlog:] if x[0] in ("choice", "random", "np_randint", "uniform")]):
                    val = next((o for o in opts if (o if isinstance(o, (int, float, str, bool)) or o is None else repr(o)) == lv), lv)
                    tv.append(("K", kind, val))
                tv = tuple(tv)
                tried.add(repr(tv))
                tried.add(repr(f))
                for i in range(len(f), len(tv)):
                    for alt in w2.rnd.draws_seen[i][1]:
                        if alt != tv[i][2]:
                            variants.append(tv[:i] + (("K", tv[i][1], alt),))
                exc = ev["exc"]
                k2 = key(w2, exc)
                if k2 in seen:
                    continue
                seen.add(k2)
                note(w2, exc)
                if not exc:
                    frontier.append(path + [(st, tv)])
    out = list(recs.values())
    return out, len(seen), nsteps, complete


def _batch_worker(args):
    """one process per batch of instances: TLC (invariants + edge dump) once, then the replay of each instance; plain data only.
    A batch in which TLC stops on a violation is re-run instance by instance."""
    b, batch, consts, invariants, edges, props, max_paths, sd, timeout, workers = args
    g, res = model_check(b.module, [i for i, _ in batch], consts, invariants, edges, workers=workers, norm=b.norm, timeout=timeout,
                         constraint=getattr(b, "constraint", None))
    bad = bool(res.violated) or any("Deadlock" in e for e in res.errors)
    if bad and len(batch) > 1:
        out = []
        for one in batch:
            out += _batch_worker((b, [one], consts, invariants, edges, props, max_paths, sd, timeout, workers))
        return out
    base = {"cmd": res.cmd, "generated": res.generated, "distinct": res.distinct, "wall": res.wall, "batch": len(batch)}
    if bad:
        return [dict(base, label=batch[0][1], violated=list(res.violated), deadlock=not res.violated,
                     acts=counterexample_actions(res), replay=None)]
    out = []
    for k, (inst, label) in enumerate(batch):
        info = dict(base, label=label, violated=[], deadlock=False, acts=None, replay=None)
        if k:
            info.update(generated=0, distinct=0, wall=0.0)     # the run is counted once, with the first instance of the batch
        if g is not None:
            acts = {}
            for _, a, _d in g.get(k + 1, []):
                kind = a.get("n", "?") + ("+draw" if a.get("pick") or a.get("coin") or a.get("draws") else "")
                acts[kind] = acts.get(kind, 0) + 1
            info["actions"] = acts
            info["replay"] = _replay_worker((b, inst, consts, g.get(k + 1, []), props, label, max_paths, sd + k))
        out.append(info)
    return out


def run_model(v, b, insts, consts, invariants, clauses, props, edges_for=lambda inst: True, workers=2, max_paths=None,
              timeout=900, key_base=None, procs=8, intensify=20, explore_states=6000, explore_budget=120, widen=None,
              stale_model_is_divergence=False):
    """model-check + replay every instance; a violated model invariant is replayed on the real computations and judged"""
    import multiprocessing as mp
    flags = [bool(edges_for(i)) for i in insts]
    if any(flags) and not all(flags):
        # the larger instances are model-checked only (all workers on the invariants), the others also replayed on the real code
        kw = dict(workers=workers, max_paths=max_paths, timeout=timeout, key_base=key_base, procs=procs, intensify=intensify,
                  explore_states=explore_states, explore_budget=explore_budget, widen=widen, stale_model_is_divergence=stale_model_is_divergence)
        t1 = run_model(v, b, [i for i, f in zip(insts, flags) if f], consts, invariants, clauses, props, edges_for=lambda i: True, **kw)
        kw["workers"] = 4
        t2 = run_model(v, b, [i for i, f in zip(insts, flags) if not f], consts, invariants, clauses, props, edges_for=lambda i: False, **kw)
        for k, x in t2.items():
            t1[k] = x if isinstance(x, dict) else (t1.get(k, 0) + x) if not isinstance(x, bool) else (t1.get(k, True) and x)
        t1["model_checked_only_instances"] = t2["instances"]
        return t1
    rnd = random.Random(vseed() + 77)
    insts = [with_vrank(i) for i in insts]
    labels = ["%s[%s]#%d" % (i.get("shape", "?"), i["mode"], k) for k, i in enumerate(insts)]
    # batches balanced by an estimate of the instance's state space (variables without initial value multiply it)
    def weight(i):
        free = sum(1 for x in i["vars"] if not i["init"].get(x))
        return (2 ** free) * (4 ** len(i["cons"])) * len(i["vars"])
    order = sorted(zip(insts, labels), key=lambda p: -weight(p[0]))
    nb = max(1, min(procs, len(order)))
    batches = [[] for _ in range(nb)]
    load = [0] * nb
    for it in order:
        k = load.index(min(load))
        batches[k].append(it)
        load[k] += weight(it[0]) + 50
    edges = all(edges_for(i) for i in insts)
    jobs = [(b, bt, consts, invariants, edges, props, max_paths, rnd.getrandbits(30), timeout, workers) for bt in batches if bt]
    scratch()      # created in the parent, so that the children do not each register their own removal
    with mp.get_context("fork").Pool(len(jobs)) as pool:
        outs = pool.map(_batch_worker, jobs, chunksize=1)
    by_label = {}
    for o in outs:
        for info in o:
            by_label.setdefault(info["label"], []).append(info)
    infos = [by_label[l].pop(0) for l in labels]
    tot = {"instances": 0, "paths": 0, "steps": 0, "edges": 0, "departed": 0, "model_states": 0}
    departed = []
    for inst, label, info in zip(insts, labels, infos):
        res = tlc.TlcResult()
        res.cmd, res.generated, res.distinct, res.wall = info["cmd"], info["generated"], info["distinct"], info["wall"]
        v.add_tlc(res, "%s: all schedules and draws of %s %s" % (b.module, label, json.dumps(consts, sort_keys=True)))
        tot["instances"] += 1
        tot["model_states"] += res.distinct
        if info["violated"] or info["deadlock"]:
            what = info["violated"][0] if info["violated"] else "Deadlock"
            acts = info["acts"]
            from . import judge as J
            w = instrument(b.world(inst, consts, 1))
            ok = True
            for a in acts:
                try:
                    b.apply(w, a)
                except Exception:    # noqa
                    ok = False
                    break
            hrs = [hist_record(b, w, inst, consts.get("StopCycle", 0), 0)]
            if ok:
                w.run_random(random.Random(5), max_steps=2000)
                hrs.append(hist_record(b, w, inst, consts.get("StopCycle", 0), 1))
            verdicts, jres = judge_real([("cex", w)], props, inst.get("stop", consts.get("StopCycle", 0)))
            v.add_tlc(jres, "AlgoMon on the real replay of TLC's counterexample to %s" % what)
            hv, hres = J.judge("Judge_Hist", hrs, workers=1)
            v.add_tlc(hres, "Judge_Hist on the real replay of TLC's counterexample to %s" % what)
            vd = verdicts.get("cex") or {"bad": []}
            fails = {(x[0], x[2]) for x in vd["bad"] if x[0] in clauses}
            for r in hrs:
                for cl0 in hv[r["id"]]:
                    cl, _, ctx = cl0.partition("@")
                    if cl in clauses:
                        fails.add((cl, ctx or "solo"))
            if fails:
                for cl, ctx in sorted(fails):
                    key = dict(key_base or {}, **(inst.get("_key") or {}))
                    key.update({"algo": b.algo, "mode": inst["mode"], "clause": cl, "shape": inst.get("shape", "?"), "via": "model_invariant", "cycle": ctx})
                    v.violation(key, "%s: TLC violates %s of %s on %s; the counterexample replayed on the real computations fails %s" % (
                        cl, what, b.module, label, cl), {"inst": inst, "params": b.params(consts, inst), "model_path": acts})
            elif any(x[0] not in clauses for x in vd["bad"]) or what in ("NoNestedFlush", "AtMostOnePostponed", "NeighbourSkew"):
                v.notes.append("%s: %s violated on %s (structural invariant or a clause owned by another property): %s" % (
                    b.module, what, label, json.dumps(acts)[:400]))
            elif stale_model_is_divergence and not ok:
                # the model transcribes a KNOWN defect of the code; the real computations no longer take the counterexample's steps and
                # end clean: the code has left the model (e.g. the defect was repaired), which is a conformance matter, not a failure
                v.divergence("%s: %s violated on %s in the model, but the real computations do not follow the counterexample and their "
                             "execution is clean: the code no longer has the modelled behaviour" % (b.module, what, label))
            else:
                raise MachineryError("%s: invariant %s violated on %s but the real replay of the counterexample is clean: "
                                     "the model is wrong\n%s" % (b.module, what, label, json.dumps(acts)))
            continue
        for kind, n in (info.get("actions") or {}).items():
            tot.setdefault("model_transitions_by_action", {})
            tot["model_transitions_by_action"][kind] = tot["model_transitions_by_action"].get(kind, 0) + n
        if info["replay"]:
            p, st, divs, dep, ne = info["replay"]
            tot["paths"] += p
            tot["steps"] += st
            tot["edges"] += ne
            v.cov["traces_validated_against_impl"] += p
            v.cov["evaluations"] += p
            for d in divs:
                v.divergence(d)
            for d in dep:
                d["inst"] = inst
                departed.append(d)
    tot["departed"] = len(departed)
    if departed:
        # the code does not follow the model on these instances: besides the departed executions themselves, the real
        # computations are run on those instances under many more seeded schedules (longer runs too) and judged on their own
        seen_inst = {}
        for d in departed:
            seen_inst.setdefault(json.dumps(d["inst"], sort_keys=True), d["inst"])
        extra = []
        for ii, inst in enumerate(list(seen_inst.values())[:6]):
            for sc in (inst.get("stop", consts.get("StopCycle", 3)), 2 * inst.get("stop", consts.get("StopCycle", 3)) + 2):
                params = dict(b.params(consts, dict(inst, stop=sc)))
                if "stop_cycle" in params:
                    params["stop_cycle"] = sc
                elif sc != inst.get("stop", consts.get("StopCycle", 3)):
                    continue          # (an algorithm without stop_cycle: one round of extra schedules is enough)
                for si in range(intensify):
                    w = AT.run_one(inst, b.algo, params, 7000 + ii * 1000 + si, policy=AT.POLICIES[si % 4], max_steps=4000)
                    extra.append({"label": "intensified", "path": [], "then": 7000 + ii * 1000 + si, "inst": inst, "params": params,
                                  "policy": AT.POLICIES[si % 4], "rec": AT.trace_record(0, w, props, k=sc)})
        tot["intensified_runs"] = len(extra)
        # ... and their whole reachable graph is explored on the real computations, every reached state judged by TLC with the
        # operators of the model's invariants (Judge_Hist.tla / CycleHist.tla)
        from . import judge as J
        import multiprocessing as mp
        ejobs = [(b, inst, dict(consts, StopCycle=sc), explore_states, explore_budget) for inst in list(seen_inst.values())[:10]
                 for sc in sorted({consts.get("StopCycle", 3), consts.get("StopCycle", 3) + 2})]
        # ... and of further instances of the same families (the change may only matter for other cost tables)
        if widen is not None:
            more = [with_vrank(i) for i in widen()]
            tot["widened_instances"] = len(more)
            ejobs += [(b, inst, dict(consts, StopCycle=consts.get("StopCycle", 3) + 2), explore_states, explore_budget) for inst in more]
        with mp.get_context("fork").Pool(min(14, len(ejobs))) as pool:
            eouts = pool.map(explore_real, ejobs, chunksize=1)
        hrecs = []
        for (bb, inst, ec, _, _), (recs, nstates, nst, complete) in zip(ejobs, eouts):
            tot["explored_real_states"] = tot.get("explored_real_states", 0) + nstates
            tot["explored_real_steps"] = tot.get("explored_real_steps", 0) + nst
            tot["explored_real_complete"] = tot.get("explored_real_complete", True) and complete
            for r in recs:
                r["id"] = len(hrecs)
                r["_inst"] = inst
                r["_consts"] = ec
                hrecs.append(r)
        if hrecs:
            hv, hres = J.judge("Judge_Hist", hrecs, strip=("_inst", "_consts"), chunk=2500, procs=14, workers=1)
            v.add_tlc(hres, "Judge_Hist on %d distinct histories reached by the real computations on the instances that left %s" % (len(hrecs), b.module))
            for r in hrecs:
                inst = r["_inst"]
                for cl0 in sorted(hv[r["id"]]):
                    cl, _, ctx = cl0.partition("@")
                    if cl not in clauses:
                        continue
                    key = dict(key_base or {}, **(inst.get("_key") or {}))
                    key.update({"algo": b.algo, "mode": inst["mode"], "clause": cl, "shape": inst.get("shape", "?"), "via": "real_graph_exploration",
                                "cycle": ctx or "solo"})
                    v.violation(key, "%s on %s/%s: reached by the real computations (exhaustive exploration of the instance after they left %s): history %s" % (
                        cl, b.algo, inst.get("shape", "?"), b.module, json.dumps(r["hist"])),
                        {"inst": inst, "params": b.params(r["_consts"], inst), "history": r["hist"], "state": {k: r[k] for k in ("val", "cyc", "fin", "quiet", "exc")}})
        departed = departed + extra
        for i, d in enumerate(departed):
            d["rec"]["tid"] = i
        verdicts, rejected, jres = AT.judge([d["rec"] for d in departed])
        v.add_tlc(jres, "AlgoMon on %d real executions that left %s" % (len(departed), b.module))
        for i, d in enumerate(departed):
            vd = verdicts.get(i)
            if not vd:
                continue
            inst = d["inst"]
            for cl, ctx in sorted({(x[0], x[2]) for x in vd["bad"] if x[0] in clauses}):
                key = dict(key_base or {}, **(inst.get("_key") or {}))
                key.update({"algo": b.algo, "mode": inst["mode"], "clause": cl, "shape": inst.get("shape", "?"), "via": "model_replay", "cycle": ctx})
                v.violation(key, "%s on %s/%s: the real computations leave %s and the real execution fails %s (prefix of %d model steps, then a seeded run)" % (
                    cl, b.algo, inst.get("shape", "?"), b.module, cl, len(d["path"])),
                    {"inst": inst, "params": d.get("params") or b.params(consts, inst), "model_path": d["path"], "policy": d.get("policy"),
                     "then": ("AT.run_one(seed %d)" if d.get("policy") else "run_random(Random(%d))") % d["then"]})
    return tot
