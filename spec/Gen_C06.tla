---- MODULE Gen_C06 ----
(***************************************************************************)
(* Case generator + oracle for the best-response helpers of                *)
(* pydcop/dcop/relations.py (C06): find_optimal, find_arg_optimal,         *)
(* optimal_cost_value and projection, over the full cost algebra of        *)
(* Costs.tla (small, negative, > 2^31, +inf, -inf).                        *)
(***************************************************************************)
EXTENDS Relations, Json, Randomization
CONSTANTS NDraws

DS == [x |-> 3, y |-> 2, z |-> 2]
Alpha == <<CInt(0), CInt(1), CInt(-2), CBig(1, 0), CBig(1, 1), CPInf, CInt(0), CInt(3)>>
AlphaN == <<CInt(0), CInt(1), CInt(-2), CBig(1, 0), CNInf, CInt(3)>>       \* never mixes +inf and -inf
OwnAlpha == <<CInt(0), CInt(1), CInt(-2), CBig(1, 0), CInt(5)>>
ScopeSets == { << <<"x">> >>, << <<"x", "y">> >>, << <<"y", "x">> >>, << <<"x", "y">>, <<"z", "x">> >>,
               << <<"x">>, <<"x", "y">> >>, << <<"y", "x", "z">> >>, << <<"x", "y">>, <<"x", "y">> >> }

RECURSIVE Offs(_, _)
Offs(scopes, acc) == IF scopes = <<>> THEN <<>> ELSE <<acc>> \o Offs(Tail(scopes), acc + TabSize(DS, Head(scopes)))
RECURSIVE TotalSize(_)
TotalSize(scopes) == IF scopes = <<>> THEN 0 ELSE TabSize(DS, Head(scopes)) + TotalSize(Tail(scopes))
Rels(scopes, al, draw) == LET off == Offs(scopes, 0) IN
  [i \in 1..Len(scopes) |-> [scope |-> scopes[i], ds |-> DS,
                             tab |-> [j \in 1..TabSize(DS, scopes[i]) |-> al[draw[off[i] + j]]]]]
Others(scopes) == (UNION {ScopeSet(scopes[i]) : i \in 1..Len(scopes)}) \ {"x"}
OtherAsgs(scopes) == {a \in [Others(scopes) -> 1..2] : TRUE}

\* local cost of x = d : constraints + own cost
Local(rels, own, a, d) == CPlus(CSumSeq([i \in 1..Len(rels) |-> Eval(rels[i], RestrictTo(a @@ ("x" :> d), ScopeSet(rels[i].scope)))]), own[d])
FindOptimal(rels, own, a, mode) ==
  LET best == CBest(mode, {Local(rels, own, a, d) : d \in 1..DS["x"]}) IN
  [vals |-> {d \in 1..DS["x"] : Local(rels, own, a, d) = best}, cost |-> best]
\* optimal_cost_value: a value with the best own cost, and that cost
OptCostValue(own, mode) == LET best == CBest(mode, {own[d] : d \in 1..DS["x"]}) IN
  [vals |-> {d \in 1..DS["x"] : own[d] = best}, cost |-> best]

NoOwn == [d \in 1..3 |-> CZero]
FOSet(sc, al, dr) == { [op |-> "find_optimal", rels |-> Rels(sc, al, dr), own |-> own, hasown |-> own # NoOwn, asg |-> a, mode |-> m,
                         exp |-> FindOptimal(Rels(sc, al, dr), own, a, m)] :
                          a \in OtherAsgs(sc), m \in {"min", "max"},
                          own \in {NoOwn} \cup {[d \in 1..3 |-> OwnAlpha[o[d]]] : o \in RandomSubset(2, [1..3 -> 1..Len(OwnAlpha)])} }
FOFor(sc) == UNION { FOSet(sc, al, dr) : al \in {Alpha, AlphaN}, dr \in RandomSubset(NDraws, [1..TotalSize(sc) -> 1..6]) }
FOCases == UNION { FOFor(sc) : sc \in ScopeSets }
FAOCases == { [op |-> "find_arg_optimal", r |-> [scope |-> <<"x">>, ds |-> DS, tab |-> [j \in 1..3 |-> al[dr[j]]]], mode |-> m,
               exp |-> ArgOpt([scope |-> <<"x">>, ds |-> DS, tab |-> [j \in 1..3 |-> al[dr[j]]]], m)] :
                al \in {Alpha, AlphaN}, dr \in [1..3 -> 1..6], m \in {"min", "max"} }
OCVCases == { [op |-> "optimal_cost_value", own |-> [d \in 1..3 |-> OwnAlpha[o[d]]], mode |-> m,
               exp |-> OptCostValue([d \in 1..3 |-> OwnAlpha[o[d]]], m)] : o \in [1..3 -> 1..Len(OwnAlpha)], m \in {"min", "max"} }
ProjCases == { [op |-> "proj", r |-> Rels(<<sc>>, al, dr)[1], x |-> "x", mode |-> m, exp |-> Project(Rels(<<sc>>, al, dr)[1], "x", m)] :
                sc \in {<<"x">>, <<"x", "y">>, <<"y", "x">>, <<"y", "x", "z">>}, al \in {Alpha, AlphaN}, m \in {"min", "max"},
                dr \in RandomSubset(NDraws, [1..12 -> 1..6]) }

VARIABLE case
Init == case \in FOCases \cup FAOCases \cup OCVCases \cup ProjCases
Next == UNCHANGED case
Emit == PrintT(<<"CASE", ToJson(case)>>)
====
