---- MODULE Dsa ----
(***************************************************************************)
(* DsaComputation (pydcop/algorithms/dsa.py), variants A, B and C, on the  *)
(* asynchronous network of the behavioural modules.  One action = one      *)
(* handler invocation of the real computation: start(), or on_message for  *)
(* one value message (_on_value_msg then evaluate_cycle).                  *)
(* Implementation variables per computation (loc[c]): run ("idle",         *)
(* "running", "stopped": _running before start / after stop()), val        *)
(* (current_value as domain index), cyc (cycle_count), cur / nxt           *)
(* (current_cycle / next_cycle: the neighbours' values for this and the    *)
(* next cycle, 0 = absent), fin.                                           *)
(* A stopped computation (like one that is not started) buffers what it    *)
(* receives (MessagePassingComputation.on_message), in pre.                *)
(* Random draws of the code, all arguments of the step: the initial value  *)
(* (pick), the probability test random() < probability (coin: 1 = change,  *)
(* 2 = keep, 0 = not drawn) and random.choice among the candidate values   *)
(* (pick).                                                                 *)
(* evaluate_cycle as the code computes it: current_cost is the cost of the *)
(* variable's constraints WITHOUT its own value cost, best_cost (from      *)
(* find_optimal) WITH it, delta = |current_cost - best_cost|.              *)
(***************************************************************************)
EXTENDS CycleHist, TLC, Json, IOUtils
CONSTANTS StopCycle

Insts == ndJsonDeserialize(IOEnv.INST)
VARIABLE t
I == Insts[t]
V == VarSet(I)
Nb(c) == Nbrs(I, c)
Pairs == {p \in V \X V : p[2] \in Nb(p[1])}
Active == {c \in V : Nb(c) # {}}
Variant == I.variant        \* "A", "B" or "C": a field of the instance, so that one run covers the three variants

VARIABLES started, loc, chan, pre, reinj, hist, act
impl == <<started, loc, chan, pre, reinj>>
vars == <<t, impl, hist, act>>

\* optimal_cost_value(): min / max over (cost, value) tuples: ties go to the smallest / largest CONCRETE value (I.vrank)
OwnBest(c) ==
  LET costs == {I.varcost[c][d] : d \in 1..I.dsize[c]}
      bc == IF I.mode = "min" THEN Min(costs) ELSE Max(costs)
      ties == {d \in 1..I.dsize[c] : I.varcost[c][d] = bc}
  IN IF I.mode = "min" THEN CHOOSE d \in ties : \A e \in ties : I.vrank[c][d] <= I.vrank[c][e]
     ELSE CHOOSE d \in ties : \A e \in ties : I.vrank[c][d] >= I.vrank[c][e]

Loc0(c) == [run |-> "idle", val |-> 0, cyc |-> 0, cur |-> [n \in Nb(c) |-> 0], nxt |-> [n \in Nb(c) |-> 0], fin |-> FALSE]
LocFields == {"run", "val", "cyc", "cur", "nxt", "fin"}
Lift(l) == l @@ [out |-> <<>>, hs |-> <<>>, coinUsed |-> FALSE, pickUsed |-> FALSE, ok |-> TRUE]
Strip(w) == [f \in LocFields |-> w[f]]

Init == /\ t \in 1..Len(Insts)
        /\ started = {} /\ loc = [c \in V |-> Loc0(c)]
        /\ chan = [p \in Pairs |-> <<>>]
        /\ pre = [c \in V |-> <<>>] /\ reinj = [c \in V |-> <<>>]
        /\ hist = [c \in V |-> <<>>]
        /\ act = [n |-> "init"]

Send(c, w, x) == [w EXCEPT !.out = @ \o SetToSeq({<<n, x>> : n \in Nb(c)})]
Abs(x) == IF x < 0 THEN -x ELSE x
ConOpt(i) == LET S == {I.cons[i].tab[j] : j \in 1..Len(I.cons[i].tab)} IN IF I.mode = "min" THEN Min(S) ELSE Max(S)
\* DSA-B: some constraint of the variable is not at its own optimum
Violated(c, a) == \E i \in ConsOn(I, c) : EvalCon(I, I.cons[i], a) # ConOpt(i)
Without(bs, v) == IF Cardinality(bs) > 1 THEN bs \ {v} ELSE bs

\* evaluate_cycle
Eval(c, w, coin, pick) ==
  IF \E n \in Nb(c) : w.cur[n] = 0 THEN w
  ELSE LET a == [v \in V |-> IF v = c THEN w.val ELSE IF v \in Nb(c) THEN w.cur[v] ELSE 1]
           bs == ArgBestLocal(I, c, a)
           best == BestLocal(I, c, a)
           delta == Abs((LocalCost(I, c, a) - I.varcost[c][w.val]) - best)
           attempt == CASE Variant = "A" -> delta > 0
                        [] Variant = "B" -> delta > 0 \/ Violated(c, a)
                        [] OTHER -> TRUE
           cands == IF delta > 0 THEN bs ELSE Without(bs, w.val)
           change == attempt /\ coin = 1
           w1 == [w EXCEPT !.val = IF change THEN pick ELSE @,
                           !.coinUsed = attempt, !.pickUsed = change,
                           !.ok = (attempt => coin \in {1, 2}) /\ (change => pick \in cands)]
           \* new_cycle, the neighbours' values of the next cycle become the current ones
           w2 == [w1 EXCEPT !.cyc = @ + 1, !.hs = Append(@, w1.val), !.cur = w1.nxt, !.nxt = [n \in Nb(c) |-> 0]]
       IN IF StopCycle > 0 /\ w2.cyc >= StopCycle THEN [w2 EXCEPT !.fin = TRUE, !.run = "stopped"]
          ELSE Send(c, w2, w2.val)

\* _on_value_msg
OnMsg(c, w, s, x, coin, pick) ==
  IF w.cur[s] = 0 THEN Eval(c, [w EXCEPT !.cur[s] = x], coin, pick)
  ELSE [w EXCEPT !.nxt[s] = x]

DrawOk(w, coin, pick) == w.ok /\ (w.coinUsed \/ coin = 0) /\ (w.pickUsed \/ pick = 0)
RECURSIVE PushAll(_, _, _, _)
PushAll(ch, c, out, i) == IF i > Len(out) THEN ch
                          ELSE PushAll([ch EXCEPT ![<<c, out[i][1]>>] = Append(@, out[i][2])], c, out, i + 1)
Commit(c, w, ch) ==
  /\ loc' = [loc EXCEPT ![c] = Strip(w)]
  /\ chan' = PushAll(ch, c, w.out, 1)
  /\ hist' = [hist EXCEPT ![c] = @ \o w.hs]

\* start(): without neighbour the final value is selected at once (own cost only) and the computation stops;
\* otherwise a random value (the variable's initial value is not used by DSA), sent to every neighbour
Start(c, pick) ==
  /\ c \notin started
  /\ started' = started \cup {c}
  /\ IF Nb(c) = {}
     THEN /\ pick = 0
          /\ Commit(c, [Lift(loc[c]) EXCEPT !.val = OwnBest(c), !.fin = TRUE, !.run = "stopped"], chan)
          /\ reinj' = [reinj EXCEPT ![c] = pre[c]] /\ pre' = [pre EXCEPT ![c] = <<>>]
     ELSE /\ pick \in 1..I.dsize[c]
          /\ Commit(c, Send(c, [Lift(loc[c]) EXCEPT !.val = pick, !.run = "running"], pick), chan)
          /\ reinj' = [reinj EXCEPT ![c] = pre[c]] /\ pre' = [pre EXCEPT ![c] = <<>>]
  /\ act' = [n |-> "start", c |-> c, coin |-> 0, pick |-> pick]

Handle(c, from, x, coin, pick, ch) ==
  IF loc[c].run # "running"
  THEN \* not started, or stopped: on_message keeps the message
       /\ coin = 0 /\ pick = 0
       /\ pre' = [pre EXCEPT ![c] = Append(@, [from |-> from, x |-> x])]
       /\ chan' = ch
       /\ UNCHANGED <<loc, hist>>
  ELSE LET w == OnMsg(c, Lift(loc[c]), from, x, coin, pick) IN
       /\ DrawOk(w, coin, pick)
       /\ Commit(c, w, ch)
       /\ pre' = pre

Deliver(a, c, coin, pick) ==
  /\ <<a, c>> \in Pairs /\ chan[<<a, c>>] # <<>> /\ reinj[c] = <<>>
  /\ Handle(c, a, Head(chan[<<a, c>>]), coin, pick, [chan EXCEPT ![<<a, c>>] = Tail(@)])
  /\ UNCHANGED <<started, reinj>>
  /\ act' = [n |-> "deliver", src |-> a, c |-> c, coin |-> coin, pick |-> pick]

Reinject(c, coin, pick) ==
  /\ reinj[c] # <<>>
  /\ Handle(c, Head(reinj[c]).from, Head(reinj[c]).x, coin, pick, chan)
  /\ reinj' = [reinj EXCEPT ![c] = Tail(@)]
  /\ UNCHANGED started
  /\ act' = [n |-> "reinj", src |-> Head(reinj[c]).from, c |-> c, coin |-> coin, pick |-> pick]

Quiet == started = V /\ (\A p \in Pairs : chan[p] = <<>>) /\ (\A c \in V : reinj[c] = <<>>)
Done == Quiet /\ (\A c \in V : loc[c].fin) /\ UNCHANGED vars

Picks(c) == 0..I.dsize[c]
Step == (\E c \in V : \E k \in Picks(c) : Start(c, k))
        \/ (\E p \in Pairs : \E coin \in 0..2 : \E k \in Picks(p[2]) : Deliver(p[1], p[2], coin, k))
        \/ (\E c \in V : \E coin \in 0..2 : \E k \in Picks(c) : Reinject(c, coin, k))
Next == (Step /\ UNCHANGED t) \/ Done
Spec == Init /\ [][Next]_vars

\* ---- properties ---------------------------------------------------------------
\* C07: finished exactly at stop_cycle (at once without neighbour); quiescence only when everybody has finished (with Done: no deadlock)
FinishedAtStop == \A c \in V : loc[c].fin => (IF c \in Active THEN loc[c].cyc = StopCycle ELSE loc[c].cyc = 0)
QuietMeansFinished == Quiet => \A c \in V : loc[c].fin
\* C10: a started computation always holds a value of its domain
ValueInDomain == \A c \in V : loc[c].val \in 0..I.dsize[c] /\ (c \in started => loc[c].val >= 1)
\* C06 (moves): every change of value between two cycle boundaries goes to a best response to the neighbours' values of that cycle
\* (hist[n][k] is what n held, and sent, when it began its k-th cycle; the value c holds at the beginning of cycle k + 1 was
\* chosen against the neighbours' k-th values... the 0-th being the initial values, which hist does not hold: checked from k = 1)
MovesAreBestResponses == HMovesBestResponse(I, hist)
\* structure the implementation relies on
NeighbourSkew == \A p \in Pairs : (loc[p[1]].run # "idle" /\ loc[p[2]].run # "idle") => loc[p[1]].cyc - loc[p[2]].cyc \in {-1, 0, 1}
NextOnlyWhenCurrent == \A c \in V : \A n \in Nb(c) : loc[c].nxt[n] # 0 => loc[c].cur[n] # 0

\* ---- binding ---------------------------------------------------------------------
Proj == [t |-> t, started |-> started, loc |-> loc,
         chan |-> chan,
         pre |-> pre,
         reinj |-> reinj]
View == <<t, impl, hist>>
Edge == (Proj' = Proj /\ act' = act) \/ PrintT(<<"EDGE", ToJson(Proj), ToJson(act'), ToJson(Proj')>>)
====
