---- MODULE Distribution ----
(***************************************************************************)
(* pydcop/distribution: what a distribution of a computation graph on      *)
(* agents must satisfy, and the cost models of the optimal methods.        *)
(* P: comps, agents, cap[a], fp[c] (footprints), must[a] (must-host hints),*)
(*    hc[<<a, c>>] (hosting costs), route[<<a, b>>], load[<<c, d>>]        *)
(*    (communication load between neighbour computations c, d), edges.     *)
(* A mapping m is a function agent -> set of computations (as the          *)
(* Distribution object lists them; an agent may be absent = hosts nothing).*)
(***************************************************************************)
EXTENDS Integers, Sequences, FiniteSets, FiniteSetsExt, TLC

Sum(S, f(_)) == FoldSet(LAMBDA e, acc : acc + f(e), 0, S)
Hosted(m, a) == IF a \in DOMAIN m THEN m[a] ELSE {}
BadMapping(P, m, capacityAware) ==
  (IF ~(DOMAIN m \subseteq P.agents) THEN {"computation_on_undeclared_agent"} ELSE {})
  \cup (IF \E c \in P.comps : Cardinality({a \in DOMAIN m : c \in m[a]}) = 0 THEN {"computation_not_hosted"} ELSE {})
  \cup (IF \E c \in P.comps : Cardinality({a \in DOMAIN m : c \in m[a]}) > 1 THEN {"computation_hosted_twice"} ELSE {})
  \cup (IF \E a \in DOMAIN m : ~(m[a] \subseteq P.comps) THEN {"unknown_computation_in_mapping"} ELSE {})
  \cup (IF \E a \in DOMAIN P.must : ~(P.must[a] \subseteq Hosted(m, a)) THEN {"must_host_hint_not_honoured"} ELSE {})
  \cup (IF capacityAware /\ \E a \in DOMAIN m : Sum(m[a] \cap P.comps, LAMBDA c : P.fp[c]) > P.cap[a]
        THEN {"capacity_exceeded"} ELSE {})
Valid(P, m, capacityAware) == BadMapping(P, m, capacityAware) = {}

\* ---- all mappings and the cost models (for the optimal methods, C24) ------
AllMappings(P) == {[a \in P.agents |-> {c \in P.comps : f[c] = a}] : f \in [P.comps -> P.agents]}
HostOf(m, c) == CHOOSE a \in DOMAIN m : c \in m[a]
HostingCostOf(P, m) == Sum(P.comps, LAMBDA c : P.hc[<<HostOf(m, c), c>>])
\* communication: each edge {c, d} of the computation graph costs route(host c, host d) * load
CommCostOf(P, m) == Sum(P.edges, LAMBDA e : P.route[<<HostOf(m, e[1]), HostOf(m, e[2])>>] * P.load[e])
====
