---- MODULE Judge_C30 ----
EXTENDS Generators, Json, IOUtils
H == ndJsonDeserialize(IOEnv.TRACE_FILE)
ToSetOf(x) == {x[i] : i \in 1..Len(x)}
BadOf(h) ==
  IF h.exc # "" THEN {"generator_raised"}
  ELSE CASE h.gen = "gc" -> BadColoring([n |-> h.args.n, colors |-> h.args.colors, soft |-> h.args.soft,
                                        edges |-> {Norm(<<h.edges[i][1], h.edges[i][2]>>) : i \in 1..Len(h.edges)}], h.out)
         [] h.gen = "ising" -> (IF h.formsDiffer # <<>> THEN {"intentional_and_extensive_forms_differ"} ELSE {})
                               \cup {"variable_distribution_" \o b : b \in BadMappingOnce(ToSetOf(h.vars), h.varMapping)}
                               \cup {"factor_graph_distribution_" \o b : b \in BadMappingOnce(ToSetOf(h.vars) \cup ToSetOf(h.factors), h.fgMapping)}
         [] OTHER -> BadScenario([evts |-> h.args.evts, actions |-> h.args.actions, agents |-> ToSetOf(h.agents)], h.events)
VARIABLE k
Init == k \in 1..Len(H)
Next == UNCHANGED k
Emit == PrintT(<<"VERDICT", ToJson([id |-> H[k].id, bad |-> BadOf(H[k])])>>)
====
