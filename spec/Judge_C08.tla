---- MODULE Judge_C08 ----
(***************************************************************************)
(* Property-level judge for C08 on executions of REAL computations using   *)
(* SynchronousComputationMixin (the probe computation, Max-Sum, DSA-tuto). *)
(* A record carries the neighbourhood, every on_new_cycle call             *)
(* (computation, cycle id, senders of the messages handed over, in call    *)
(* order), every algorithm message sent (sender, target, cycle stamped),   *)
(* and the exceptions raised by handlers.                                  *)
(***************************************************************************)
EXTENDS Integers, Sequences, FiniteSets, TLC, Json, IOUtils
H == ndJsonDeserialize(IOEnv.TRACE_FILE)
ToSetOf(s) == {s[i] : i \in 1..Len(s)}
CallsOf(h, c) == SelectSeq(h.calls, LAMBDA x : x.c = c)
Sent(h) == {<<h.sent[i].src, h.sent[i].dst, h.sent[i].cyc>> : i \in 1..Len(h.sent)}
BadOf(h) ==
  (IF h.exc # <<>> THEN {"handler_raised"} ELSE {})
  \cup (IF \E c \in DOMAIN h.nbr : \E i \in 1..Len(CallsOf(h, c)) : CallsOf(h, c)[i].cycle # i - 1
        THEN {"cycle_ids_not_consecutive"} ELSE {})
  \cup (IF \E i \in 1..Len(h.calls) :
             LET x == h.calls[i] IN
             ToSetOf(x.from) # {n \in ToSetOf(h.nbr[x.c]) : <<n, x.c, x.cycle>> \in Sent(h)}
        THEN {"messages_of_the_round_not_exact"} ELSE {})
  \cup (IF \E i \in 1..Len(h.calls) : Len(h.calls[i].from) # Cardinality(ToSetOf(h.calls[i].from))
        THEN {"two_messages_from_one_neighbour"} ELSE {})
  \cup (IF \E i, j \in 1..Len(h.sent) : i # j /\ h.sent[i] = h.sent[j] THEN {"two_algorithm_messages_in_one_round"} ELSE {})
  \cup (IF h.quiet /\ \E c \in DOMAIN h.nbr : h.nbr[c] # <<>> /\ Len(CallsOf(h, c)) < h.rounds THEN {"round_never_completed"} ELSE {})
VARIABLE k
Init == k \in 1..Len(H)
Next == UNCHANGED k
Emit == PrintT(<<"VERDICT", ToJson([id |-> H[k].id, bad |-> BadOf(H[k])])>>)
====
