---- MODULE SyncRounds ----
(***************************************************************************)
(* SynchronousComputationMixin (pydcop/infrastructure/computations.py) on  *)
(* an asynchronous network.  Computations Comp with neighbourhood Nbr run  *)
(* an arbitrary synchronous algorithm: at the beginning of every round     *)
(* (on_start for round 0, on_new_cycle for the following ones) a           *)
(* computation sends an algorithm message to a nondeterministically chosen *)
(* SUBSET of its neighbours; the mixin stamps every message with the       *)
(* sender's current cycle and sends an implicit synchronisation message to *)
(* the neighbours the algorithm did not write to.                          *)
(* Implementation variables per computation: cur (_current_cycle), inbox   *)
(* (_cycle_messages), nextbox (_next_cycle_messages), started, pre         *)
(* (messages received before start), reinj (their re-injection, which      *)
(* pre-empts the channels), and the FIFO channels.                         *)
(* History: calls = the on_new_cycle(messages, cycle_id) invocations,      *)
(* algoSent = who sent an algorithm message to whom in which round.        *)
(***************************************************************************)
EXTENDS Integers, Sequences, FiniteSets, TLC, Json
CONSTANTS Comp, Nbr, MaxRound      \* Nbr : [Comp -> SUBSET Comp], symmetric

VARIABLES cur, inbox, nextbox, started, pre, reinj, chan, calls, algoSent, err, act
impl == <<cur, inbox, nextbox, started, pre, reinj, chan>>
hist == <<calls, algoSent, err>>
vars == <<impl, hist, act>>

Pairs == {p \in Comp \X Comp : p[2] \in Nbr[p[1]]}
NoMsg == [k |-> "none", cyc |-> -1]
Init == /\ cur = [c \in Comp |-> 0]
        /\ inbox = [c \in Comp |-> [n \in Nbr[c] |-> NoMsg]]
        /\ nextbox = [c \in Comp |-> [n \in Nbr[c] |-> NoMsg]]
        /\ started = {} /\ pre = [c \in Comp |-> <<>>] /\ reinj = [c \in Comp |-> <<>>]
        /\ chan = [p \in Pairs |-> <<>>]
        /\ calls = [c \in Comp |-> <<>>] /\ algoSent = {} /\ err = {}
        /\ act = [n |-> "init"]

\* the messages computation c emits when it begins round r with the algorithm writing to the neighbours in S
Emit(c, r, S) == [n \in Nbr[c] |-> [k |-> IF n \in S THEN "algo" ELSE "sync", cyc |-> r, from |-> c]]
Push(ch, c, out) == [p \in Pairs |-> IF p[1] = c THEN Append(ch[p], out[p[2]]) ELSE ch[p]]
Full(box) == \A n \in DOMAIN box : box[n].k # "none"
AlgoSenders(box) == {n \in DOMAIN box : box[n].k = "algo"}

\* c.start(): on_start sends the round-0 messages; the messages received earlier are re-injected
Start(c, S) ==
  /\ c \notin started /\ S \subseteq Nbr[c]
  /\ started' = started \cup {c}
  /\ chan' = Push(chan, c, Emit(c, 0, S))
  /\ algoSent' = algoSent \cup {<<c, n, 0>> : n \in S}
  /\ reinj' = [reinj EXCEPT ![c] = pre[c]] /\ pre' = [pre EXCEPT ![c] = <<>>]
  /\ act' = [n |-> "start", c |-> c, choice |-> S]
  /\ UNCHANGED <<cur, inbox, nextbox, calls, err>>

\* _sync_message_handler for message m, the channels being ch before the handler sends anything;
\* S = the algorithm's choice if this message completes the round
Handle(ch, c, m, S) ==
  IF m.cyc = cur[c] THEN
     IF inbox[c][m.from].k # "none" THEN
        /\ err' = err \cup {<<"two_messages_in_a_cycle", c>>}
        /\ chan' = ch
        /\ UNCHANGED <<cur, inbox, nextbox, calls, algoSent>>
     ELSE LET ib == [inbox[c] EXCEPT ![m.from] = m] IN
          IF Full(ib) THEN
             \* _switch_cycle: on_new_cycle(algorithm messages of the round, cycle id), then the next round's messages
             /\ cur' = [cur EXCEPT ![c] = @ + 1]
             /\ calls' = [calls EXCEPT ![c] = Append(@, [cycle |-> cur[c], from |-> AlgoSenders(ib)])]
             /\ chan' = Push(ch, c, Emit(c, cur[c] + 1, S))
             /\ algoSent' = algoSent \cup {<<c, n, cur[c] + 1>> : n \in S}
             /\ inbox' = [inbox EXCEPT ![c] = nextbox[c]]
             /\ nextbox' = [nextbox EXCEPT ![c] = [n \in Nbr[c] |-> NoMsg]]
             /\ err' = err
          ELSE /\ inbox' = [inbox EXCEPT ![c] = ib]
               /\ chan' = ch
               /\ UNCHANGED <<cur, nextbox, calls, algoSent, err>>
  ELSE IF m.cyc = cur[c] + 1 THEN
     /\ nextbox' = [nextbox EXCEPT ![c][m.from] = m]
     /\ chan' = ch
     /\ UNCHANGED <<cur, inbox, calls, algoSent, err>>
  ELSE /\ err' = err \cup {<<"invalid_cycle", c>>}
       /\ chan' = ch
       /\ UNCHANGED <<cur, inbox, nextbox, calls, algoSent>>

WillSwitch(c, m) == m.cyc = cur[c] /\ inbox[c][m.from].k = "none" /\ Full([inbox[c] EXCEPT ![m.from] = m])
Choices(c, m) == IF WillSwitch(c, m) THEN SUBSET Nbr[c] ELSE {{}}

\* the head of channel a -> c reaches c: buffered if c is not started, else handled; re-injected messages go first
Deliver(a, c) ==
  /\ <<a, c>> \in Pairs /\ chan[<<a, c>>] # <<>> /\ reinj[c] = <<>>
  /\ LET m == Head(chan[<<a, c>>])
         popped == [chan EXCEPT ![<<a, c>>] = Tail(@)] IN
     IF c \notin started
     THEN /\ pre' = [pre EXCEPT ![c] = Append(@, m)]
          /\ chan' = popped
          /\ act' = [n |-> "deliver", src |-> a, c |-> c, choice |-> {}]
          /\ UNCHANGED <<cur, inbox, nextbox, started, reinj, hist>>
     ELSE \E S \in Choices(c, m) :
          /\ Handle(popped, c, m, S)
          /\ act' = [n |-> "deliver", src |-> a, c |-> c, choice |-> S]
          /\ UNCHANGED <<started, pre, reinj>>
\* a message received before start, re-injected by start(), is handled
Reinject(c) ==
  /\ reinj[c] # <<>>
  /\ LET m == Head(reinj[c]) IN
     \E S \in Choices(c, m) :
       /\ Handle(chan, c, m, S)
       /\ reinj' = [reinj EXCEPT ![c] = Tail(@)]
       /\ act' = [n |-> "reinj", src |-> m.from, c |-> c, choice |-> S]
       /\ UNCHANGED <<started, pre>>

Next == (\E c \in Comp : \E S \in SUBSET Nbr[c] : Start(c, S))
        \/ (\E p \in Pairs : Deliver(p[1], p[2])) \/ (\E c \in Comp : Reinject(c))
Spec == Init /\ [][Next]_vars

\* ---- the property (C08) -------------------------------------------------
\* no 'invalid cycle' / 'two messages in a cycle' error
NoSyncError == err = {}
\* on_new_cycle is called with cycle ids 0, 1, 2, ... and, in round i, with exactly the algorithm messages the neighbours
\* sent in round i (one per neighbour that wrote, nothing for the ones that only synchronised)
RoundsInOrder == \A c \in Comp : \A i \in 1..Len(calls[c]) :
                    /\ calls[c][i].cycle = i - 1
                    /\ calls[c][i].from = {n \in Nbr[c] : <<n, c, i - 1>> \in algoSent}
\* every computation advances round by round: nobody is more than one round ahead of a neighbour
NeighbourSkew == \A p \in Pairs : (p[1] \in started /\ p[2] \in started) => cur[p[1]] - cur[p[2]] \in {-1, 0, 1}
\* the rounds never stop by themselves (every round produces messages): exploration is bounded by a state constraint, and
\* progress is the absence of deadlock (checked by TLC when every computation has a neighbour)
Bounded == \A c \in Comp : cur[c] <= MaxRound
\* a computation that is ahead holds at most the next round's messages, one per neighbour (inbox and nextbox never overflow)
BoxesConsistent == \A c \in Comp : \A n \in Nbr[c] :
                      /\ inbox[c][n].k # "none" => inbox[c][n].cyc = cur[c]
                      /\ nextbox[c][n].k # "none" => nextbox[c][n].cyc = cur[c] + 1

\* ---- binding ---------------------------------------------------------------
BoxProj(b) == [n \in DOMAIN b |-> [k |-> b[n].k, cyc |-> b[n].cyc]]
Proj == [cur |-> cur, inbox |-> [c \in Comp |-> BoxProj(inbox[c])], nextbox |-> [c \in Comp |-> BoxProj(nextbox[c])],
         started |-> started,
         pre |-> [c \in Comp |-> [i \in 1..Len(pre[c]) |-> [from |-> pre[c][i].from, k |-> pre[c][i].k, cyc |-> pre[c][i].cyc]]],
         reinj |-> [c \in Comp |-> [i \in 1..Len(reinj[c]) |-> [from |-> reinj[c][i].from, k |-> reinj[c][i].k, cyc |-> reinj[c][i].cyc]]],
         chan |-> [p \in Pairs |-> [i \in 1..Len(chan[p]) |-> [k |-> chan[p][i].k, cyc |-> chan[p][i].cyc]]],
         calls |-> calls]
View == <<impl, hist>>
Edge == PrintT(<<"EDGE", ToJson(Proj), ToJson(act'), ToJson(Proj')>>)
====
