---- MODULE Gen_C29 ----
(***************************************************************************)
(* Case generator + oracle for C29: every batch parameter definition with  *)
(* up to NParams parameters, each a list of 1..MaxVals values, a scalar,   *)
(* or a nested dict of 1..2 sub-parameters with 1..2 values; the expected  *)
(* expansion is the set Batch!Combos with the option tokens of each        *)
(* combination.                                                            *)
(***************************************************************************)
EXTENDS Batch, Json, Randomization
CONSTANTS NParams, MaxVals, MaxCases

PNames == <<"algo", "beta", "cycles", "dist">>
\* values per parameter are distinct across parameters; numbers included (sorted as text: "10" < "9")
ValsOf == [algo |-> <<"mgm", "dsa", "adsa", "zeta">>, beta |-> <<"0", "10", "2", "33">>,
           cycles |-> <<"x1", "X1", "x0", "_">>, dist |-> <<"0.5", "0.25", "1e3", "b">>]
SubNames == <<"s", "r">>
Prefix(s, k) == [i \in 1..k |-> s[i]]

ParamDefs(n) ==
  {[kind |-> "vals", vals |-> Prefix(ValsOf[n], k), form |-> "list"] : k \in 1..MaxVals}
  \cup {[kind |-> "vals", vals |-> <<ValsOf[n][1]>>, form |-> "scalar"]}
  \cup {[kind |-> "sub", form |-> "dict", sub |-> [s \in {SubNames[i] : i \in 1..ns} |-> Prefix(ValsOf[n], IF s = "s" THEN k1 ELSE k2)]] :
          ns \in 1..2, k1 \in 1..2, k2 \in 1..2}

Defs == UNION {ChoiceFns({PNames[i] : i \in 1..k}, ParamDefs) : k \in 1..NParams}
Limited(S) == IF MaxCases = 0 \/ Cardinality(S) <= MaxCases THEN S ELSE RandomSubset(MaxCases, S)

VARIABLE case
Init == \E P \in Limited(Defs) :
          case = [def |-> P, n |-> NCombos(P),
                  combos |-> {[combo |-> c, tokens |-> Tokens(P, c)] : c \in Combos(P)}]
Next == UNCHANGED case
Emit == PrintT(<<"CASE", ToJson(case)>>)
====
