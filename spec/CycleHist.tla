---- MODULE CycleHist ----
(***************************************************************************)
(* Properties of cycle-based local search (MGM, MGM2, DSA) stated on the   *)
(* history h : [variable -> Seq(value index)], h[v][k] = the value v held  *)
(* when it began its k-th cycle (new_cycle()).  The same operators are     *)
(* invariants of the behavioural models (Mgm.tla, ...) and the judge of    *)
(* states reached by the REAL computations (Judge_Hist.tla).               *)
(* idle : [variable -> value] gives the constant value of the variables    *)
(* that take no part in cycles (no neighbour).                             *)
(***************************************************************************)
EXTENDS Dcop

HActive(I) == {c \in VarSet(I) : Nbrs(I, c) # {}}
HPairs(I) == {p \in VarSet(I) \X VarSet(I) : p[2] \in Nbrs(I, p[1])}
HHas(I, h, k) == \A c \in HActive(I) : Len(h[c]) >= k
HMax(I, h) == IF HActive(I) = {} THEN 0 ELSE Max({Len(h[c]) : c \in HActive(I)})
HBoundaries(I, h) == {k \in 1..HMax(I, h) : HHas(I, h, k)}
HA(I, h, idle, k) == [v \in VarSet(I) |-> IF v \in HActive(I) THEN h[v][k] ELSE idle[v]]
HSteps(I, h) == {k \in HBoundaries(I, h) : (k + 1) \in HBoundaries(I, h)}

\* C03: the global cost never gets worse from one boundary to the next
HCostBadSteps(I, h, idle) == {k \in HSteps(I, h) : Better(I, Cost(I, HA(I, h, idle, k)), Cost(I, HA(I, h, idle, k + 1)))}
HStagnationBadSteps(I, h, idle) == {k \in HSteps(I, h) : HA(I, h, idle, k) = HA(I, h, idle, k + 1) /\ ~OneOpt(I, HA(I, h, idle, k))}
HCostMonotone(I, h, idle) == \A k \in HSteps(I, h) : ~Better(I, Cost(I, HA(I, h, idle, k)), Cost(I, HA(I, h, idle, k + 1)))
\* C03: two variables sharing a constraint never change value in the same cycle, except the pairs in allowed(k)
HMoveAlone(I, h, idle, allowed(_)) ==
  \A k \in HSteps(I, h) : \A p \in HPairs(I) :
     (HA(I, h, idle, k)[p[1]] # HA(I, h, idle, k + 1)[p[1]] /\ HA(I, h, idle, k)[p[2]] # HA(I, h, idle, k + 1)[p[2]])
        => {p[1], p[2]} \in allowed(k)
\* C04: a cycle without any move ends on a 1-opt assignment
HStagnationIsOneOpt(I, h, idle) ==
  \A k \in HSteps(I, h) : HA(I, h, idle, k) = HA(I, h, idle, k + 1) => OneOpt(I, HA(I, h, idle, k))
\* C06 (DSA moves): a value held at boundary k + 1 that differs from the one at k is a best response to what the neighbours
\* held (and sent) at boundary k
HMovesBestResponse(I, h) ==
  \A c \in HActive(I) : \A k \in 1..(Len(h[c]) - 1) :
     (h[c][k + 1] # h[c][k] /\ (\A n \in Nbrs(I, c) : Len(h[n]) >= k)) =>
        h[c][k + 1] \in ArgBestLocal(I, c, [v \in VarSet(I) |-> IF v = c THEN h[c][k] ELSE IF v \in Nbrs(I, c) THEN h[v][k] ELSE 1])
\* witnesses (non-vacuity)
HMoves(I, h, idle) == Cardinality({k \in HSteps(I, h) : HA(I, h, idle, k) # HA(I, h, idle, k + 1)})
HStagnations(I, h, idle) == Cardinality({k \in HSteps(I, h) : HA(I, h, idle, k) = HA(I, h, idle, k + 1)})
====
