---- MODULE Judge_C25 ----
EXTENDS Replication, Json, IOUtils
H == ndJsonDeserialize(IOEnv.TRACE_FILE)
ToSetOf(x) == {x[i] : i \in 1..Len(x)}
DOf(h) == [agents |-> ToSetOf(h.agents), comps |-> ToSetOf(h.comps), cap |-> h.cap, owner |-> h.owner, fp |-> h.fp, k |-> h.k]
OOf(h) == [done |-> ToSetOf(h.done), hosts |-> [c \in ToSetOf(h.comps) |-> ToSetOf(h.hosts[c])],
           held |-> [a \in ToSetOf(h.agents) |-> ToSetOf(h.held[a])], dirReps |-> [c \in ToSetOf(h.comps) |-> ToSetOf(h.dirReps[c])],
           accepts |-> [i \in 1..Len(h.accepts) |-> [a |-> h.accepts[i].a, c |-> h.accepts[i].c, held |-> ToSetOf(h.accepts[i].held)]]]
BadOf(h) == BadOutcome(DOf(h), OOf(h))
                \cup (IF \E c \in ToSetOf(h.comps) : Len(h.hosts[c]) # Cardinality(ToSetOf(h.hosts[c])) THEN {"same_host_listed_twice"} ELSE {})
                \cup (IF h.exc # <<>> THEN {"handler_raised"} ELSE {})
VARIABLE k
Init == k \in 1..Len(H)
Next == UNCHANGED k
Emit == PrintT(<<"VERDICT", ToJson([id |-> H[k].id, bad |-> BadOf(H[k])])>>)
====
