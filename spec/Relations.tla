---- MODULE Relations ----
(***************************************************************************)
(* pydcop/dcop/relations.py as mathematics: a relation is its graph over   *)
(* its declared scope.  R == [scope |-> Seq(VarName), ds |-> [VarName ->   *)
(* domain size], tab |-> Seq(Cost)] with tab in row-major order of scope   *)
(* (first variable slowest), exactly numpy's layout for NAryMatrixRelation.*)
(* Assignments map variable names to domain INDICES 1..ds[v]; the harness  *)
(* maps indices to concrete domain values.                                 *)
(***************************************************************************)
EXTENDS Costs, SequencesExt, FiniteSetsExt, TLC

ScopeSet(s) == {s[i] : i \in 1..Len(s)}

RECURSIVE RowIdx(_, _, _, _, _)
RowIdx(ds, scope, asg, k, acc) ==
  IF k > Len(scope) THEN acc
  ELSE RowIdx(ds, scope, asg, k + 1, acc * ds[scope[k]] + asg[scope[k]] - 1)

RECURSIVE TabSize(_, _)
TabSize(ds, scope) == IF scope = <<>> THEN 1 ELSE ds[Head(scope)] * TabSize(ds, Tail(scope))

\* the assignment (over scope) stored at position i (1-based) of a row-major table
RECURSIVE AsgAt(_, _, _)
AsgAt(ds, scope, i) ==      \* i is 0-based here
  IF scope = <<>> THEN <<>>
  ELSE LET rest == TabSize(ds, Tail(scope)) IN
       (Head(scope) :> ((i \div rest) + 1)) @@ AsgAt(ds, Tail(scope), i % rest)

AllAsg(ds, scope) == {AsgAt(ds, scope, i) : i \in 0..(TabSize(ds, scope) - 1)}

Eval(R, asg) == R.tab[1 + RowIdx(R.ds, R.scope, asg, 1, 0)]

\* build the table of a function f over `scope`
Table(ds, scope, f(_)) == [i \in 1..TabSize(ds, scope) |-> f(AsgAt(ds, scope, i - 1))]

RestrictTo(asg, S) == [v \in S |-> asg[v]]

(* set_value_for_assignment: a NEW relation equal to R except at asg *)
SetValue(R, asg, c) == [R EXCEPT !.tab[1 + RowIdx(R.ds, R.scope, asg, 1, 0)] = c]

(* slice: fix the variables of p (a function on a subset of the scope) *)
SliceScope(R, p) == SelectSeq(R.scope, LAMBDA v : v \notin DOMAIN p)
Slice(R, p) ==
  LET sc == SliceScope(R, p) IN
  [scope |-> sc, ds |-> R.ds, tab |-> Table(R.ds, sc, LAMBDA a : Eval(R, a @@ p))]

(* join: over the union of the scopes (u1's variables first), point-wise sum *)
JoinScope(R1, R2) == R1.scope \o SelectSeq(R2.scope, LAMBDA v : v \notin ScopeSet(R1.scope))
Join(R1, R2) ==
  LET sc == JoinScope(R1, R2)  ds == R1.ds @@ R2.ds IN
  [scope |-> sc, ds |-> ds,
   tab |-> Table(ds, sc, LAMBDA a : CPlus(Eval(R1, RestrictTo(a, ScopeSet(R1.scope))),
                                            Eval(R2, RestrictTo(a, ScopeSet(R2.scope)))))]

(* projection: optimise x out *)
Project(R, x, mode) ==
  LET sc == SelectSeq(R.scope, LAMBDA v : v # x) IN
  [scope |-> sc, ds |-> R.ds,
   tab |-> Table(R.ds, sc, LAMBDA a : CBest(mode, {Eval(R, a @@ (x :> d)) : d \in 1..R.ds[x]}))]

(* find_arg_optimal on a unary relation: all optimal indices, and the optimum *)
ArgOpt(R, mode) ==
  LET x == R.scope[1]
      best == CBest(mode, {R.tab[d] : d \in 1..R.ds[x]}) IN
  [vals |-> {d \in 1..R.ds[x] : R.tab[d] = best}, cost |-> best]

\* a relation re-expressed over another ordering of the same scope
Reorder(R, sc) == [scope |-> sc, ds |-> R.ds, tab |-> Table(R.ds, sc, LAMBDA a : Eval(R, a))]
====
