---- MODULE Gen_C13 ----
(***************************************************************************)
(* Case generator + oracle for C13 (solution cost accounting).  A case is  *)
(* a DCOP instance of Gen_Dcop (cost alphabet containing the infinity      *)
(* value InfV), a set of external variables with their values, and a call: *)
(*   sol : DCOP.solution_cost(assignment over `dom`, InfV)                 *)
(*         expected <<hard, soft>> when dom is exactly the decision        *)
(*         variables, "ValueError" when a variable is missing;             *)
(*   ac  : assignment_cost(assignment over the scopes of cs, cs, withVars) *)
(* Expected results come from Dcop!SolutionCost / Dcop!AssignmentCost.     *)
(***************************************************************************)
EXTENDS Gen_Dcop
CONSTANTS InfV, NAsg
VARIABLE case

Zeros(n) == [j \in 1..n |-> 0]
\* an external variable is a plain variable for the cost accounting: no own cost
WithExt(I, ext) == [I EXCEPT !.varcost = [v \in DOMAIN I.varcost |-> IF v \in ext THEN Zeros(I.dsize[v]) ELSE I.varcost[v]]]
Asgs(I, S) == {a \in [S -> 1..3] : \A v \in S : a[v] <= I.dsize[v]}
Pick(S) == IF Exhaustive THEN S ELSE RandomSubset(NAsg, S)

SolCases(I) ==
  UNION {UNION {UNION {
    {[op |-> "sol", inst |-> WithExt(I, ext), ext |-> ev, asg |-> a, infinity |-> InfV,
      exp |-> IF dom = VarSet(I) \ ext THEN [kind |-> "cost", v |-> SolutionCost(WithExt(I, ext), a @@ ev, InfV)]
              ELSE [kind |-> "ValueError", v |-> <<0, 0>>]] : a \in Pick(Asgs(I, dom))}
      : dom \in SUBSET (VarSet(I) \ ext)}
      : ev \in Asgs(I, ext)}
      : ext \in {{}} \cup {{v} : v \in VarSet(I)}}

AcCases(I) ==
  UNION {UNION {
    {[op |-> "ac", inst |-> I, cs |-> cs, asg |-> a, withvars |-> wv,
      exp |-> [kind |-> "cost", v |-> <<0, AssignmentCost(I, cs, a, wv)>>]] : a \in Pick(Asgs(I, ScopeUnion(I, cs)))}
      : wv \in BOOLEAN}
      : cs \in SUBSET ConIdx(I)}

Init13 == Init /\ case \in SolCases(inst) \cup AcCases(inst)
Next13 == UNCHANGED <<inst, case>>
Emit13 == PrintT(<<"CASE", ToJson(case)>>)
====
