---- MODULE Graphs ----
(***************************************************************************)
(* pydcop/computations_graph: what each computation graph model is, as a   *)
(* function of the DCOP (Dcop.tla instance: vars sorted lexically, cons    *)
(* with names and scopes).                                                 *)
(*  - constraints hyper-graph: one node per variable; the node lists the   *)
(*    constraints containing the variable; one hyper-link per such         *)
(*    constraint over its scope; neighbours = variables sharing a constraint*)
(*  - factor graph: bipartite, one node per variable and per constraint,   *)
(*    x -- f iff x in scope(f)                                             *)
(*  - ordered graph: hyper-graph nodes chained in lexical order            *)
(*  - pseudo-tree: any DFS forest of the constraint graph (ValidPseudoTree) *)
(***************************************************************************)
EXTENDS Dcop

ConNames(I, S) == {I.cons[i].name : i \in S}
HyperNode(I, v) == [cons  |-> ConNames(I, ConsOn(I, v)),
                    nbrs  |-> Nbrs(I, v),
                    links |-> {[name |-> I.cons[i].name, nodes |-> ScopeOf(I.cons[i])] : i \in ConsOn(I, v)}]
HyperGraph(I) == [v \in VarSet(I) |-> HyperNode(I, v)]

FactorGraph(I) ==
  [vars    |-> [v \in VarSet(I) |-> [nbrs |-> ConNames(I, ConsOn(I, v))]],
   factors |-> [f \in ConNames(I, ConIdx(I)) |->
                  LET i == CHOOSE j \in ConIdx(I) : I.cons[j].name = f IN [nbrs |-> ScopeOf(I.cons[i])]]]

\* next / previous in the lexical order of the names ("" = none); I.vars is sorted
OrderedGraph(I) ==
  [v \in VarSet(I) |->
     LET k == RankOf(I, v) IN
     [cons |-> ConNames(I, ConsOn(I, v)),
      next |-> IF k < Len(I.vars) THEN I.vars[k + 1] ELSE "",
      prev |-> IF k > 1 THEN I.vars[k - 1] ELSE ""]]

\* ---- pseudo-tree --------------------------------------------------------
\* t: [v -> [parent : name or "", children, pparents, pchildren : sets of names, cons : set of constraint names]]
RECURSIVE AncestorsOf(_, _, _)
AncestorsOf(t, v, fuel) == IF t[v].parent = "" \/ fuel = 0 THEN {}
                           ELSE {t[v].parent} \cup AncestorsOf(t, t[v].parent, fuel - 1)
\* names of the clauses of the definition that t violates ({} = t is a valid pseudo-tree of I)
PTBad(I, t) ==
  LET V == VarSet(I)  n == Cardinality(VarSet(I))
      Anc(v) == AncestorsOf(t, v, n + 1) IN
  (IF DOMAIN t # V THEN {"one_node_per_variable"} ELSE
   (IF \E v \in V : ~(t[v].parent \in V \cup {""}) \/ t[v].parent = v THEN {"parent_is_a_node"} ELSE
    \* mutual consistency of the four link kinds
    (IF \E v, u \in V : ~((t[v].parent = u) <=> (v \in t[u].children)) THEN {"parent_children_consistent"} ELSE {})
    \cup (IF \E v, u \in V : ~((u \in t[v].pparents) <=> (v \in t[u].pchildren)) THEN {"pseudo_links_consistent"} ELSE {})
    \* no cycle: following parents never comes back and ends at a root
    \cup (IF \E v \in V : v \in Anc(v) THEN {"acyclic"} ELSE
          \* back edges go to proper ancestors other than the parent
          (IF \E v \in V : ~(t[v].pparents \subseteq (Anc(v) \ {t[v].parent})) THEN {"pseudo_parent_is_ancestor"} ELSE {}))
    \* every constraint-sharing pair is directly linked (hence, with the above, in ancestor/descendant relation)
    \cup (IF \E v, u \in V : u # v /\ ShareCon(I, u, v) /\
               ~(t[v].parent = u \/ t[u].parent = v \/ u \in t[v].pparents \/ v \in t[u].pparents)
          THEN {"constraint_pair_linked"} ELSE {})
    \* links only between constraint-sharing variables
    \cup (IF \E v \in V : \E u \in ({t[v].parent} \ {""}) \cup t[v].pparents : ~ShareCon(I, u, v) THEN {"links_follow_constraints"} ELSE {})
    \* each node carries exactly the constraints on its variable
    \cup (IF \E v \in V : t[v].cons # ConNames(I, ConsOn(I, v)) THEN {"node_constraints"} ELSE {})))
ValidPseudoTree(I, t) == PTBad(I, t) = {}

\* ---- certificate form, for graphs too large for the ancestor closure -----
\* pre/post: DFS entry/exit numbers attached to the forest t by the harness.  Local nesting conditions:
\*   a child's interval lies strictly inside its parent's, siblings' (and roots') intervals are disjoint;
\* they imply: u is an ancestor of v  <=>  pre[u] < pre[v] /\ post[v] < post[u].
Inside(pre, post, v, u) == pre[u] < pre[v] /\ post[v] < post[u]
Disjoint(pre, post, a, b) == post[a] < pre[b] \/ post[b] < pre[a]
PTBadCert(I, t, pre, post) ==
  LET V == VarSet(I)
      Roots == {v \in V : t[v].parent = ""} IN
  (IF DOMAIN t # V THEN {"one_node_per_variable"} ELSE
   (IF \E v \in V : ~(t[v].parent \in V \cup {""}) \/ t[v].parent = v THEN {"parent_is_a_node"} ELSE
    (IF \E v \in V : (t[v].parent # "" /\ v \notin t[t[v].parent].children) \/ (\E c \in t[v].children : t[c].parent # v)
     THEN {"parent_children_consistent"} ELSE {})
    \cup (IF \E v \in V : (\E u \in t[v].pparents : v \notin t[u].pchildren) \/ (\E c \in t[v].pchildren : v \notin t[c].pparents)
          THEN {"pseudo_links_consistent"} ELSE {})
    \cup (IF \/ \E v \in V : ~(pre[v] < post[v])
             \/ \E v \in V : \E c \in t[v].children : ~Inside(pre, post, c, v)
             \/ \E v \in V : \E c, d \in t[v].children : c # d /\ ~Disjoint(pre, post, c, d)
             \/ \E r, q \in Roots : r # q /\ ~Disjoint(pre, post, r, q)
          THEN {"acyclic"} ELSE {})
    \cup (IF \E v \in V : \E u \in t[v].pparents : ~Inside(pre, post, v, u) \/ u = t[v].parent THEN {"pseudo_parent_is_ancestor"} ELSE {})
    \cup (IF \E i \in ConIdx(I) : \E u, v \in ScopeOf(I.cons[i]) : u # v /\
               ~(t[v].parent = u \/ t[u].parent = v \/ u \in t[v].pparents \/ v \in t[u].pparents)
          THEN {"constraint_pair_linked"} ELSE {})
    \cup (IF \E v \in V : t[v].cons # ConNames(I, ConsOn(I, v)) THEN {"node_constraints"} ELSE {})))
====
