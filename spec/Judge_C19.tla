---- MODULE Judge_C19 ----
(***************************************************************************)
(* Property-level judge for C19 on histories observed on the REAL          *)
(* MessagePassingComputation + Agent queue: recvOrder (first delivery to   *)
(* on_message), handled (handler invocations), postOrder (post_msg calls), *)
(* sent (message sender calls), final = the history was driven to          *)
(* quiescence (started, resumed, queue drained).                           *)
(***************************************************************************)
EXTENDS Orders, TLC, Json, IOUtils
H == ndJsonDeserialize(IOEnv.TRACE_FILE)
BadOf(h) ==
  (IF ~NoDup(h.handled) THEN {"handled_twice"} ELSE {})
  \cup (IF NoDup(h.handled) /\ ~FollowsOrder(h.handled, h.recvOrder) THEN {"handled_out_of_reception_order"} ELSE {})
  \cup (IF ~NoDup(h.sent) THEN {"sent_twice"} ELSE {})
  \cup (IF NoDup(h.sent) /\ ~FollowsOrder(h.sent, h.postOrder) THEN {"sent_out_of_posting_order"} ELSE {})
  \cup (IF h.final /\ ~SameElements(h.handled, h.recvOrder) THEN {"received_but_never_handled"} ELSE {})
  \cup (IF h.final /\ Len(h.recvOrder) # h.nrecv THEN {"posted_to_agent_but_never_delivered"} ELSE {})
  \cup (IF h.final /\ ~SameElements(h.sent, h.postOrder) THEN {"posted_but_never_sent"} ELSE {})
VARIABLE k
Init == k \in 1..Len(H)
Next == UNCHANGED k
Emit == PrintT(<<"VERDICT", ToJson([id |-> H[k].id, bad |-> BadOf(H[k])])>>)
====
