---- MODULE Gen_C16 ----
(***************************************************************************)
(* Generator for C16/C17: DCOP structures (variables, constraint scopes;   *)
(* tables are irrelevant for the graph and are all-zero).  Exhaustive:     *)
(* every set of at most MaxCons constraints with scopes of arity 1..3 over *)
(* NVars variables, for every NVars in 1..MaxVars, parallel constraints    *)
(* (same scope twice) included; scopes are written in a TLC-chosen order.  *)
(* Sampled: NSample random structures over SVars variables.                *)
(* Each structure is printed with the three graphs Graphs.tla defines.     *)
(***************************************************************************)
EXTENDS Graphs, TLC, Json, Randomization
CONSTANTS MaxVars, MaxCons, SVars, SCons, NSample

V(n) == [i \in 1..n |-> "v" \o ToString(i - 1)]
ScopeSets(n) == {S \in SUBSET {V(n)[i] : i \in 1..n} : Cardinality(S) \in 1..3}
\* one sequence per scope set: alternately ascending / descending so that both orders occur
RankV(s) == CHOOSE i \in 1..20 : V(20)[i] = s
AsSeq(S, up) == SortSeq(SetToSeq(S), LAMBDA a, b : IF up THEN RankV(a) < RankV(b) ELSE RankV(a) > RankV(b))
\* multisets of at most m scope sets = non-decreasing index sequences over an enumeration of the scope sets
Enum(Ss) == SetToSeq(Ss)
Multi(k, m) == UNION {{q \in [1..len -> 1..k] : \A i \in 1..(len - 1) : q[i] <= q[i + 1]} : len \in 0..m}

Inst(n, scopes) ==
  [vars |-> V(n), dsize |-> [v \in {V(n)[i] : i \in 1..n} |-> 2], mode |-> "min",
   varcost |-> [v \in {V(n)[i] : i \in 1..n} |-> <<0, 0>>],
   cons |-> [i \in 1..Len(scopes) |-> [name |-> "c" \o ToString(i - 1), scope |-> scopes[i], tab |-> <<>>]]]

Exhaustive == UNION {LET e == Enum(ScopeSets(n)) IN
                     {Inst(n, [i \in 1..Len(q) |-> AsSeq(e[q[i]], (i + q[i]) % 2 = 0)]) : q \in Multi(Len(e), MaxCons)} : n \in 1..MaxVars}
Sampled == IF NSample = 0 THEN {} ELSE
           LET e == Enum(ScopeSets(SVars)) IN
           {Inst(SVars, [i \in 1..Len(q) |-> AsSeq(e[q[i]], (i + q[i]) % 2 = 0)]) : q \in RandomSubset(NSample, [1..SCons -> 1..Len(e)])}

VARIABLE inst
Init == inst \in Exhaustive \cup Sampled
Next == UNCHANGED inst
Emit == PrintT(<<"CASE", ToJson([inst |-> inst, hyper |-> HyperGraph(inst), factor |-> FactorGraph(inst), ordered |-> OrderedGraph(inst)])>>)
====
