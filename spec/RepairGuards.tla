---- MODULE RepairGuards ----
(***************************************************************************)
(* Guards and effects of the repair orchestration (AgentsMgt:              *)
(* _orchestrator_scenario_event, _agents_removal, _on_repair_ready,        *)
(* _on_repair_done; ResilientAgent on the other side), at the level of its *)
(* observable events, for ONE removal event:                               *)
(*   Removal         the event is handled: leaving agents, the orphaned    *)
(*                   computations with the agents holding their replicas   *)
(*   PauseSend(a)    pause request to a (before anything else)             *)
(*   RemovedSend(a)  'agent_removed' to a leaving agent                    *)
(*   SetupSend(a)    'setup_repair' to candidate a                         *)
(*   Ready(a)        the orchestrator gets 'repair_ready' from a           *)
(*   RunSend(a)      'repair_run' to a                                     *)
(*   Done(a, sel)    the orchestrator gets 'repair_done' from a, which     *)
(*                   takes over the computations sel                       *)
(*   RepairEnd(st)   the repair is reported with status st ("OK" / "KO")   *)
(*   ResumeSend(a)   resume request to a                                   *)
(* G = [leaving, orphaned : set of computations, reps : [orphaned -> set   *)
(* of agents]]; R is the state record.                                     *)
(***************************************************************************)
EXTENDS Integers, Sequences, FiniteSets, TLC

R0 == [removal |-> FALSE, paused |-> {}, removed |-> {}, setup |-> {}, ready |-> {}, run |-> {}, done |-> {},
       sel |-> {}, ended |-> FALSE, status |-> "", resumed |-> {}]
\* the candidates: agents that hold a replica of an orphaned computation and stay
Cands(G) == (UNION {G.reps[c] : c \in G.orphaned}) \ G.leaving

RGuard(G, R, e) ==
  CASE e.e = "removal" -> ~R.removal
    [] e.e = "pause_send" -> ~R.removal                                   \* everybody is paused before the removal is processed
    [] e.e = "removed_send" -> e.a \in G.leaving /\ ~R.ended
    [] e.e = "setup_send" -> R.removal /\ e.a \in Cands(G) /\ R.run = {}
    [] e.e = "ready" -> e.a \in R.setup \ R.ready
    \* the repair DCOP is started once EVERY candidate is ready, on the ready candidates
    [] e.e = "run_send" -> R.setup \subseteq R.ready /\ e.a \in R.ready
    \* a candidate takes over computations it holds a replica of, that nobody else has taken
    [] e.e = "done" -> /\ e.a \in R.run \ R.done
                       /\ \A i \in 1..Len(e.sel) : e.sel[i] \in G.orphaned /\ e.a \in G.reps[e.sel[i]] /\ e.sel[i] \notin R.sel
    \* reported once every running candidate is done (at once when nothing is orphaned); OK iff nothing is lost
    [] e.e = "repair_end" -> /\ R.removal /\ ~R.ended /\ R.run \subseteq R.done /\ (G.orphaned # {} => R.run # {} \/ Cands(G) = {})
                             /\ (e.status = "OK") = (G.orphaned \subseteq R.sel)
    [] e.e = "resume_send" -> R.ended
    [] OTHER -> FALSE
RApply(R, e) ==
  CASE e.e = "removal" -> [R EXCEPT !.removal = TRUE]
    [] e.e = "pause_send" -> [R EXCEPT !.paused = @ \cup {e.a}]
    [] e.e = "removed_send" -> [R EXCEPT !.removed = @ \cup {e.a}]
    [] e.e = "setup_send" -> [R EXCEPT !.setup = @ \cup {e.a}]
    [] e.e = "ready" -> [R EXCEPT !.ready = @ \cup {e.a}]
    [] e.e = "run_send" -> [R EXCEPT !.run = @ \cup {e.a}]
    [] e.e = "done" -> [R EXCEPT !.done = @ \cup {e.a}, !.sel = @ \cup {e.sel[i] : i \in 1..Len(e.sel)}]
    [] e.e = "repair_end" -> [R EXCEPT !.ended = TRUE, !.status = e.status]
    [] e.e = "resume_send" -> [R EXCEPT !.resumed = @ \cup {e.a}]
    [] OTHER -> R
====
