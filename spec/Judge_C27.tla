---- MODULE Judge_C27 ----
EXTENDS Repair, Json, IOUtils
H == ndJsonDeserialize(IOEnv.TRACE_FILE)
ToSetOf(x) == {x[i] : i \in 1..Len(x)}
DOf(h) == [comps |-> ToSetOf(h.comps), alive |-> ToSetOf(h.alive), left |-> ToSetOf(h.left), hostBefore |-> h.hostBefore,
           repsBefore |-> [c \in ToSetOf(h.comps) |-> ToSetOf(h.repsBefore[c])]]
OOf(h) == [hosted |-> [a \in ToSetOf(h.alive) |-> ToSetOf(h.hosted[a])], dir |-> h.dir, status |-> h.status]
BadOf(h) == BadRepair(DOf(h), OOf(h)) \cup (IF h.exc # <<>> THEN {"handler_raised"} ELSE {})
VARIABLE k
Init == k \in 1..Len(H)
Next == UNCHANGED k
Emit == PrintT(<<"VERDICT", ToJson([id |-> H[k].id, bad |-> BadOf(H[k])])>>)
====
