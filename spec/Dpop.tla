---- MODULE Dpop ----
(***************************************************************************)
(* DpopAlgo (pydcop/algorithms/dpop.py) on the asynchronous network of the *)
(* behavioural modules, over the pseudo-tree the REAL builder produced     *)
(* (I.tree[v] = [parent ("" for a root), children, pp, pc]; C17 decides    *)
(* whether that tree is a valid DFS forest).  One action = one handler     *)
(* invocation: start(), or on_message for one UTIL / VALUE message.        *)
(* Implementation variables per computation (loc[c]): run ("idle",         *)
(* "running", "stopped": a computation stops itself when it has selected   *)
(* its value), waited (_waited_children), ju (_joined_utils: a relation     *)
(* [dims, tab], tab a function over the assignments of dims), csep         *)
(* (_children_separator), val, fin.                                        *)
(* A relation a node owns is one of its constraints that none of its       *)
(* descendants (children, pseudo-children) takes part in ("a relation is   *)
(* managed by the lowest node of the tree it depends on").                 *)
(* Nothing is drawn at random: find_arg_optimal lists the best values in   *)
(* domain order and DPOP takes the first.                                  *)
(***************************************************************************)
EXTENDS Dcop, TLC, Json, IOUtils

Insts == ndJsonDeserialize(IOEnv.INST)
VARIABLE t
I == Insts[t]
V == VarSet(I)
SeqSet(q) == {q[i] : i \in 1..Len(q)}
Parent(c) == I.tree[c].parent
Children(c) == SeqSet(I.tree[c].children)
Desc(c) == Children(c) \cup SeqSet(I.tree[c].pc)
IsRoot(c) == Parent(c) = ""
IsLeaf(c) == Children(c) = {}
Owned(c) == {i \in ConsOn(I, c) : ScopeOf(I.cons[i]) \cap Desc(c) = {}}
Links == {<<a, b>> \in V \X V : Parent(a) = b \/ Parent(b) = a}

VARIABLES started, loc, chan, pre, reinj, act
impl == <<started, loc, chan, pre, reinj>>
vars == <<t, impl, act>>

\* ---- relations over sets of variables --------------------------------------
Asgs(D) == {a \in [D -> 1..3] : \A v \in D : a[v] <= I.dsize[v]}
RestrictTo(a, D) == [v \in D |-> a[v]]
Rel(D, f(_)) == [dims |-> D, tab |-> [a \in Asgs(D) |-> f(a)]]
Join(u1, u2) == Rel(u1.dims \cup u2.dims, LAMBDA a : u1.tab[RestrictTo(a, u1.dims)] + u2.tab[RestrictTo(a, u2.dims)])
ConRel(i) == Rel(ScopeOf(I.cons[i]), LAMBDA a : EvalCon(I, I.cons[i], a))
OwnRel(c) == Rel({c}, LAMBDA a : I.varcost[c][a[c]])
Ext(a, x, d) == [v \in DOMAIN a \cup {x} |-> IF v = x THEN d ELSE a[v]]
OptOf(S) == IF I.mode = "min" THEN Min(S) ELSE Max(S)
\* projection: x is eliminated by optimisation
ProjOut(u, x) == Rel(u.dims \ {x}, LAMBDA a : OptOf({u.tab[Ext(a, x, d)] : d \in 1..I.dsize[x]}))
RECURSIVE JoinAll(_, _)
JoinAll(u, S) == IF S = {} THEN u ELSE LET i == CHOOSE j \in S : TRUE IN JoinAll(Join(u, ConRel(i)), S \ {i})
\* the first (in domain order) of the best values of x in a relation over {x} only
FirstBest(u, x) == LET best == OptOf({u.tab[[v \in {x} |-> d]] : d \in 1..I.dsize[x]})
                   IN CHOOSE d \in 1..I.dsize[x] : u.tab[[v \in {x} |-> d]] = best /\ \A e \in 1..(d - 1) : u.tab[[v \in {x} |-> e]] # best
Slice(u, asg) == LET fixed == u.dims \cap DOMAIN asg IN
                 Rel(u.dims \ fixed, LAMBDA a : u.tab[[v \in u.dims |-> IF v \in fixed THEN asg[v] ELSE a[v]]])

Loc0(c) == [run |-> "idle", waited |-> Children(c), ju |-> OwnRel(c), csep |-> [ch \in Children(c) |-> {}], val |-> 0, fin |-> FALSE]
Init == /\ t \in 1..Len(Insts)
        /\ started = {} /\ loc = [c \in V |-> Loc0(c)]
        /\ chan = [p \in Links |-> <<>>]
        /\ pre = [c \in V |-> <<>>] /\ reinj = [c \in V |-> <<>>]
        /\ act = [n |-> "init"]

Push(ch, from, to, m) == [ch EXCEPT ![<<from, to>>] = Append(@, m)]
RECURSIVE PushAll(_, _, _)
PushAll(ch, from, ms) == IF ms = <<>> THEN ch ELSE PushAll(Push(ch, from, Head(ms)[1], Head(ms)[2]), from, Tail(ms))

\* select_value_and_finish
Finish(l, d) == [l EXCEPT !.val = d, !.fin = TRUE, !.run = "stopped"]
\* _compute_utils_msg: the owned relations are joined in, the variable is projected out
WithOwned(c, l) == [l EXCEPT !.ju = JoinAll(l.ju, Owned(c))]
\* the VALUE messages of c, which selected d knowing the values vd of (some of) its ancestors
ValueMsgs(c, l, d, vd) ==
  SetToSeq({<<ch, [t |-> "VALUE", asg |-> [v \in {c} \cup (l.csep[ch] \cap DOMAIN vd) |-> IF v = c THEN d ELSE vd[v]]]>> : ch \in Children(c)})

Start(c) ==
  /\ c \notin started
  /\ started' = started \cup {c}
  /\ reinj' = [reinj EXCEPT ![c] = pre[c]] /\ pre' = [pre EXCEPT ![c] = <<>>]
  /\ LET l == [loc[c] EXCEPT !.run = "running"] IN
     IF IsLeaf(c) /\ ~IsRoot(c)
     THEN LET l1 == WithOwned(c, l) IN
          /\ loc' = [loc EXCEPT ![c] = l1]
          /\ chan' = Push(chan, c, Parent(c), [t |-> "UTIL", rel |-> ProjOut(l1.ju, c)])
     ELSE IF IsLeaf(c)
     THEN \* root and leaf: an isolated variable selects its value alone
          LET l1 == WithOwned(c, l) IN
          /\ loc' = [loc EXCEPT ![c] = Finish(l1, FirstBest(l1.ju, c))]
          /\ chan' = chan
     ELSE /\ loc' = [loc EXCEPT ![c] = l] /\ chan' = chan
  /\ act' = [n |-> "start", c |-> c]

\* _on_util_message / _on_value_message
Handle(c, from, m, ch) ==
  IF loc[c].run # "running"
  THEN /\ pre' = [pre EXCEPT ![c] = Append(@, [from |-> from, m |-> m])]
       /\ chan' = ch /\ loc' = loc
  ELSE /\ pre' = pre
       /\ IF m.t = "UTIL"
          THEN LET l1 == [loc[c] EXCEPT !.ju = Join(@, m.rel), !.waited = @ \ {from}, !.csep[from] = m.rel.dims] IN
               IF l1.waited # {} THEN /\ loc' = [loc EXCEPT ![c] = l1] /\ chan' = ch
               ELSE LET l2 == WithOwned(c, l1) IN
                    IF IsRoot(c)
                    THEN LET d == FirstBest(l2.ju, c) IN
                         /\ loc' = [loc EXCEPT ![c] = Finish(l2, d)]
                         /\ chan' = PushAll(ch, c, SetToSeq({<<k, [t |-> "VALUE", asg |-> [v \in {c} |-> d]]>> : k \in Children(c)}))
                    ELSE /\ loc' = [loc EXCEPT ![c] = l2]
                         /\ chan' = Push(ch, c, Parent(c), [t |-> "UTIL", rel |-> ProjOut(l2.ju, c)])
          ELSE LET rel == Slice(loc[c].ju, m.asg)
                   d == FirstBest(rel, c) IN
               /\ loc' = [loc EXCEPT ![c] = Finish(loc[c], d)]
               /\ chan' = PushAll(ch, c, ValueMsgs(c, loc[c], d, m.asg))

Deliver(a, c) ==
  /\ <<a, c>> \in Links /\ chan[<<a, c>>] # <<>> /\ reinj[c] = <<>>
  /\ Handle(c, a, Head(chan[<<a, c>>]), [chan EXCEPT ![<<a, c>>] = Tail(@)])
  /\ UNCHANGED <<started, reinj>>
  /\ act' = [n |-> "deliver", src |-> a, c |-> c]
Reinject(c) ==
  /\ reinj[c] # <<>>
  /\ Handle(c, Head(reinj[c]).from, Head(reinj[c]).m, chan)
  /\ reinj' = [reinj EXCEPT ![c] = Tail(@)]
  /\ UNCHANGED started
  /\ act' = [n |-> "reinj", src |-> Head(reinj[c]).from, c |-> c]

Quiet == started = V /\ (\A p \in Links : chan[p] = <<>>) /\ (\A c \in V : reinj[c] = <<>>)
Done == Quiet /\ (\A c \in V : loc[c].fin) /\ UNCHANGED vars
Step == (\E c \in V : Start(c)) \/ (\E p \in Links : Deliver(p[1], p[2])) \/ (\E c \in V : Reinject(c))
Next == (Step /\ UNCHANGED t) \/ Done
Spec == Init /\ [][Next]_vars

\* ---- properties (C01) ------------------------------------------------------------
AllFinished == \A c \in V : loc[c].fin
\* when every computation has finished the selected assignment is optimal
FinishedMeansOptimal == AllFinished => Cost(I, [v \in V |-> loc[v].val]) = Opt(I)
\* nobody is left waiting: quiescence only when everybody has finished (with Done: no deadlock before the end)
QuietMeansFinished == Quiet => AllFinished
\* a finished computation holds a value of its domain (C10)
ValueInDomain == \A c \in V : loc[c].fin => loc[c].val \in 1..I.dsize[c]
\* the separator of a UTIL message never contains its sender
UtilWithoutSender == \A p \in Links : \A i \in 1..Len(chan[p]) : chan[p][i].t = "UTIL" => p[1] \notin chan[p][i].rel.dims

\* ---- binding -------------------------------------------------------------------------
\* a relation as (sorted dims, values in row-major order of the sorted dims): the harness evaluates the real relation the same way
RelProj(u) == [dims |-> u.dims, tab |-> {<<a, u.tab[a]>> : a \in DOMAIN u.tab}]
MsgProj(m) == IF m.t = "UTIL" THEN [t |-> "UTIL", rel |-> RelProj(m.rel)] ELSE [t |-> "VALUE", asg |-> m.asg]
FromSeq(s) == [i \in 1..Len(s) |-> [from |-> s[i].from, m |-> MsgProj(s[i].m)]]
Proj == [t |-> t, started |-> started,
         loc |-> [c \in V |-> [run |-> loc[c].run, waited |-> loc[c].waited, ju |-> RelProj(loc[c].ju), csep |-> loc[c].csep,
                               val |-> loc[c].val, fin |-> loc[c].fin]],
         chan |-> [p \in Links |-> [i \in 1..Len(chan[p]) |-> MsgProj(chan[p][i])]],
         pre |-> [c \in V |-> FromSeq(pre[c])], reinj |-> [c \in V |-> FromSeq(reinj[c])]]
View == <<t, impl>>
Edge == (Proj' = Proj /\ act' = act) \/ PrintT(<<"EDGE", ToJson(Proj), ToJson(act'), ToJson(Proj')>>)
====
