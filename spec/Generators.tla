---- MODULE Generators ----
(***************************************************************************)
(* pydcop/commands/generators: what a generated instance must look like.   *)
(*  Graph colouring: G = [n, colors, edges : set of <<i, j>> with i < j    *)
(*   (the generator's own graph), soft], O = [vars : Seq(name), dsize,     *)
(*   cons : Seq([scope : <<i, j>> (variable indexes), tab : Seq(Int)])].   *)
(*  Ising: intentional and extensive constraint forms, and mappings.       *)
(*  Scenario: events removing agents.                                      *)
(***************************************************************************)
EXTENDS Integers, Sequences, FiniteSets, TLC

Norm(e) == IF e[1] <= e[2] THEN <<e[1], e[2]>> ELSE <<e[2], e[1]>>
BadColoring(G, O) ==
  LET scopes == [i \in 1..Len(O.cons) |-> Norm(O.cons[i].scope)] IN
  (IF Len(O.vars) # G.n THEN {"wrong_number_of_variables"} ELSE {})
  \cup (IF O.dsize # G.colors THEN {"wrong_number_of_colours"} ELSE {})
  \cup (IF {scopes[i] : i \in 1..Len(scopes)} # G.edges THEN {"constraints_do_not_match_the_edges"} ELSE {})
  \cup (IF \E i, j \in 1..Len(scopes) : i # j /\ scopes[i] = scopes[j] THEN {"two_constraints_on_one_edge"} ELSE {})
  \* hard: a cost exactly when both ends have the same colour; soft: graded costs (not a 0 / penalty table on the diagonal only)
  \cup (IF ~G.soft /\ \E i \in 1..Len(O.cons) : \E a, b \in 1..G.colors :
              LET v == O.cons[i].tab[(a - 1) * G.colors + b] IN ~((a = b /\ v > 0) \/ (a # b /\ v = 0))
        THEN {"hard_constraint_is_not_an_inequality"} ELSE {})
  \cup (IF G.soft /\ \E i \in 1..Len(O.cons) : \E k \in 1..Len(O.cons[i].tab) : ~(O.cons[i].tab[k] \in 0..9)
        THEN {"soft_cost_out_of_range"} ELSE {})

\* a distribution (agent -> sequence of computations) hosts each of the computations C exactly once
BadMappingOnce(C, m) ==
  (IF \E c \in C : \A a \in DOMAIN m : \A k \in 1..Len(m[a]) : m[a][k] # c THEN {"computation_not_hosted"} ELSE {})
  \cup (IF \E a, b \in DOMAIN m : \E i \in 1..Len(m[a]) : \E j \in 1..Len(m[b]) : (a # b \/ i # j) /\ m[a][i] = m[b][j]
        THEN {"computation_hosted_twice"} ELSE {})
  \cup (IF \E a \in DOMAIN m : \E i \in 1..Len(m[a]) : m[a][i] \notin C THEN {"unknown_computation_hosted"} ELSE {})

\* scenario: events[i] = sequence of agents removed by the i-th event (delays left out)
BadScenario(S, events) ==
  (IF Len(events) # S.evts THEN {"wrong_number_of_events"} ELSE {})
  \cup (IF \E i \in 1..Len(events) : Len(events[i]) # S.actions THEN {"wrong_number_of_removals_in_an_event"} ELSE {})
  \cup (IF \E i, j \in 1..Len(events) : \E k \in 1..Len(events[i]) : \E l \in 1..Len(events[j]) :
              (i # j \/ k # l) /\ events[i][k] = events[j][l] THEN {"agent_removed_twice"} ELSE {})
  \cup (IF \E i \in 1..Len(events) : \E k \in 1..Len(events[i]) : events[i][k] \notin S.agents THEN {"unknown_agent_removed"} ELSE {})
====
