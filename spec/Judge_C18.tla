---- MODULE Judge_C18 ----
(***************************************************************************)
(* Property-level judge for C18 on histories observed on a REAL agent      *)
(* (Messaging + Agent loop) with real posting threads.  A history carries  *)
(*   msgs    : [mid -> [p, i, dest, ty]] as a sequence of records          *)
(*   handled : Seq(mid)   in handling order                                *)
(*   fetch   : Seq([m, queued : Seq(type)])  the types queued just before  *)
(*             each fetch (taken under the queue mutex)                    *)
(*   before  : mids put in the queue before the clean shutdown             *)
(*   exited  : the agent loop has exited after a clean shutdown            *)
(*   settled : all posts finished, every destination registered, no        *)
(*             shutdown, queue drained                                     *)
(*   stuck   : mids still deferred although their destination is registered*)
(***************************************************************************)
EXTENDS Orders, TLC, Json, IOUtils
H == ndJsonDeserialize(IOEnv.TRACE_FILE)
MsgOf(h, m) == LET k == CHOOSE k \in 1..Len(h.msgs) : h.msgs[k].mid = m IN h.msgs[k]
AllM(h) == {h.msgs[k].mid : k \in 1..Len(h.msgs)}
BadOf(h) ==
  (IF ~NoDup(h.handled) THEN {"handled_twice"} ELSE {})
  \cup (IF \E k \in 1..Len(h.fetch) : \E j \in 1..Len(h.fetch[k].queued) : h.fetch[k].queued[j] < MsgOf(h, h.fetch[k].m).ty
        THEN {"lower_type_was_waiting"} ELSE {})
  \cup (IF \E i, j \in 1..Len(h.handled) :
             LET a == MsgOf(h, h.handled[i])  b == MsgOf(h, h.handled[j]) IN
             a.p = b.p /\ a.ty = b.ty /\ a.dest = b.dest /\ a.i < b.i /\ i > j
        THEN {"sender_order_not_kept"} ELSE {})
  \cup (IF h.stuck # <<>> THEN {"deferred_message_stuck_after_registration"} ELSE {})
  \cup (IF h.settled /\ \E m \in AllM(h) : ~InSeq(h.handled, m) THEN {"posted_but_never_handled"} ELSE {})
  \cup (IF h.exited /\ \E k \in 1..Len(h.before) : ~InSeq(h.handled, h.before[k]) THEN {"queued_before_shutdown_not_handled"} ELSE {})
VARIABLE k
Init == k \in 1..Len(H)
Next == UNCHANGED k
Emit == PrintT(<<"VERDICT", ToJson([id |-> H[k].id, bad |-> BadOf(H[k])])>>)
====
