---- MODULE Costs ----
(***************************************************************************)
(* The cost algebra of pyDCOP as far as the specification needs it.        *)
(* TLC integers are 32 bit, pyDCOP costs are Python numbers (int, float,   *)
(* +/-inf).  A cost is a triple <<inf, hi, lo>> standing for               *)
(*      inf * infinity  +  hi * 2^40  +  lo / 2                            *)
(* with |lo| small, so that addition is component-wise and the order is    *)
(* lexicographic.  inf # 0 absorbs the finite part (float('inf') + 5 =     *)
(* float('inf')); +inf + -inf (nan in Python) is never generated.          *)
(***************************************************************************)
EXTENDS Integers, Sequences, FiniteSets

CZero == <<0, 0, 0>>
CInt(n) == <<0, 0, 2 * n>>
CHalf(n) == <<0, 0, n>>            \* n halves
CBig(h, n) == <<0, h, 2 * n>>      \* h * 2^40 + n
CPInf == <<1, 0, 0>>
CNInf == <<-1, 0, 0>>

CNorm(c) == IF c[1] > 0 THEN CPInf ELSE IF c[1] < 0 THEN CNInf ELSE c
CPlus(a, b) == CNorm(<<a[1] + b[1], a[2] + b[2], a[3] + b[3]>>)
CDefined(a, b) == ~(a[1] * b[1] < 0)          \* the sum is not nan
CLess(a, b) == \/ a[1] < b[1]
               \/ a[1] = b[1] /\ a[2] < b[2]
               \/ a[1] = b[1] /\ a[2] = b[2] /\ a[3] < b[3]
CLeq(a, b) == a = b \/ CLess(a, b)
CBetter(mode, a, b) == IF mode = "min" THEN CLess(a, b) ELSE CLess(b, a)
CIsInf(c) == c[1] # 0

\* best element of a non-empty set of costs
CBest(mode, S) == CHOOSE x \in S : \A y \in S : ~CBetter(mode, y, x)

RECURSIVE CSumSeq(_)
CSumSeq(s) == IF s = <<>> THEN CZero ELSE CPlus(Head(s), CSumSeq(Tail(s)))
====
