---- MODULE Adsa ----
(***************************************************************************)
(* ADsaComputation (pydcop/algorithms/adsa.py, asynchronous DSA driven by  *)
(* periodic actions) on the asynchronous network of the behavioural        *)
(* modules.  One action = one handler invocation: start(), the delivery of *)
(* one value message, or one firing of the computation's periodic action   *)
(* (first the delayed start, then the ticks).  Time is abstracted: a timer *)
(* that is armed may fire at any moment (the delay drawn at start only     *)
(* orders events in real time, which the model does not have).             *)
(* Implementation variables per computation (loc[c]): run ("idle",         *)
(* "running", "stopped"), ph (no timer yet / "delay": _start_handle armed  *)
(* / "tick": _tick_handle armed / "off"), val, ca (current_assignment,     *)
(* 0 = absent), nt (number of ticks: exploration bound only), fin.         *)
(* A tick with the values of all neighbours known: best values for the     *)
(* constraints PLUS the variable's own cost, current cost WITHOUT the own  *)
(* cost (as coded), delta = |current - best|, variant A / B / C, then the  *)
(* probability test (coin) and the choice among the (remaining) best       *)
(* values (pick); every tick ends with the value sent to every neighbour.  *)
(* mbad is a history variable: set when a tick moves to a value that is    *)
(* not a best response to the neighbours' values known at that tick (C06). *)
(***************************************************************************)
EXTENDS Dcop, TLC, Json, IOUtils
CONSTANTS MaxTicks

Insts == ndJsonDeserialize(IOEnv.INST)
VARIABLE t
I == Insts[t]
V == VarSet(I)
Nb(c) == Nbrs(I, c)
Pairs == {p \in V \X V : p[2] \in Nb(p[1])}
Variant == I.variant

VARIABLES started, loc, chan, pre, reinj, mbad, act
impl == <<started, loc, chan, pre, reinj>>
vars == <<t, impl, mbad, act>>

OwnBest(c) ==
  LET costs == {I.varcost[c][d] : d \in 1..I.dsize[c]}
      bc == IF I.mode = "min" THEN Min(costs) ELSE Max(costs)
      ties == {d \in 1..I.dsize[c] : I.varcost[c][d] = bc}
  IN IF I.mode = "min" THEN CHOOSE d \in ties : \A e \in ties : I.vrank[c][d] <= I.vrank[c][e]
     ELSE CHOOSE d \in ties : \A e \in ties : I.vrank[c][d] >= I.vrank[c][e]

Loc0(c) == [run |-> "idle", ph |-> "none", val |-> 0, ca |-> [n \in Nb(c) |-> 0], nt |-> 0, fin |-> FALSE]
Init == /\ t \in 1..Len(Insts)
        /\ started = {} /\ loc = [c \in V |-> Loc0(c)]
        /\ chan = [p \in Pairs |-> <<>>]
        /\ pre = [c \in V |-> <<>>] /\ reinj = [c \in V |-> <<>>]
        /\ mbad = FALSE
        /\ act = [n |-> "init"]

SendAll(ch, c, x) == [p \in Pairs |-> IF p[1] = c THEN Append(ch[p], x) ELSE ch[p]]
Abs(x) == IF x < 0 THEN -x ELSE x
ConOpt(i) == LET S == {I.cons[i].tab[j] : j \in 1..Len(I.cons[i].tab)} IN IF I.mode = "min" THEN Min(S) ELSE Max(S)
AsgOf(c, l, d) == [v \in V |-> IF v = c THEN d ELSE IF v \in Nb(c) /\ l.ca[v] > 0 THEN l.ca[v] ELSE 1]
ConsCost(c, a) == SumOver(ConsOn(I, c), LAMBDA i : EvalCon(I, I.cons[i], a))

\* on_start: a delayed start is armed (the delay itself is a random draw: coin = 1 or 2 for the two ends of the interval)
Start(c, coin) ==
  /\ c \notin started /\ coin \in {1, 2}
  /\ started' = started \cup {c}
  /\ reinj' = [reinj EXCEPT ![c] = pre[c]] /\ pre' = [pre EXCEPT ![c] = <<>>]
  /\ loc' = [loc EXCEPT ![c].run = "running", ![c].ph = "delay"]
  /\ UNCHANGED <<chan, mbad>>
  /\ act' = [n |-> "start", c |-> c, coin |-> coin, pick |-> 0]

\* delayed_start
DelayedStart(c, pick) ==
  /\ loc[c].ph = "delay" /\ loc[c].run = "running"
  /\ IF Nb(c) = {}
     THEN /\ pick = 0
          /\ loc' = [loc EXCEPT ![c].val = OwnBest(c), ![c].fin = TRUE, ![c].run = "stopped", ![c].ph = "off"]
          /\ chan' = chan
     ELSE /\ pick \in 1..I.dsize[c]
          /\ loc' = [loc EXCEPT ![c].val = pick, ![c].ph = "tick"]
          /\ chan' = SendAll(chan, c, pick)
  /\ UNCHANGED <<started, pre, reinj, mbad>>
  /\ act' = [n |-> "timer", c |-> c, coin |-> 0, pick |-> pick]

\* tick
Tick(c, coin, pick) ==
  /\ loc[c].ph = "tick" /\ loc[c].run = "running"
  /\ LET l == loc[c]
         full == \A n \in Nb(c) : l.ca[n] > 0
         costs == [d \in 1..I.dsize[c] |-> ConsCost(c, AsgOf(c, l, d)) + I.varcost[c][d]]
         best == IF I.mode = "min" THEN Min({costs[d] : d \in 1..I.dsize[c]}) ELSE Max({costs[d] : d \in 1..I.dsize[c]})
         bests == {d \in 1..I.dsize[c] : costs[d] = best}
         cur == ConsCost(c, AsgOf(c, l, l.val))
         delta == Abs(cur - best)
         violated == \E i \in ConsOn(I, c) : EvalCon(I, I.cons[i], AsgOf(c, l, l.val)) # ConOpt(i)
         lateral == delta = 0 /\ (Variant = "C" \/ (Variant = "B" /\ violated))
         try == full /\ (delta > 0 \/ lateral)
         cands == IF lateral /\ Cardinality(bests) > 1 THEN bests \ {l.val} ELSE bests
         move == try /\ coin = 1 IN
     /\ IF try THEN coin \in {1, 2} ELSE coin = 0
     /\ IF move THEN pick \in cands ELSE pick = 0
     /\ loc' = [loc EXCEPT ![c].val = IF move THEN pick ELSE @, ![c].nt = @ + 1]
     /\ chan' = SendAll(chan, c, IF move THEN pick ELSE l.val)
     /\ mbad' = (mbad \/ (move /\ pick # l.val /\ pick \notin ArgBestLocal(I, c, AsgOf(c, l, l.val))))
  /\ UNCHANGED <<started, pre, reinj>>
  /\ act' = [n |-> "timer", c |-> c, coin |-> coin, pick |-> pick]

Handle(c, from, x, ch) ==
  IF loc[c].run = "idle"
  THEN /\ pre' = [pre EXCEPT ![c] = Append(@, [from |-> from, x |-> x])] /\ chan' = ch /\ loc' = loc
  ELSE /\ pre' = pre /\ chan' = ch
       /\ loc' = IF loc[c].run = "running" THEN [loc EXCEPT ![c].ca[from] = x] ELSE loc
Deliver(a, c) ==
  /\ <<a, c>> \in Pairs /\ chan[<<a, c>>] # <<>> /\ reinj[c] = <<>>
  /\ Handle(c, a, Head(chan[<<a, c>>]), [chan EXCEPT ![<<a, c>>] = Tail(@)])
  /\ UNCHANGED <<started, reinj, mbad>>
  /\ act' = [n |-> "deliver", src |-> a, c |-> c, coin |-> 0, pick |-> 0]
Reinject(c) ==
  /\ reinj[c] # <<>>
  /\ Handle(c, Head(reinj[c]).from, Head(reinj[c]).x, chan)
  /\ reinj' = [reinj EXCEPT ![c] = Tail(@)]
  /\ UNCHANGED <<started, mbad>>
  /\ act' = [n |-> "reinj", src |-> Head(reinj[c]).from, c |-> c, coin |-> 0, pick |-> 0]

Step == (\E c \in V : \E k \in {1, 2} : Start(c, k))
        \/ (\E c \in V : \E k \in 0..I.dsize[c] : DelayedStart(c, k))
        \/ (\E c \in V : \E k \in 0..2 : \E d \in 0..I.dsize[c] : Tick(c, k, d))
        \/ (\E p \in Pairs : Deliver(p[1], p[2]))
        \/ (\E c \in V : Reinject(c))
Next == Step /\ UNCHANGED t
Spec == Init /\ [][Next]_vars
\* the periodic action never stops by itself: the exploration is cut after MaxTicks ticks per computation
Bounded == \A c \in V : loc[c].nt <= MaxTicks

\* ---- properties --------------------------------------------------------------
\* C06: every move is a best response to the neighbours' values known at that tick
MovesAreBestResponses == ~mbad
\* C10: a computation that selected a value holds a value of its domain
ValueInDomain == \A c \in V : loc[c].val \in 0..I.dsize[c] /\ (loc[c].ph \in {"tick", "off"} => loc[c].val >= 1)
\* a computation without neighbour finishes at its delayed start and never ticks
AloneFinishes == \A c \in V : (Nb(c) = {} /\ loc[c].ph = "off") <=> loc[c].fin
\* nothing is ever decided on a partial view: a value other than the initial one implies all neighbour values were known (they never leave)
KnownNeverShrinks == [][\A c \in V : \A n \in Nb(c) : loc[c].ca[n] > 0 => loc'[c].ca[n] > 0]_vars

\* ---- binding -------------------------------------------------------------------------
FromSeq(s) == [i \in 1..Len(s) |-> [from |-> s[i].from, x |-> s[i].x]]
Proj == [t |-> t, started |-> started, loc |-> [c \in V |-> [run |-> loc[c].run, ph |-> loc[c].ph, val |-> loc[c].val, ca |-> loc[c].ca, fin |-> loc[c].fin]],
         chan |-> chan, pre |-> [c \in V |-> FromSeq(pre[c])], reinj |-> [c \in V |-> FromSeq(reinj[c])]]
View == <<t, impl, mbad>>
Edge == (Proj' = Proj /\ act' = act) \/ PrintT(<<"EDGE", ToJson(Proj), ToJson(act'), ToJson(Proj')>>)
====
