---- MODULE Judge_C14 ----
(***************************************************************************)
(* Judge for C14: each record holds the observation of a generated DCOP    *)
(* (orig; its constraint tables are the ones TLC generated) and of the     *)
(* DCOP obtained by dumping it to YAML and loading it back (loaded), by    *)
(* one of the loading routes (string, one file, several files).            *)
(***************************************************************************)
EXTENDS Wire, Json, IOUtils
H == ndJsonDeserialize(IOEnv.TRACE_FILE)
BadOf(h) == IF h.exc # "" THEN {"round_trip_raised"}
            ELSE SameDcop(h.orig, h.loaded) \cup SameAgents(h.orig.agents, h.loaded.agents)
VARIABLE k
Init == k \in 1..Len(H)
Next == UNCHANGED k
Emit == PrintT(<<"VERDICT", ToJson([id |-> H[k].id, bad |-> BadOf(H[k])])>>)
====
