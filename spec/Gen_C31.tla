---- MODULE Gen_C31 ----
(***************************************************************************)
(* Case generator + oracle for C31: every agent definition over a small    *)
(* universe (routes / hosting tables / defaults / extra attributes), built *)
(* individually ("single") or by create_agents ("mass": list, range with   *)
(* zero padding, tuple of lists with separator), with the observations     *)
(* AgentDefs.tla defines.                                                  *)
(***************************************************************************)
EXTENDS AgentDefs, Json, Randomization
CONSTANTS Full      \* TRUE: the whole argument space for single agents; FALSE: a reduced one

U == {"a1", "a2", "a3"}
C == {"c1", "c2", "c3"}
PartialFns(S, V) == UNION {[D -> V] : D \in SUBSET S}
RouteTabs == IF Full THEN PartialFns(U, {2, 5}) ELSE PartialFns({"a1", "a2"}, {5})
HostTabs == IF Full THEN PartialFns({"c1", "c2"}, {0, 3}) ELSE PartialFns({"c1"}, {0, 3})    \* (an explicit 0 under a non-zero default matters)
AttrSets == {<<>>, [capacity |-> 100], [capacity |-> 100, foo |-> "bar"], [foo |-> "bar"]}
Args == {[defroute |-> dr, routes |-> r, defhost |-> dh, hosting |-> h, attrs |-> at] :
           dr \in {0, 1, 4}, r \in RouteTabs, dh \in {0, 7}, h \in HostTabs, at \in AttrSets}
\* which of the optional constructor arguments are passed explicitly (a default left out must behave as the default)
Idxs == {[kind |-> "list", items |-> <<"1", "2", "3">>],
         [kind |-> "list", items |-> <<"x">>],
         [kind |-> "range", from |-> 0, to |-> 3],
         [kind |-> "range", from |-> 1, to |-> 4],
         [kind |-> "range", from |-> 8, to |-> 12],
         [kind |-> "range", from |-> 0, to |-> 11],
         [kind |-> "tuple", lists |-> << <<"x", "y">>, <<"1", "2">> >>, sep |-> "_"],
         [kind |-> "tuple", lists |-> << <<"x", "y">>, <<"1">>, <<"p", "q">> >>, sep |-> "-"],
         [kind |-> "tuple", lists |-> << <<"1", "2">> >>, sep |-> "_"]}

Singles == {[op |-> "single", name |-> n, args |-> a, exp |-> Obs(AgentDefOf(n, a), U, C)] : n \in {"a1", "b"}, a \in Args}
Mass == {[op |-> "mass", prefix |-> "a", idx |-> i, args |-> a, exp |-> CreateAgents("a", i, a, U, C)] : i \in Idxs, a \in Args}

VARIABLE case
Init == case \in Singles \cup Mass
Next == UNCHANGED case
Emit == PrintT(<<"CASE", ToJson(case)>>)
====
