---- MODULE Mgm ----
(***************************************************************************)
(* MgmComputation (pydcop/algorithms/mgm.py) on the asynchronous network   *)
(* of the other behavioural modules (one FIFO channel per ordered pair of  *)
(* neighbours, messages received before start() buffered and re-injected   *)
(* in front of the channels).  One action = one handler invocation of the  *)
(* real computation (start, or on_message for one message), evaluated the  *)
(* way the code runs it: _handle_value_message, _wait_for_gains with the   *)
(* flush of the postponed gains, _handle_gain_message, _wait_for_values    *)
(* with _send_value / new_cycle / the stop_cycle test and the flush of the *)
(* postponed values call each other, and the two flush loops iterate over  *)
(* the LIVE postponed lists (a nested flush that clears the list ends the  *)
(* outer loop, as a Python list iterator does).                            *)
(* Implementation variables per computation (loc[c]): st (_state), val     *)
(* (current_value as domain index), cyc (cycle_count), nv                  *)
(* (_neighbors_values, 0 = absent), ngs/ng (_neighbors_gains), gain        *)
(* (_gain), newv (_new_value), ppv / ppg (the postponed lists), fin.       *)
(* The only random draws of the code are the initial value (when the       *)
(* variable has none) and random.choice among the best values when the     *)
(* gain is positive: both are the action parameter `pick`.                 *)
(* break_mode: the code compares the parameter with the `random` MODULE,   *)
(* so the lexical tie-break is used whatever the parameter says; the model *)
(* has the lexical tie-break only (deliberate: it is what the code does).  *)
(* History: hist[c] = the value c held at each of its new_cycle() calls.   *)
(***************************************************************************)
EXTENDS CycleHist, TLC, Json, IOUtils
CONSTANTS StopCycle

\* one TLC run explores a batch of instances: the initial states are the instances (t is constant along a behaviour)
Insts == ndJsonDeserialize(IOEnv.INST)
VARIABLE t
I == Insts[t]
V == VarSet(I)
Nb(c) == Nbrs(I, c)
Pairs == {p \in V \X V : p[2] \in Nb(p[1])}
Active == {c \in V : Nb(c) # {}}

VARIABLES started, loc, chan, pre, reinj, hist, nestmax, act
impl == <<started, loc, chan, pre, reinj>>
vars == <<t, impl, hist, nestmax, act>>

\* a variable without neighbour takes, at start, one of the best values for its own cost plus its unary constraints
\* (_compute_best_value with no neighbour value, then random.choice)
One == [v \in V |-> 1]
AloneBest(c) == ArgBestLocal(I, c, One)

Loc0(c) == [st |-> "starting", val |-> 0, cyc |-> 0, nv |-> [n \in Nb(c) |-> 0], ngs |-> {}, ng |-> [n \in Nb(c) |-> 0],
            gain |-> 0, newv |-> 0, ppv |-> <<>>, ppg |-> <<>>, fin |-> FALSE]
LocFields == {"st", "val", "cyc", "nv", "ngs", "ng", "gain", "newv", "ppv", "ppg", "fin"}
\* working record of a handler evaluation: the local state + messages sent, values recorded at new_cycle, use of the draw
Lift(l) == l @@ [out |-> <<>>, hs |-> <<>>, used |-> FALSE, ok |-> TRUE, depth |-> 0, nest |-> 0]
Strip(w) == [f \in LocFields |-> w[f]]

Init == /\ t \in 1..Len(Insts)
        /\ started = {} /\ loc = [c \in V |-> Loc0(c)]
        /\ chan = [p \in Pairs |-> <<>>]
        /\ pre = [c \in V |-> <<>>] /\ reinj = [c \in V |-> <<>>]
        /\ hist = [c \in V |-> <<>>] /\ nestmax = 0
        /\ act = [n |-> "init"]

Send(c, w, m) == [w EXCEPT !.out = @ \o SetToSeq({<<n, m>> : n \in Nb(c)})]
AsgOf(c, w) == [v \in V |-> IF v = c THEN w.val ELSE IF v \in Nb(c) /\ w.nv[v] > 0 THEN w.nv[v] ELSE 1]

RECURSIVE WaitValues(_, _, _), WaitGains(_, _, _), HValue(_, _, _, _, _), HGain(_, _, _, _, _), FoldV(_, _, _, _), FoldG(_, _, _, _)

\* _wait_for_values: state 'values', _send_value (new_cycle, stop test, value to every neighbour), flush of postponed values
WaitValues(c, w, pick) ==
  LET w1 == [w EXCEPT !.st = "values", !.cyc = @ + 1, !.hs = Append(@, w.val)]
      w2 == IF StopCycle > 0 /\ w1.cyc >= StopCycle THEN [w1 EXCEPT !.fin = TRUE]
            ELSE Send(c, w1, [t |-> "v", x |-> w1.val])
      w3 == [w2 EXCEPT !.depth = @ + 1, !.nest = IF w2.depth + 1 > @ THEN w2.depth + 1 ELSE @]
      w4 == FoldV(c, w3, 1, pick)
  IN [w4 EXCEPT !.ppv = <<>>, !.depth = @ - 1]
FoldV(c, w, i, pick) == IF i > Len(w.ppv) THEN w ELSE FoldV(c, HValue(c, w, w.ppv[i].from, w.ppv[i].x, pick), i + 1, pick)

\* _handle_value_message
HValue(c, w, s, x, pick) ==
  LET w1 == [w EXCEPT !.nv[s] = x] IN
  IF \E n \in Nb(c) : w1.nv[n] = 0 THEN w1
  ELSE LET a == AsgOf(c, w1)
           cur == LocalCost(I, c, a)
           best == BestLocal(I, c, a)
           g == IF I.mode = "min" THEN cur - best ELSE best - cur
           w2 == [w1 EXCEPT !.gain = g, !.newv = IF g > 0 THEN pick ELSE w1.val,
                            !.used = @ \/ g > 0, !.ok = @ /\ (g > 0 => pick \in ArgBestLocal(I, c, a))]
       IN WaitGains(c, Send(c, w2, [t |-> "g", x |-> g]), pick)

\* _wait_for_gains: state 'gain', flush of the postponed gains
WaitGains(c, w, pick) == [FoldG(c, [w EXCEPT !.st = "gain"], 1, pick) EXCEPT !.ppg = <<>>]
FoldG(c, w, i, pick) == IF i > Len(w.ppg) THEN w ELSE FoldG(c, HGain(c, w, w.ppg[i].from, w.ppg[i].x, pick), i + 1, pick)

\* _handle_gain_message: move with the strictly best gain, or on a tie when first in name order (_break_ties)
HGain(c, w, s, g, pick) ==
  LET w1 == [w EXCEPT !.ng[s] = g, !.ngs = @ \cup {s}] IN
  IF w1.ngs # Nb(c) THEN w1
  ELSE LET mx == Max({w1.ng[n] : n \in Nb(c)})
           tied == {n \in Nb(c) : w1.ng[n] = mx} \cup {c}
           first == CHOOSE n \in tied : \A m \in tied : RankOf(I, n) <= RankOf(I, m)
           move == w1.gain > mx \/ (w1.gain = mx /\ first = c)
           w2 == [w1 EXCEPT !.val = IF move THEN w1.newv ELSE @, !.ngs = {},
                            !.ng = [n \in Nb(c) |-> 0], !.nv = [n \in Nb(c) |-> 0]]
       IN WaitValues(c, w2, pick)

\* on_message: a message is handled in its own state and postponed otherwise
OnMsg(c, w, s, m, pick) ==
  IF m.t = "v" THEN IF w.st = "values" THEN HValue(c, w, s, m.x, pick) ELSE [w EXCEPT !.ppv = Append(@, [from |-> s, x |-> m.x])]
  ELSE IF w.st = "gain" THEN HGain(c, w, s, m.x, pick) ELSE [w EXCEPT !.ppg = Append(@, [from |-> s, x |-> m.x])]

\* the draw is an argument of the step exactly when the handler draws
PickOk(w, pick) == w.ok /\ (w.used \/ pick = 0)
RECURSIVE PushAll(_, _, _, _)
PushAll(ch, c, out, i) == IF i > Len(out) THEN ch
                          ELSE PushAll([ch EXCEPT ![<<c, out[i][1]>>] = Append(@, out[i][2])], c, out, i + 1)
Commit(c, w, ch) ==
  /\ loc' = [loc EXCEPT ![c] = Strip(w)]
  /\ chan' = PushAll(ch, c, w.out, 1)
  /\ hist' = [hist EXCEPT ![c] = @ \o w.hs]
  /\ nestmax' = IF w.nest > nestmax THEN w.nest ELSE nestmax

Start(c, pick) ==
  /\ c \notin started
  /\ started' = started \cup {c}
  /\ reinj' = [reinj EXCEPT ![c] = pre[c]] /\ pre' = [pre EXCEPT ![c] = <<>>]
  /\ IF Nb(c) = {}
     THEN /\ pick \in AloneBest(c)
          /\ Commit(c, [Lift(loc[c]) EXCEPT !.val = pick, !.fin = TRUE], chan)
     ELSE /\ IF I.init[c] > 0 THEN pick = 0 ELSE pick \in 1..I.dsize[c]
          /\ Commit(c, WaitValues(c, [Lift(loc[c]) EXCEPT !.val = IF I.init[c] > 0 THEN I.init[c] ELSE pick], 0), chan)
  /\ act' = [n |-> "start", c |-> c, pick |-> pick]

Deliver(a, c, pick) ==
  /\ <<a, c>> \in Pairs /\ chan[<<a, c>>] # <<>> /\ reinj[c] = <<>>
  /\ LET m == Head(chan[<<a, c>>])
         popped == [chan EXCEPT ![<<a, c>>] = Tail(@)] IN
     IF c \notin started
     THEN /\ pick = 0
          /\ pre' = [pre EXCEPT ![c] = Append(@, [from |-> a, m |-> m])]
          /\ chan' = popped
          /\ UNCHANGED <<started, loc, reinj, hist, nestmax>>
     ELSE LET w == OnMsg(c, Lift(loc[c]), a, m, pick) IN
          /\ PickOk(w, pick)
          /\ Commit(c, w, popped)
          /\ UNCHANGED <<started, pre, reinj>>
  /\ act' = [n |-> "deliver", src |-> a, c |-> c, pick |-> pick]

Reinject(c, pick) ==
  /\ reinj[c] # <<>>
  /\ LET e == Head(reinj[c])
         w == OnMsg(c, Lift(loc[c]), e.from, e.m, pick) IN
     /\ PickOk(w, pick)
     /\ Commit(c, w, chan)
     /\ reinj' = [reinj EXCEPT ![c] = Tail(@)]
     /\ act' = [n |-> "reinj", src |-> e.from, c |-> c, pick |-> pick]
  /\ UNCHANGED <<started, pre>>

Quiet == started = V /\ (\A p \in Pairs : chan[p] = <<>>) /\ (\A c \in V : reinj[c] = <<>>)
\* the run is over: nothing left to do (stuttering, so that TLC's deadlock check means "stuck before the end")
Done == Quiet /\ (\A c \in V : loc[c].fin) /\ UNCHANGED vars

Picks(c) == 0..I.dsize[c]
Step == (\E c \in V : \E k \in Picks(c) : Start(c, k))
        \/ (\E p \in Pairs : \E k \in Picks(p[2]) : Deliver(p[1], p[2], k))
        \/ (\E c \in V : \E k \in Picks(c) : Reinject(c, k))
Next == (Step /\ UNCHANGED t) \/ Done
Spec == Init /\ [][Next]_vars

\* ---- properties ---------------------------------------------------------------
\* the assignment at the k-th cycle boundary: what every computation held when it began its k-th cycle (CycleHist.tla)
Idle == [v \in V |-> IF v \in started THEN loc[v].val ELSE CHOOSE d \in AloneBest(v) : TRUE]
NoPair(k) == {}
\* C03: the global cost never gets worse from one boundary to the next; neighbours never move together
CostMonotone == HCostMonotone(I, hist, Idle)
MoveAlone == HMoveAlone(I, hist, Idle, NoPair)
\* C04: a cycle without any move ends on a 1-opt assignment
StagnationIsOneOpt == HStagnationIsOneOpt(I, hist, Idle)
\* C07: finished exactly at stop_cycle (at once without neighbour); quiescence only when everybody has finished (with Done: no deadlock)
FinishedAtStop == \A c \in V : loc[c].fin => (IF c \in Active THEN loc[c].cyc = StopCycle ELSE loc[c].cyc = 0)
QuietMeansFinished == Quiet => \A c \in V : loc[c].fin
\* C10: a started computation always holds a value of its domain
ValueInDomain == \A c \in V : loc[c].val \in 0..I.dsize[c] /\ (c \in started => loc[c].val >= 1)
\* structure the implementation relies on
NoNestedFlush == nestmax <= 1
AtMostOnePostponed == \A c \in V : \A n \in Nb(c) :
                         /\ Cardinality({i \in 1..Len(loc[c].ppv) : loc[c].ppv[i].from = n}) <= 1
                         /\ Cardinality({i \in 1..Len(loc[c].ppg) : loc[c].ppg[i].from = n}) <= 1
NeighbourSkew == \A p \in Pairs : (p[1] \in started /\ p[2] \in started) => loc[p[1]].cyc - loc[p[2]].cyc \in {-1, 0, 1}

\* ---- binding ---------------------------------------------------------------------
MsgSeq(s) == [i \in 1..Len(s) |-> [t |-> s[i].t, x |-> s[i].x]]
Proj == [t |-> t, started |-> started, loc |-> loc,
         chan |-> [p \in Pairs |-> MsgSeq(chan[p])],
         pre |-> [c \in V |-> [i \in 1..Len(pre[c]) |-> [from |-> pre[c][i].from, t |-> pre[c][i].m.t, x |-> pre[c][i].m.x]]],
         reinj |-> [c \in V |-> [i \in 1..Len(reinj[c]) |-> [from |-> reinj[c][i].from, t |-> reinj[c][i].m.t, x |-> reinj[c][i].m.x]]]]
View == <<t, impl, hist, nestmax>>
\* the closing stuttering step (Done) is not a step of the code
Edge == (Proj' = Proj /\ act' = act) \/ PrintT(<<"EDGE", ToJson(Proj), ToJson(act'), ToJson(Proj')>>)
====
