---- MODULE SyncBB ----
(***************************************************************************)
(* SyncBBComputation (pydcop/algorithms/syncbb.py) on the asynchronous     *)
(* network of the behavioural modules, over the chain of the ordered graph *)
(* (variables in lexical order = I.vars).  One action = one handler        *)
(* invocation: start(), or on_message for one forward / backward /         *)
(* terminate message.  Implementation variables per computation (loc[c]):  *)
(* run, ub (upper_bound; the float infinity of the code is the sentinel    *)
(* INF, far above every reachable sum), val (current_value as a domain     *)
(* index, 0 = none), cyc (cycle_count: new_cycle() is called once per      *)
(* handler that does something), fin.                                      *)
(* A path is a sequence of [var, val, cost] (the CPA of the code).         *)
(* get_next_assignment is transcribed as the code runs it: candidates in   *)
(* domain order after the current value; under min a candidate is dropped  *)
(* as soon as its running cost, or the cost it adds against one path       *)
(* element plus that element's cost, reaches the bound (sound for          *)
(* non-negative costs only: the known finding of C02); under max the first *)
(* candidate is always taken (plain enumeration).  The bound carried by a  *)
(* forward message is never read; only a backward message's bound is.      *)
(* Nothing is drawn at random.                                             *)
(***************************************************************************)
EXTENDS Dcop, TLC, Json, IOUtils

Insts == ndJsonDeserialize(IOEnv.INST)
VARIABLE t
I == Insts[t]
V == VarSet(I)
N == Len(I.vars)
INF == IF I.mode = "min" THEN 1000000 ELSE -1000000
Rank(c) == RankOf(I, c)
Prev(c) == IF Rank(c) = 1 THEN "" ELSE I.vars[Rank(c) - 1]
Nxt(c) == IF Rank(c) = N THEN "" ELSE I.vars[Rank(c) + 1]
Links == {<<a, b>> \in V \X V : Prev(a) = b \/ Nxt(a) = b}

VARIABLES started, loc, chan, pre, reinj, act
impl == <<started, loc, chan, pre, reinj>>
vars == <<t, impl, act>>

\* ---- get_next_assignment ----------------------------------------------------------
\* the constraints of c (node.constraints) that also involve x, evaluated on {x: xv, c: d}
AssCost(c, d, x, xv) ==
  SumOver({i \in ConsOn(I, c) : x \in ScopeOf(I.cons[i])},
          LAMBDA i : EvalCon(I, I.cons[i], [v \in {c, x} |-> IF v = c THEN d ELSE xv]))
\* the loop over the path for one candidate d: <<kept, running cost>>
RECURSIVE Scan(_, _, _, _, _, _)
Scan(c, d, path, ub, k, acc) ==
  IF k > Len(path) THEN <<TRUE, acc>>
  ELSE LET ac == AssCost(c, d, path[k].var, path[k].val)
           acc2 == acc + ac IN
       IF I.mode = "min" /\ (acc2 >= ub \/ ac + path[k].cost >= ub) THEN <<FALSE, 0>>
       ELSE Scan(c, d, path, ub, k + 1, acc2)
\* first candidate after cur that is kept: <<value, cost>>, <<0, 0>> when there is none
RECURSIVE NextAsg(_, _, _, _)
NextAsg(c, cur, path, ub) ==
  IF cur >= I.dsize[c] THEN <<0, 0>>
  ELSE IF path = <<>> THEN <<cur + 1, 0>>
  ELSE LET r == Scan(c, cur + 1, path, ub, 1, 0) IN
       IF r[1] THEN <<cur + 1, r[2]>> ELSE NextAsg(c, cur + 1, path, ub)

PathSum(path) == SumOver(1..Len(path), LAMBDA k : path[k].cost)
BetterB(x, y) == IF I.mode = "min" THEN x < y ELSE x > y
\* the last variable tries every remaining value against the SAME bound and keeps the first strictly best: <<value, bound>>
RECURSIVE BestLast(_, _, _, _, _, _)
BestLast(c, path, ub, nv, bval, bbound) ==
  IF nv[1] = 0 THEN <<bval, bbound>>
  ELSE LET tot == PathSum(path) + nv[2]
           take == BetterB(tot, bbound) IN
       BestLast(c, path, ub, NextAsg(c, nv[1], path, ub), IF take THEN nv[1] ELSE bval, IF take THEN tot ELSE bbound)

Loc0(c) == [run |-> "idle", ub |-> INF, val |-> 0, cyc |-> 0, fin |-> FALSE]
Init == /\ t \in 1..Len(Insts)
        /\ started = {} /\ loc = [c \in V |-> Loc0(c)]
        /\ chan = [p \in Links |-> <<>>]
        /\ pre = [c \in V |-> <<>>] /\ reinj = [c \in V |-> <<>>]
        /\ act = [n |-> "init"]

Push(ch, from, to, m) == [ch EXCEPT ![<<from, to>>] = Append(@, m)]
Fwd(path, ub) == [t |-> "forward", path |-> path, ub |-> ub]
Bwd(path, ub) == [t |-> "backward", path |-> path, ub |-> ub]
Term == [t |-> "terminate", path |-> <<>>, ub |-> 0]
Elt(c, d, k) == [var |-> c, val |-> d, cost |-> k]
Cyc(l) == [l EXCEPT !.cyc = @ + 1]

\* on_start
Start(c) ==
  /\ c \notin started
  /\ started' = started \cup {c}
  /\ reinj' = [reinj EXCEPT ![c] = pre[c]] /\ pre' = [pre EXCEPT ![c] = <<>>]
  /\ LET l == [loc[c] EXCEPT !.run = "running"] IN
     IF Prev(c) = "" /\ Nxt(c) = ""
     THEN /\ loc' = [loc EXCEPT ![c] = Cyc([l EXCEPT !.val = 1, !.fin = TRUE])] /\ chan' = chan
     ELSE IF Prev(c) = ""
     THEN /\ loc' = [loc EXCEPT ![c] = Cyc(l)]
          /\ chan' = Push(chan, c, Nxt(c), Fwd(<<Elt(c, 1, 0)>>, INF))
     ELSE /\ loc' = [loc EXCEPT ![c] = l] /\ chan' = chan
  /\ act' = [n |-> "start", c |-> c]

OnForward(c, l, m, ch) ==
  LET nv == NextAsg(c, 0, m.path, l.ub) IN
  IF nv[1] = 0
  THEN IF Prev(c) = ""
       THEN /\ loc' = [loc EXCEPT ![c] = Cyc([l EXCEPT !.fin = TRUE])] /\ chan' = Push(ch, c, Nxt(c), Term)
       ELSE /\ loc' = [loc EXCEPT ![c] = Cyc(l)] /\ chan' = Push(ch, c, Prev(c), Bwd(m.path, l.ub))
  ELSE IF Nxt(c) = ""
       THEN LET b == BestLast(c, m.path, l.ub, nv, 0, l.ub)
                l1 == IF b[1] # 0 THEN [l EXCEPT !.ub = b[2], !.val = b[1]] ELSE l IN
            /\ loc' = [loc EXCEPT ![c] = Cyc(l1)] /\ chan' = Push(ch, c, Prev(c), Bwd(m.path, l1.ub))
       ELSE /\ loc' = [loc EXCEPT ![c] = Cyc(l)]
            /\ chan' = Push(ch, c, Nxt(c), Fwd(Append(m.path, Elt(c, nv[1], nv[2])), l.ub))

OnBackward(c, l, m, ch) ==
  LET last == m.path[Len(m.path)]
      l1 == IF BetterB(m.ub, l.ub) THEN [l EXCEPT !.ub = m.ub, !.val = last.val] ELSE l
      nv == NextAsg(c, last.val, Front(m.path), l1.ub) IN
  IF nv[1] # 0
  THEN /\ loc' = [loc EXCEPT ![c] = Cyc(l1)]
       /\ chan' = Push(ch, c, Nxt(c), Fwd(Append(Front(m.path), Elt(c, nv[1], nv[2])), l1.ub))
  ELSE IF Prev(c) = ""
       THEN /\ loc' = [loc EXCEPT ![c] = Cyc([l1 EXCEPT !.fin = TRUE])] /\ chan' = Push(ch, c, Nxt(c), Term)
       ELSE /\ loc' = [loc EXCEPT ![c] = Cyc(l1)] /\ chan' = Push(ch, c, Prev(c), Bwd(Front(m.path), l1.ub))

OnTerminate(c, l, ch) ==
  /\ loc' = [loc EXCEPT ![c] = Cyc([l EXCEPT !.fin = TRUE])]
  /\ chan' = IF Nxt(c) # "" THEN Push(ch, c, Nxt(c), Term) ELSE ch

Handle(c, from, m, ch) ==
  IF loc[c].run # "running"
  THEN /\ pre' = [pre EXCEPT ![c] = Append(@, [from |-> from, m |-> m])]
       /\ chan' = ch /\ loc' = loc
  ELSE /\ pre' = pre
       /\ IF m.t = "forward" THEN OnForward(c, loc[c], m, ch)
          ELSE IF m.t = "backward" THEN OnBackward(c, loc[c], m, ch)
          ELSE OnTerminate(c, loc[c], ch)

Deliver(a, c) ==
  /\ <<a, c>> \in Links /\ chan[<<a, c>>] # <<>> /\ reinj[c] = <<>>
  /\ Handle(c, a, Head(chan[<<a, c>>]), [chan EXCEPT ![<<a, c>>] = Tail(@)])
  /\ UNCHANGED <<started, reinj>>
  /\ act' = [n |-> "deliver", src |-> a, c |-> c]
Reinject(c) ==
  /\ reinj[c] # <<>>
  /\ Handle(c, Head(reinj[c]).from, Head(reinj[c]).m, chan)
  /\ reinj' = [reinj EXCEPT ![c] = Tail(@)]
  /\ UNCHANGED started
  /\ act' = [n |-> "reinj", src |-> Head(reinj[c]).from, c |-> c]

Quiet == started = V /\ (\A p \in Links : chan[p] = <<>>) /\ (\A c \in V : reinj[c] = <<>>)
AllFinished == \A c \in V : loc[c].fin
Done == Quiet /\ AllFinished /\ UNCHANGED vars
Step == (\E c \in V : Start(c)) \/ (\E p \in Links : Deliver(p[1], p[2])) \/ (\E c \in V : Reinject(c))
Next == (Step /\ UNCHANGED t) \/ Done
Spec == Init /\ [][Next]_vars
\* liveness: under weak fairness of the steps of the code (a started handler runs, a queued message is eventually delivered, every
\* agent / computation is eventually started) the run ends - checked WITHOUT any state constraint
FairSpec == Spec /\ WF_vars(Step /\ UNCHANGED t)
Terminates == <>[](Quiet /\ AllFinished)

\* ---- properties (C02) ------------------------------------------------------------
Held == [v \in V |-> loc[v].val]
\* the terminate message reaches everybody: quiescence only when everybody has finished (with Done: no deadlock before the end)
QuietMeansFinished == Quiet => AllFinished
\* at termination the held values are a complete optimal assignment
TerminatedMeansOptimal == (Quiet /\ AllFinished) => (Complete(I, Held) /\ Cost(I, Held) = Opt(I))
\* with more than one variable, the first computation finishes first and the others only on the terminate message
FirstFinishesFirst == \A c \in V : (loc[c].fin /\ N > 1) => loc[I.vars[1]].fin
\* a single token: at most one message in flight (buffered ones included) once the first computation has started, none before
Tokens == SumOver(Links, LAMBDA p : Len(chan[p])) + SumOver(V, LAMBDA c : Len(pre[c]) + Len(reinj[c]))
SingleToken == Tokens <= 1
\* a held value is a domain value
ValueInDomain == \A c \in V : loc[c].val \in 0..I.dsize[c]
\* a bound that is not the initial one is the cost of a complete assignment (the bound is never invented)
BoundIsACost == \A c \in V : loc[c].ub # INF => \E a \in AllAssignments(I) : ConCost(I, a) = loc[c].ub
\* a path in flight names the variables before its receiver (forward) / up to its receiver (backward), in chain order
PathShape(m, to) == m.t = "terminate" \/
   /\ Len(m.path) = (IF m.t = "forward" THEN Rank(to) - 1 ELSE Rank(to))
   /\ \A k \in 1..Len(m.path) : m.path[k].var = I.vars[k] /\ m.path[k].val \in 1..I.dsize[I.vars[k]]
PathsWellFormed == \A p \in Links : \A i \in 1..Len(chan[p]) : PathShape(chan[p][i], p[2])

\* ---- binding -------------------------------------------------------------------------
MsgProj(m) == [t |-> m.t, path |-> [k \in 1..Len(m.path) |-> <<m.path[k].var, m.path[k].val, m.path[k].cost>>], ub |-> m.ub]
FromSeq(s) == [i \in 1..Len(s) |-> [from |-> s[i].from, m |-> MsgProj(s[i].m)]]
Proj == [t |-> t, started |-> started, loc |-> loc,
         chan |-> [p \in Links |-> [i \in 1..Len(chan[p]) |-> MsgProj(chan[p][i])]],
         pre |-> [c \in V |-> FromSeq(pre[c])], reinj |-> [c \in V |-> FromSeq(reinj[c])]]
View == <<t, impl>>
Edge == (Proj' = Proj /\ act' = act) \/ PrintT(<<"EDGE", ToJson(Proj), ToJson(act'), ToJson(Proj')>>)
====
