---- MODULE Orders ----
(***************************************************************************)
(* Order properties of histories (sequences of identifiers), shared by the *)
(* runtime specifications (Lifecycle, Messaging) and their trace judges.   *)
(***************************************************************************)
EXTENDS Integers, Sequences, FiniteSets

InSeq(s, x) == \E i \in 1..Len(s) : s[i] = x
NoDup(s) == \A i, j \in 1..Len(s) : i # j => s[i] # s[j]
Pos(s, x) == CHOOSE i \in 1..Len(s) : s[i] = x
\* s lists elements of `order` without repetition and in the order of `order`
FollowsOrder(s, order) == /\ NoDup(s)
                          /\ \A i \in 1..Len(s) : InSeq(order, s[i])
                          /\ \A i, j \in 1..Len(s) : i < j => Pos(order, s[i]) < Pos(order, s[j])
SameElements(s, t) == {s[i] : i \in 1..Len(s)} = {t[i] : i \in 1..Len(t)}
====
