---- MODULE Wire ----
(***************************************************************************)
(* Fidelity of pyDCOP's external representations (YAML files, the JSON     *)
(* wire format, pickling): what "the same object after a round trip"       *)
(* means.  A DCOP is observed as                                           *)
(*   vars, doms[v] (sequence of value tokens: type + text), init[v]        *)
(*   (index or 0), tabs[i] (value of constraint i on every assignment, in  *)
(*   row-major order of its original scope), objective,                    *)
(* an agent set as cap[a], route[a][b], host[a][c], defhost[a] (hosting    *)
(* cost of a computation without specific cost), defroute[a] (route to an  *)
(* agent without specific route).                                          *)
(***************************************************************************)
EXTENDS Integers, Sequences, FiniteSets, TLC

SameDcop(o, l) ==
  (IF l.vars # o.vars THEN {"variables_differ"} ELSE
     (IF \E v \in DOMAIN o.doms : o.doms[v] # l.doms[v] THEN {"domain_values_differ"} ELSE {})
     \cup (IF \E v \in DOMAIN o.init : o.init[v] # l.init[v] THEN {"initial_value_differs"} ELSE {}))
  \cup (IF l.consnames # o.consnames THEN {"constraints_differ"} ELSE
        IF \E i \in 1..Len(o.tabs) : o.tabs[i] # l.tabs[i] THEN {"constraint_value_differs"} ELSE {})
  \cup (IF l.objective # o.objective THEN {"objective_differs"} ELSE {})
SameAgents(o, l) ==
  (IF DOMAIN l.cap # DOMAIN o.cap THEN {"agents_differ"} ELSE
     (IF \E a \in DOMAIN o.cap : o.cap[a] # l.cap[a] THEN {"capacity_differs"} ELSE {})
     \cup (IF \E a \in DOMAIN o.cap : o.route[a] # l.route[a] \/ o.defroute[a] # l.defroute[a] THEN {"route_cost_differs"} ELSE {})
     \cup (IF \E a \in DOMAIN o.cap : o.host[a] # l.host[a] \/ o.defhost[a] # l.defhost[a] THEN {"hosting_cost_differs"} ELSE {}))
====
