---- MODULE Params ----
(***************************************************************************)
(* pydcop/algorithms/__init__.py: prepare_algo_params / check_param_value  *)
(* (and commands/_utils.build_algo_def on top of it).                      *)
(* A value is a record [k |-> "int" | "float" | "str" | "none", h, s, p]:  *)
(*   numeric values are counted in halves (h = 2 * value) so that 0.5, 2.5 *)
(*   are representable; a string carries its text s and how Python parses  *)
(*   it: p = "int" (int(s) and float(s) succeed, value h), "float" (only   *)
(*   float(s) succeeds), "none".                                           *)
(* A definition is [name, type, values : Seq(value) (<<>> = any), default].*)
(***************************************************************************)
EXTENDS Integers, Sequences, FiniteSets, TLC

IntV(n) == [k |-> "int", h |-> 2 * n, s |-> "", p |-> ""]
FloatH(h) == [k |-> "float", h |-> h, s |-> "", p |-> ""]
StrV(s, p, h) == [k |-> "str", h |-> h, s |-> s, p |-> p]
NoneV == [k |-> "none", h |-> 0, s |-> "", p |-> ""]
Err == [k |-> "error", h |-> 0, s |-> "", p |-> ""]

\* conversion of a user value to the declared type (check_param_value, first half)
Convert(v, ty) ==
  IF v.k = ty THEN v
  ELSE CASE ty = "int"   -> IF v.k = "str" /\ v.p = "int" THEN [k |-> "int", h |-> v.h, s |-> "", p |-> ""] ELSE Err
         [] ty = "float" -> IF v.k = "int" \/ (v.k = "str" /\ v.p \in {"int", "float"})
                            THEN [k |-> "float", h |-> v.h, s |-> "", p |-> ""] ELSE Err
         [] OTHER        -> Err
\* Python equality between values: 2 == 2.0, "2" != 2
SameValue(a, b) == IF a.k = "str" \/ b.k = "str" THEN a.k = b.k /\ a.s = b.s ELSE a.k # "none" /\ b.k # "none" /\ a.h = b.h
Checked(v, d) ==
  LET c == Convert(v, d.type) IN
  IF c = Err THEN Err
  ELSE IF d.values # <<>> /\ ~(\E i \in 1..Len(d.values) : SameValue(c, d.values[i])) THEN Err
  ELSE c

\* given: [1..Len(defs) -> value or NoneV-as-absent marker Absent]; unknown: an undeclared name is also passed
Absent == [k |-> "absent", h |-> 0, s |-> "", p |-> ""]
Prepare(defs, given, unknown) ==
  IF unknown \/ \E i \in 1..Len(defs) : given[i] # Absent /\ Checked(given[i], defs[i]) = Err
  THEN [err |-> TRUE, params |-> <<>>]
  ELSE [err |-> FALSE,
        params |-> [i \in 1..Len(defs) |-> [name |-> defs[i].name,
                                            value |-> IF given[i] = Absent THEN defs[i].default ELSE Checked(given[i], defs[i])]]]
====
