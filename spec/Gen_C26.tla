---- MODULE Gen_C26 ----
(***************************************************************************)
(* Case generator + oracle for C26: discovery states (hosts, replica sets, *)
(* computation graph) over NAg agents and NC computations, every set of    *)
(* departed agents, with the repair information RepairInfo.tla defines,    *)
(* and the four repair constraints evaluated on EVERY 0/1 assignment of    *)
(* their scope.                                                            *)
(***************************************************************************)
EXTENDS RepairInfo, Json, Randomization
CONSTANTS NAg, NC, NStates

Ag == {"a" \o ToString(i) : i \in 1..NAg}
Cp == {"c" \o ToString(i) : i \in 1..NC}
States == {[agents |-> Ag, comps |-> Cp, host |-> h, reps |-> r, nbr |-> n] :
             h \in RandomSubset(3, [Cp -> Ag]), r \in RandomSubset(4, [Cp -> SUBSET Ag]), n \in RandomSubset(3, [Cp -> SUBSET Cp])}
\* replicas are not kept on the host itself; the neighbourhood is made symmetric and irreflexive
Clean(S) == [S EXCEPT !.reps = [c \in Cp |-> S.reps[c] \ {S.host[c]}],
                      !.nbr = [c \in Cp |-> {d \in Cp : d # c /\ (d \in S.nbr[c] \/ c \in S.nbr[d])}]]
Fp == [c \in Cp |-> CASE c = "c1" -> 3 [] c = "c2" -> 5 [] OTHER -> 2]
Hc(a) == [c \in Cp |-> IF a = "a1" THEN 4 ELSE IF c = "c2" THEN 0 ELSE 7]
Comm == [t \in Cp \X Cp \X Ag |-> (IF t[1] = "c1" THEN 2 ELSE 1) * (IF t[3] = "a2" THEN 3 ELSE 1) + (IF t[2] = "c3" THEN 1 ELSE 0)]
Asg(scope) == [scope -> {0, 1}]
Table(scope, f(_)) == {[x |-> {p \in scope : x[p] = 1}, v |-> f(x)] : x \in Asg(scope)}

InfoCase(S, D) == [op |-> "info", S |-> S, D |-> D, orphaned |-> Orphaned(S, D), candidates |-> CandidateAgents(S, D),
                   info |-> [a \in CandidateAgents(S, D) |-> AgentInfo(S, D, a)]]
\* constraints of the repair DCOP built by candidate agent a
ConsCases(S, D, a) ==
  LET Cs == CandidateComputationsFor(S, D, a) IN
  {[op |-> "hosted", S |-> S, D |-> D, a |-> a, c |-> c, scope |-> {<<c, b>> : b \in Info(S, D, c).agts},
    tab |-> Table({<<c, b>> : b \in Info(S, D, c).agts}, LAMBDA x : Hosted(c, Info(S, D, c).agts, x))] : c \in Cs}
  \cup {[op |-> "capacity", S |-> S, D |-> D, a |-> a, c |-> "", remaining |-> rem, scope |-> {<<c, a>> : c \in Cs},
         tab |-> Table({<<c, a>> : c \in Cs}, LAMBDA x : Capacity(a, Cs, rem, Fp, x))] : rem \in {0, 4, 7, 100}}
  \cup {[op |-> "hosting", S |-> S, D |-> D, a |-> a, c |-> "", scope |-> {<<c, a>> : c \in Cs},
         tab |-> Table({<<c, a>> : c \in Cs}, LAMBDA x : HostingCost(a, Cs, Hc(a), x))]}
  \cup {[op |-> "comm", S |-> S, D |-> D, a |-> a, c |-> c, scope |-> CommScope(a, c, Info(S, D, c)),
         tab |-> Table(CommScope(a, c, Info(S, D, c)), LAMBDA x : CommCost(a, c, Info(S, D, c), Comm, x))] : c \in Cs}

VARIABLE case
Init == \E S0 \in States : \E D \in (SUBSET Ag) \ {{}, Ag} :
          LET S == Clean(S0) IN
          case \in {InfoCase(S, D)} \cup UNION {ConsCases(S, D, a) : a \in CandidateAgents(S, D)}
Next == UNCHANGED case
Emit == PrintT(<<"CASE", ToJson(case)>>)
====
