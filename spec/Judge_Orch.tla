---- MODULE Judge_Orch ----
(***************************************************************************)
(* Trace validation of orchestrated runs against Orchestration.tla (its    *)
(* guards and effects: OrchestrationGuards.tla).  A record is one real run: *)
(* agents, dagents, comps, host (the initial distribution)                 *)
(* and ev, the sequence of observed protocol events (recorded around the   *)
(* real AgentsMgt / OrchestratedAgent methods, in the order they happened).*)
(* The run is accepted when every event is enabled in the state reached by *)
(* the events before it (i.e. the run is a behaviour of Orchestration!Spec *)
(* for its configuration); the verdict names the first refused event and,  *)
(* for a run that is over, what is missing at the end.                     *)
(***************************************************************************)
EXTENDS OrchestrationGuards, Json, IOUtils
H == ndJsonDeserialize(IOEnv.TRACE_FILE)
ToSet(q) == {q[i] : i \in 1..Len(q)}
Conf(h) == [agents |-> ToSet(h.agents), dagents |-> ToSet(h.dagents), comps |-> ToSet(h.comps), host |-> h.host]
RECURSIVE Walk(_, _, _, _)
\* -> <<index of the first refused event (0 = none), final state>>
Walk(G, S, ev, i) == IF i > Len(ev) THEN <<0, S>>
                     ELSE IF ~Guard(G, S, ev[i]) THEN <<i, S>>
                     ELSE Walk(G, Apply(S, ev[i]), ev, i + 1)
BadOf(h) ==
  LET G == Conf(h)
      w == Walk(G, S0, h.ev, 1)
      S == w[2]
  IN (IF w[1] # 0 THEN {"event_not_enabled_" \o h.ev[w[1]].e} ELSE {})
     \cup (IF w[1] = 0 /\ h.over /\ ~S.ended THEN {"run_over_without_end"} ELSE {})
     \cup (IF w[1] = 0 /\ S.ended /\ ~S.timeout /\ ~(G.comps \subseteq S.finished) THEN {"ended_before_all_finished"} ELSE {})
AtOf(h) == Walk(Conf(h), S0, h.ev, 1)[1]
VARIABLE k
Init == k \in 1..Len(H)
Next == UNCHANGED k
Emit == PrintT(<<"VERDICT", ToJson([id |-> H[k].id, bad |-> BadOf(H[k]), at |-> AtOf(H[k])])>>)
====
