---- MODULE Judge_Hist ----
(***************************************************************************)
(* Judge of states reached by the REAL cycle-based computations (MGM, ...) *)
(* when their reachable graph is explored by the harness (re-execution,    *)
(* the model's projection as state identity).  A record is one reached     *)
(* state: inst, stop (stop_cycle), hist (CycleHist.tla), idle, and per     *)
(* computation val / cyc / fin, quiet (all started, nothing in flight),    *)
(* exc (a handler raised), pairs (MGM2: accepted coordinated pairs per     *)
(* cycle, as <<k, x, y>>).  The clauses are the invariants TLC checks on   *)
(* the behavioural model, evaluated with the same operators.               *)
(***************************************************************************)
EXTENDS CycleHist, TLC, Json, IOUtils
H == ndJsonDeserialize(IOEnv.TRACE_FILE)
BadOf(r) ==
  LET I == r.inst
      allowed(k) == {{r.pairs[i][2], r.pairs[i][3]} : i \in {j \in 1..Len(r.pairs) : r.pairs[j][1] = k}}
  IN
  (IF ~HCostMonotone(I, r.hist, r.idle) THEN {"C03_cost_got_worse"} ELSE {})
  \cup (IF ~HMoveAlone(I, r.hist, r.idle, allowed) THEN {"C03_neighbours_moved_together"} ELSE {})
  \cup (IF r.allstarted /\ ~HStagnationIsOneOpt(I, r.hist, r.idle) THEN {"C04_stagnation_not_one_opt"} ELSE {})
  \cup (IF \E c \in VarSet(I) : r.fin[c] /\ r.cyc[c] # (IF c \in HActive(I) THEN r.stop ELSE 0)
        THEN {"C07_finished_at_wrong_cycle"} ELSE {})
  \cup (IF r.quiet /\ r.stop > 0 /\ (\E c \in VarSet(I) : ~r.fin[c]) THEN {"quiet_but_not_all_finished"} ELSE {})
  \cup (IF r.exc # "" THEN {"EXC"} ELSE {})
  \cup (IF r.bestresp /\ ~HMovesBestResponse(I, r.hist) THEN {"C06_dsa_move_not_best_response"} ELSE {})
  \cup (IF \E c \in VarSet(I) : r.val[c] \notin 0..I.dsize[c] THEN {"C10_current_value_not_in_domain"} ELSE {})
VARIABLE k
Init == k \in 1..Len(H)
Next == UNCHANGED k
Emit == PrintT(<<"VERDICT", ToJson([id |-> H[k].id, bad |-> BadOf(H[k]),
                                    wit |-> [moves |-> HMoves(H[k].inst, H[k].hist, H[k].idle),
                                             stagnations |-> HStagnations(H[k].inst, H[k].hist, H[k].idle)]])>>)
====
