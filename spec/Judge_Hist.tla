---- MODULE Judge_Hist ----
(***************************************************************************)
(* Judge of states reached by the REAL cycle-based computations (MGM, ...) *)
(* when their reachable graph is explored by the harness (re-execution,    *)
(* the model's projection as state identity).  A record is one reached     *)
(* state: inst, stop (stop_cycle), hist (CycleHist.tla), idle, and per     *)
(* computation val / cyc / fin, quiet (all started, nothing in flight),    *)
(* exc (a handler raised), pairs (MGM2: accepted coordinated pairs per     *)
(* cycle, as <<k, x, y>>).  The clauses are the invariants TLC checks on   *)
(* the behavioural model, evaluated with the same operators.               *)
(***************************************************************************)
EXTENDS CycleHist, TLC, Json, IOUtils
H == ndJsonDeserialize(IOEnv.TRACE_FILE)
\* a history holding something that is not a domain value cannot be costed: only the domain clause is reported then
HistOK(r) == \A v \in DOMAIN r.hist : \A i \in 1..Len(r.hist[v]) : r.hist[v][i] \in 1..r.inst.dsize[v]
BadOf0(r) ==
  LET I == r.inst
      allowed(k) == {{r.pairs[i][2], r.pairs[i][3]} : i \in {j \in 1..Len(r.pairs) : r.pairs[j][1] = k}}
      pairK == {r.pairs[i][1] : i \in 1..Len(r.pairs)}       \* the cycles in which a coordinated offer was accepted (MGM2)
  IN
  (IF HCostBadSteps(I, r.hist, r.idle) \ pairK # {} THEN {"C03_cost_got_worse"} ELSE {})
  \cup (IF HCostBadSteps(I, r.hist, r.idle) \cap pairK # {} THEN {"C03_cost_got_worse@pair"} ELSE {})
  \cup (IF ~HMoveAlone(I, r.hist, r.idle, allowed) THEN {"C03_neighbours_moved_together"} ELSE {})
  \cup (IF r.allstarted /\ HStagnationBadSteps(I, r.hist, r.idle) \ pairK # {} THEN {"C04_stagnation_not_one_opt"} ELSE {})
  \cup (IF r.allstarted /\ HStagnationBadSteps(I, r.hist, r.idle) \cap pairK # {} THEN {"C04_stagnation_not_one_opt@pair"} ELSE {})
  \cup (IF \E c \in VarSet(I) : r.fin[c] /\ r.cyc[c] # (IF c \in HActive(I) THEN r.stop ELSE 0)
        THEN {"C07_finished_at_wrong_cycle"} ELSE {})
  \cup (IF r.quiet /\ r.stop > 0 /\ (\E c \in VarSet(I) : ~r.fin[c]) THEN {"quiet_but_not_all_finished"} ELSE {})
  \cup (IF r.exc # "" THEN {"EXC"} ELSE {})
  \cup (IF r.bestresp /\ ~HMovesBestResponse(I, r.hist) THEN {"C06_dsa_move_not_best_response"} ELSE {})
  \cup (IF \E c \in VarSet(I) : r.val[c] \notin 0..I.dsize[c] THEN {"C10_current_value_not_in_domain"} ELSE {})
BadOf(r) == IF HistOK(r) /\ (\A v \in DOMAIN r.idle : r.idle[v] \in 1..r.inst.dsize[v]) THEN BadOf0(r) ELSE {"C10_current_value_not_in_domain"}
WitOf(r) == IF HistOK(r) /\ (\A v \in DOMAIN r.idle : r.idle[v] \in 1..r.inst.dsize[v])
            THEN [moves |-> HMoves(r.inst, r.hist, r.idle), stagnations |-> HStagnations(r.inst, r.hist, r.idle)]
            ELSE [moves |-> 0, stagnations |-> 0]
VARIABLE k
Init == k \in 1..Len(H)
Next == UNCHANGED k
Emit == PrintT(<<"VERDICT", ToJson([id |-> H[k].id, bad |-> BadOf(H[k]), wit |-> WitOf(H[k])])>>)
====
