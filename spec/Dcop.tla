---- MODULE Dcop ----
(***************************************************************************)
(* The DCOP data model (pydcop/dcop) as far as the behavioural             *)
(* specifications need it.  An instance I is a record                      *)
(*   vars    : Seq(Name)                sorted; lexical order = sequence order *)
(*   dsize   : [Name -> Nat]            domain sizes; values are indices 1..dsize *)
(*   cons    : Seq([name, scope : Seq(Name), tab : Seq(Int)])  row-major tables *)
(*   varcost : [Name -> Seq(Int)]       own cost of each value (zeros if none) *)
(*   mode    : "min" | "max"                                               *)
(* 0 stands for "no value selected yet".  Costs are integers here; the     *)
(* full cost algebra (huge, infinite, fractional) is in Costs.tla.         *)
(***************************************************************************)
EXTENDS Integers, Sequences, FiniteSets, FiniteSetsExt, SequencesExt

VarSet(I) == {I.vars[i] : i \in 1..Len(I.vars)}
ScopeOf(c) == {c.scope[i] : i \in 1..Len(c.scope)}
ConIdx(I) == 1..Len(I.cons)
ConsOn(I, v) == {i \in ConIdx(I) : v \in ScopeOf(I.cons[i])}
Nbrs(I, v) == UNION {ScopeOf(I.cons[i]) : i \in ConsOn(I, v)} \ {v}
ShareCon(I, x, y) == \E i \in ConIdx(I) : {x, y} \subseteq ScopeOf(I.cons[i])
RankOf(I, v) == CHOOSE i \in 1..Len(I.vars) : I.vars[i] = v

RECURSIVE RowIx(_, _, _, _, _)
RowIx(I, scope, asg, k, acc) ==
  IF k > Len(scope) THEN acc
  ELSE RowIx(I, scope, asg, k + 1, acc * I.dsize[scope[k]] + asg[scope[k]] - 1)
EvalCon(I, c, asg) == c.tab[1 + RowIx(I, c.scope, asg, 1, 0)]

Complete(I, a) == \A v \in VarSet(I) : a[v] \in 1..I.dsize[v]
AllAssignments(I) == {a \in [VarSet(I) -> 1..Max({I.dsize[v] : v \in VarSet(I)})] :
                        \A v \in VarSet(I) : a[v] <= I.dsize[v]}

SumOver(S, f(_)) == FoldSet(LAMBDA x, acc : acc + f(x), 0, S)
ConCost(I, a) == SumOver(ConIdx(I), LAMBDA i : EvalCon(I, I.cons[i], a))
OwnCost(I, a) == SumOver(VarSet(I), LAMBDA v : I.varcost[v][a[v]])
\* global cost of a complete assignment: constraints + variables' own value costs
Cost(I, a) == ConCost(I, a) + OwnCost(I, a)

Better(I, x, y) == IF I.mode = "min" THEN x < y ELSE x > y
Opt(I) == LET S == {Cost(I, a) : a \in AllAssignments(I)} IN IF I.mode = "min" THEN Min(S) ELSE Max(S)
OptSet(I) == {a \in AllAssignments(I) : Cost(I, a) = Opt(I)}
\* no single variable can improve the global cost by changing alone
OneOpt(I, a) == \A v \in VarSet(I) : \A d \in 1..I.dsize[v] :
                   ~Better(I, Cost(I, [a EXCEPT ![v] = d]), Cost(I, a))
\* local cost of v = its constraints + its own cost, the others as in a
LocalCost(I, v, a) == SumOver(ConsOn(I, v), LAMBDA i : EvalCon(I, I.cons[i], a)) + I.varcost[v][a[v]]
BestLocal(I, v, a) == LET S == {LocalCost(I, v, [a EXCEPT ![v] = d]) : d \in 1..I.dsize[v]} IN
                      IF I.mode = "min" THEN Min(S) ELSE Max(S)
ArgBestLocal(I, v, a) == {d \in 1..I.dsize[v] : LocalCost(I, v, [a EXCEPT ![v] = d]) = BestLocal(I, v, a)}
\* hard-constraint satisfaction (DBA): no constraint at or above the infinity value
Satisfies(I, a, infty) == \A i \in ConIdx(I) : EvalCon(I, I.cons[i], a) < infty
\* ---- solution cost accounting (DCOP.solution_cost, relations.assignment_cost) ----
\* the terms of a complete assignment: one per constraint, one per variable (its own value cost, 0 for a plain variable)
HardCount(I, a, infty) == Cardinality({i \in ConIdx(I) : EvalCon(I, I.cons[i], a) = infty})
                          + Cardinality({v \in VarSet(I) : I.varcost[v][a[v]] = infty})
SoftSum(I, a, infty) == SumOver({i \in ConIdx(I) : EvalCon(I, I.cons[i], a) # infty}, LAMBDA i : EvalCon(I, I.cons[i], a))
                        + SumOver({v \in VarSet(I) : I.varcost[v][a[v]] # infty}, LAMBDA v : I.varcost[v][a[v]])
SolutionCost(I, a, infty) == <<HardCount(I, a, infty), SoftSum(I, a, infty)>>
\* cost of an assignment over a set cs of constraints; with own costs of the variables of those constraints when requested
ScopeUnion(I, cs) == UNION {ScopeOf(I.cons[i]) : i \in cs}
AssignmentCost(I, cs, a, withVars) == SumOver(cs, LAMBDA i : EvalCon(I, I.cons[i], a))
                                      + (IF withVars THEN SumOver(ScopeUnion(I, cs), LAMBDA v : I.varcost[v][a[v]]) ELSE 0)
====
