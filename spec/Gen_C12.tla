---- MODULE Gen_C12 ----
(***************************************************************************)
(* Case generator + oracle for C12: every state is one call of             *)
(* set_value_for_assignment / join / projection with the result the        *)
(* definitions of Relations.tla give.  TLC enumerates the whole case space *)
(* (Init) and prints each case once; the harness executes it on the real   *)
(* relations.                                                              *)
(***************************************************************************)
EXTENDS Relations, Json
CONSTANTS NTabs        \* number of table patterns per scope (1..12)

DS == [x |-> 2, y |-> 2, z |-> 3]
VarsAll == {"x", "y", "z"}
Scopes == {<<>>} \cup {<<v>> : v \in VarsAll}
          \cup {s \in VarsAll \X VarsAll : s[1] # s[2]}
          \cup {s \in [1..3 -> VarsAll] : Cardinality({s[1], s[2], s[3]}) = 3}

Alpha == <<CInt(0), CInt(-1), CInt(2), CHalf(5), CInt(7), CBig(1, 3)>>
IntAlpha == <<CInt(0), CInt(-1), CInt(2), CInt(3), CInt(7), CBig(1, 3)>>
\* table patterns: k in 1..12 -> a deterministic, scope-size independent mix of the alphabet
Pat(al, n, k) == LET a == IF k % 2 = 0 THEN 1 ELSE 5  b == k \div 2 IN
                 [i \in 1..n |-> al[((a * i + b) % Len(al)) + 1]]
Rel(sc, al, k) == [scope |-> sc, ds |-> DS, tab |-> Pat(al, TabSize(DS, sc), k)]

SetOf(sc, al, k) == {[op |-> "set", r |-> Rel(sc, al, k), asg |-> a, val |-> v, form |-> f,
                      exp |-> SetValue(Rel(sc, al, k), a, v)] :
                       a \in AllAsg(DS, sc), v \in {CInt(4), CHalf(3), CBig(2, 1), CBig(1, 4), CInt(0)}, f \in {"dict", "list"}}
JoinOf(s1, s2, k1, k2) == [op |-> "join", r1 |-> Rel(s1, Alpha, k1), r2 |-> Rel(s2, IntAlpha, k2),
                           exp |-> Join(Rel(s1, Alpha, k1), Rel(s2, IntAlpha, k2))]
ProjOf(sc, al, k, x, m) == [op |-> "proj", r |-> Rel(sc, al, k), x |-> x, mode |-> m,
                            exp |-> Project(Rel(sc, al, k), x, m)]

Cases == UNION {SetOf(sc, al, k) : sc \in Scopes, al \in {Alpha, IntAlpha}, k \in 1..NTabs}
         \cup {JoinOf(s1, s2, k1, k2) : s1 \in Scopes, s2 \in Scopes, k1 \in 1..NTabs, k2 \in 1..NTabs}
         \cup UNION {{ProjOf(sc, al, k, sc[i], m) : i \in 1..Len(sc)} :
                       sc \in Scopes, al \in {Alpha, IntAlpha}, k \in 1..NTabs, m \in {"min", "max"}}

VARIABLE case
Init == case \in Cases
Next == UNCHANGED case
Emit == PrintT(<<"CASE", ToJson(case)>>)
====
