---- MODULE Judge_C22 ----
(***************************************************************************)
(* Judge for C22: outcome of an orchestrated DPOP solve (REAL Orchestrator *)
(* and OrchestratedAgents, simulated agent steps or real threads) against  *)
(* the DCOP definition: the run ended because every computation reported   *)
(* its end (not by timeout, not stuck), the reported assignment covers     *)
(* every variable and is optimal (Dcop!Opt), and the reported              *)
(* (violation, cost) is Dcop!SolutionCost of that assignment.              *)
(***************************************************************************)
EXTENDS Dcop, TLC, Json, IOUtils
H == ndJsonDeserialize(IOEnv.TRACE_FILE)
BadOf(h) ==
  LET I == h.inst IN
  (IF h.status # "OK" THEN {"status_" \o h.status} ELSE {})
  \cup (IF h.stuck # "" THEN {"run_did_not_end"} ELSE {})
  \cup (IF h.finished # h.ncomp THEN {"not_all_computations_reported_their_end"} ELSE {})
  \cup (IF ~Complete(I, h.asg) THEN {"assignment_incomplete"}
        ELSE (IF Cost(I, h.asg) # Opt(I) THEN {"assignment_not_optimal"} ELSE {})
             \cup (IF h.reported # SolutionCost(I, h.asg, h.infinity) THEN {"reported_cost_differs_from_dcop_accounting"} ELSE {}))
VARIABLE k
Init == k \in 1..Len(H)
Next == UNCHANGED k
Emit == PrintT(<<"VERDICT", ToJson([id |-> H[k].id, bad |-> BadOf(H[k])])>>)
====
