---- MODULE Judge_C23 ----
(***************************************************************************)
(* Judge for C23: outcome of a distribution method on a problem P: a       *)
(* mapping (judged with Distribution!BadMapping), ImpossibleDistribution,  *)
(* a timeout, or another exception (never acceptable).                     *)
(***************************************************************************)
EXTENDS Distribution, Json, IOUtils
H == ndJsonDeserialize(IOEnv.TRACE_FILE)
ToSetOf(x) == {x[i] : i \in 1..Len(x)}
POf(h) == [comps |-> ToSetOf(h.comps), agents |-> ToSetOf(h.agents), cap |-> h.cap, fp |-> h.fp,
           must |-> [a \in DOMAIN h.must |-> ToSetOf(h.must[a])]]
MOf(h) == [a \in DOMAIN h.mapping |-> ToSetOf(h.mapping[a])]
BadOf(h) ==
  CASE h.outcome = "mapping" -> BadMapping(POf(h), MOf(h), h.capacityAware)
                                \cup (IF \E a \in DOMAIN h.mapping : Len(h.mapping[a]) # Cardinality(ToSetOf(h.mapping[a]))
                                      THEN {"computation_listed_twice_on_one_agent"} ELSE {})
    [] h.outcome \in {"impossible", "timeout"} -> {}
    [] OTHER -> {"crashed_with_" \o h.outcome}
VARIABLE k
Init == k \in 1..Len(H)
Next == UNCHANGED k
Emit == PrintT(<<"VERDICT", ToJson([id |-> H[k].id, bad |-> BadOf(H[k])])>>)
====
