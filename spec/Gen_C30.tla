---- MODULE Gen_C30 ----
(***************************************************************************)
(* Argument combinations for the generators (C30), enumerated by TLC.      *)
(***************************************************************************)
EXTENDS Integers, Sequences, FiniteSets, TLC, Json
CONSTANTS Seeds
GC == {[gen |-> "gc", graph |-> g, n |-> n, colors |-> c, soft |-> s, intentional |-> i, p |-> p, m |-> m, sub |-> sub, seed |-> sd] :
         g \in {"random", "scalefree", "grid"}, n \in {4, 5, 9}, c \in {2, 3}, s \in BOOLEAN, i \in BOOLEAN,
         p \in {5, 9}, m \in {1, 2}, sub \in BOOLEAN, sd \in Seeds}
GCValid == {a \in GC : /\ (a.graph = "grid" => a.n \in {4, 9} /\ a.p = 5 /\ a.m = 1 /\ ~a.sub)
                       /\ (a.graph = "random" => a.m = 1) /\ (a.graph = "scalefree" => a.p = 5 /\ a.m < a.n)
                       /\ ~(a.soft /\ a.intentional)}
ISING == {[gen |-> "ising", rows |-> r, cols |-> c, seed |-> sd] : r \in 2..4, c \in 2..4, sd \in Seeds}
SCEN == {[gen |-> "scenario", evts |-> e, actions |-> a, nagents |-> n, seed |-> sd] : e \in 1..3, a \in 1..2, n \in 2..6, sd \in Seeds}
SCENValid == {s \in SCEN : s.evts * s.actions <= s.nagents}
VARIABLE case
Init == case \in GCValid \cup ISING \cup SCENValid
Next == UNCHANGED case
Emit == PrintT(<<"CASE", ToJson(case)>>)
====
