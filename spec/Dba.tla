---- MODULE Dba ----
(***************************************************************************)
(* DbaComputation (pydcop/algorithms/dba.py, the distributed breakout      *)
(* algorithm) on the asynchronous network of the behavioural modules (one  *)
(* FIFO channel per ordered pair of neighbours; messages received before   *)
(* start() buffered and re-injected in front of the channels).  One action *)
(* = one handler invocation of the real computation, evaluated the way the *)
(* code runs it: _handle_ok_message / improve / _go_to_wait_improve_mode   *)
(* with the flush of the postponed improve messages, _handle_improve_      *)
(* message / _send_ok / _go_to_wait_ok_mode with the flush of the          *)
(* postponed ok messages call each other; the flush loops iterate over the *)
(* LIVE lists.                                                             *)
(* Implementation variables per computation (loc[c]): mode (_mode), val,   *)
(* cyc (cycle_count), cost (__cost__), wt (the constraint weights, by      *)
(* constraint name), viol (_violated_constraints, as names), nv            *)
(* (_neighbors_values, 0 = absent), ni (the neighbours whose improve       *)
(* message of the round arrived), tc (_termination_counter), cons          *)
(* (_consistent: "none" / "yes" / "no"), canmove, qlm, imp (_my_improve),  *)
(* newv (_new_value), ppo / ppi (the postponed lists), fin.                *)
(* Deliberately as coded: after _send_ok declared the end (mode            *)
(* 'finished'), _handle_improve_message goes on and _go_to_wait_ok_mode    *)
(* puts the computation back into mode 'ok'; an end message that arrives   *)
(* then floods the neighbours a second time.                               *)
(* The random draws (initial value, choice among the best values when the  *)
(* improvement is positive) are the action parameter `pick`.               *)
(* fbad is a history variable: set when a step makes a computation finish  *)
(* while the values held by all computations are not a complete satisfying *)
(* assignment (C09).                                                       *)
(***************************************************************************)
EXTENDS Dcop, TLC, Json, IOUtils
CONSTANTS MaxDistance, Infinity, MaxCyc

Insts == ndJsonDeserialize(IOEnv.INST)
VARIABLE t
I == Insts[t]
V == VarSet(I)
Nb(c) == Nbrs(I, c)
Pairs == {p \in V \X V : p[2] \in Nb(p[1])}
ConName(i) == I.cons[i].name
NamesOn(c) == {ConName(i) : i \in ConsOn(I, c)}
IdxOf(nm) == CHOOSE i \in ConIdx(I) : ConName(i) = nm

VARIABLES started, loc, chan, pre, reinj, fbad, act
impl == <<started, loc, chan, pre, reinj>>
vars == <<t, impl, fbad, act>>

Loc0(c) == [mode |-> "starting", val |-> 0, cyc |-> 0, cost |-> 0, wt |-> [n \in NamesOn(c) |-> 1], viol |-> {},
            nv |-> [n \in Nb(c) |-> 0], ni |-> {}, tc |-> 0, cons |-> "none", canmove |-> FALSE, qlm |-> FALSE,
            imp |-> 0, newv |-> 0, ppo |-> <<>>, ppi |-> <<>>, fin |-> FALSE]
LocFields == {"mode", "val", "cyc", "cost", "wt", "viol", "nv", "ni", "tc", "cons", "canmove", "qlm", "imp", "newv", "ppo", "ppi", "fin"}
Lift(l) == l @@ [out |-> <<>>, used |-> FALSE, ok |-> TRUE, finnow |-> FALSE]
Strip(w) == [f \in LocFields |-> w[f]]

Init == /\ t \in 1..Len(Insts)
        /\ started = {} /\ loc = [c \in V |-> Loc0(c)]
        /\ chan = [p \in Pairs |-> <<>>]
        /\ pre = [c \in V |-> <<>>] /\ reinj = [c \in V |-> <<>>]
        /\ fbad = FALSE
        /\ act = [n |-> "init"]

Send(c, w, m) == [w EXCEPT !.out = @ \o SetToSeq({<<n, m>> : n \in Nb(c)})]
OkMsg(x) == [t |-> "ok", x |-> x, ev |-> 0, tc |-> 0]
ImpMsg(imp, ev, tc) == [t |-> "imp", x |-> imp, ev |-> ev, tc |-> tc]
EndMsg == [t |-> "end", x |-> 0, ev |-> 0, tc |-> 0]

\* compute_eval_value: the violated constraints of c for value d against the neighbours' values, and their total weight
AsgOf(c, w, d) == [v \in V |-> IF v = c THEN d ELSE IF v \in Nb(c) /\ w.nv[v] > 0 THEN w.nv[v] ELSE 1]
ViolAt(c, w, d) == {nm \in NamesOn(c) : EvalCon(I, I.cons[IdxOf(nm)], AsgOf(c, w, d)) >= Infinity}
EvalAt(c, w, d) == SumOver(ViolAt(c, w, d), LAMBDA nm : w.wt[nm])

RECURSIVE WaitOk(_, _, _), WaitImprove(_, _, _), HOk(_, _, _, _, _), HImp(_, _, _, _, _), FoldO(_, _, _, _), FoldI(_, _, _, _)

\* _go_to_wait_ok_mode
WaitOk(c, w, pick) == [FoldO(c, [w EXCEPT !.mode = "ok"], 1, pick) EXCEPT !.ppo = <<>>]
FoldO(c, w, i, pick) == IF i > Len(w.ppo) THEN w ELSE FoldO(c, HOk(c, w, w.ppo[i].from, w.ppo[i].m, pick), i + 1, pick)
\* _go_to_wait_improve_mode
WaitImprove(c, w, pick) == [FoldI(c, [w EXCEPT !.mode = "improve"], 1, pick) EXCEPT !.ppi = <<>>]
FoldI(c, w, i, pick) == IF i > Len(w.ppi) THEN w ELSE FoldI(c, HImp(c, w, w.ppi[i].from, w.ppi[i].m, pick), i + 1, pick)

\* _handle_ok_message, improve, _send_improve
HOk(c, w, s, m, pick) ==
  LET w1 == [w EXCEPT !.nv[s] = m.x] IN
  IF \E n \in Nb(c) : w1.nv[n] = 0 THEN w1
  ELSE LET cur == EvalAt(c, w1, w1.val)
           evals == [d \in 1..I.dsize[c] |-> EvalAt(c, w1, d)]
           \* best_eval starts at the infinity value: a value whose evaluation reaches it is never a best value
           cands == {d \in 1..I.dsize[c] : evals[d] < Infinity}
           best == IF cands = {} THEN Infinity ELSE Min({evals[d] : d \in cands})
           bests == {d \in cands : evals[d] = best}
           imp == cur - best
           w2 == [w1 EXCEPT !.cost = cur,
                            !.cons = IF cur = 0 THEN "yes" ELSE "no",
                            !.tc = IF cur = 0 THEN @ ELSE 0,
                            !.imp = imp,
                            !.canmove = imp > 0, !.qlm = ~(imp > 0),
                            !.newv = IF imp > 0 THEN pick ELSE @,
                            !.used = @ \/ imp > 0, !.ok = @ /\ (imp > 0 => pick \in bests),
                            !.viol = ViolAt(c, w1, w1.val)]
       IN WaitImprove(c, Send(c, w2, ImpMsg(imp, cur, w2.tc)), pick)

\* _send_ok
SendOk(c, w) ==
  LET w1 == [w EXCEPT !.cyc = @ + 1]
      w2 == IF w1.cons = "yes" THEN [w1 EXCEPT !.tc = @ + 1] ELSE w1
      stop == w1.cons = "yes" /\ w2.tc = MaxDistance IN
  IF stop THEN [Send(c, w2, EndMsg) EXCEPT !.mode = "finished", !.fin = TRUE, !.finnow = TRUE]
  ELSE LET w3 == IF w2.qlm THEN [w2 EXCEPT !.wt = [nm \in NamesOn(c) |-> IF nm \in w2.viol THEN w2.wt[nm] + 1 ELSE w2.wt[nm]]] ELSE w2
           w4 == IF w3.canmove THEN [w3 EXCEPT !.val = w3.newv, !.cost = w3.cost - w3.imp] ELSE w3
       IN Send(c, w4, OkMsg(w4.val))

\* _handle_improve_message
HImp(c, w, s, m, pick) ==
  LET w1 == [w EXCEPT !.ni = @ \cup {s}, !.tc = IF m.tc < @ THEN m.tc ELSE @]
      w2 == IF m.x > w1.imp THEN [w1 EXCEPT !.canmove = FALSE, !.qlm = FALSE]
            ELSE IF m.x = w1.imp /\ RankOf(I, c) > RankOf(I, s) THEN [w1 EXCEPT !.canmove = FALSE] ELSE w1
      w3 == IF m.ev > 0 THEN [w2 EXCEPT !.cons = "no"] ELSE w2 IN
  IF w3.ni # Nb(c) THEN w3
  ELSE LET w4 == SendOk(c, w3)
           w5 == [w4 EXCEPT !.ni = {}, !.nv = [n \in Nb(c) |-> 0], !.viol = {}]
       IN WaitOk(c, w5, pick)

\* _on_end_msg
HEnd(c, w) == IF w.mode # "finished" THEN [Send(c, w, EndMsg) EXCEPT !.mode = "finished", !.fin = TRUE, !.finnow = TRUE] ELSE w

OnMsg(c, w, s, m, pick) ==
  IF m.t = "ok" THEN IF w.mode = "ok" THEN HOk(c, w, s, m, pick) ELSE [w EXCEPT !.ppo = Append(@, [from |-> s, m |-> m])]
  ELSE IF m.t = "imp" THEN IF w.mode = "improve" THEN HImp(c, w, s, m, pick) ELSE [w EXCEPT !.ppi = Append(@, [from |-> s, m |-> m])]
  ELSE HEnd(c, w)

PickOk(w, pick) == w.ok /\ (w.used \/ pick = 0)
RECURSIVE PushAll(_, _, _, _)
PushAll(ch, c, out, i) == IF i > Len(out) THEN ch
                          ELSE PushAll([ch EXCEPT ![<<c, out[i][1]>>] = Append(@, out[i][2])], c, out, i + 1)
HeldAfter(c, w) == [v \in V |-> IF v = c THEN w.val ELSE loc[v].val]
Commit(c, w, ch) ==
  /\ loc' = [loc EXCEPT ![c] = Strip(w)]
  /\ chan' = PushAll(ch, c, w.out, 1)
  /\ fbad' = (fbad \/ (w.finnow /\ ~(Complete(I, HeldAfter(c, w)) /\ Satisfies(I, HeldAfter(c, w), Infinity))))

\* on_start: random initial value, ok message to every neighbour, wait-ok mode
Start(c, pick) ==
  /\ c \notin started
  /\ started' = started \cup {c}
  /\ reinj' = [reinj EXCEPT ![c] = pre[c]] /\ pre' = [pre EXCEPT ![c] = <<>>]
  /\ pick \in 1..I.dsize[c]
  /\ LET w == [Lift(loc[c]) EXCEPT !.val = pick] IN
     Commit(c, WaitOk(c, Send(c, w, OkMsg(pick)), 0), chan)
  /\ act' = [n |-> "start", c |-> c, pick |-> pick]

Deliver(a, c, pick) ==
  /\ <<a, c>> \in Pairs /\ chan[<<a, c>>] # <<>> /\ reinj[c] = <<>>
  /\ LET m == Head(chan[<<a, c>>])
         popped == [chan EXCEPT ![<<a, c>>] = Tail(@)] IN
     IF c \notin started
     THEN /\ pick = 0
          /\ pre' = [pre EXCEPT ![c] = Append(@, [from |-> a, m |-> m])]
          /\ chan' = popped
          /\ UNCHANGED <<started, loc, reinj, fbad>>
     ELSE LET w == OnMsg(c, Lift(loc[c]), a, m, pick) IN
          /\ PickOk(w, pick)
          /\ Commit(c, w, popped)
          /\ UNCHANGED <<started, pre, reinj>>
  /\ act' = [n |-> "deliver", src |-> a, c |-> c, pick |-> pick]

Reinject(c, pick) ==
  /\ reinj[c] # <<>>
  /\ LET e == Head(reinj[c])
         w == OnMsg(c, Lift(loc[c]), e.from, e.m, pick) IN
     /\ PickOk(w, pick)
     /\ Commit(c, w, chan)
     /\ reinj' = [reinj EXCEPT ![c] = Tail(@)]
     /\ act' = [n |-> "reinj", src |-> e.from, c |-> c, pick |-> pick]
  /\ UNCHANGED <<started, pre>>

Quiet == started = V /\ (\A p \in Pairs : chan[p] = <<>>) /\ (\A c \in V : reinj[c] = <<>>)
\* DBA never ends on an unsatisfiable problem and a variable without neighbour never ends at all: quiescence is an end
Done == Quiet /\ UNCHANGED vars
Picks(c) == 0..I.dsize[c]
Step == (\E c \in V : \E k \in Picks(c) : Start(c, k))
        \/ (\E p \in Pairs : \E k \in Picks(p[2]) : Deliver(p[1], p[2], k))
        \/ (\E c \in V : \E k \in Picks(c) : Reinject(c, k))
Next == (Step /\ UNCHANGED t) \/ Done
Spec == Init /\ [][Next]_vars
\* the search is cut after MaxCyc rounds (the weights grow without bound on an unsatisfiable problem)
Bounded == \A c \in V : loc[c].cyc <= MaxCyc

\* ---- properties (C09) ------------------------------------------------------------
Held == [v \in V |-> loc[v].val]
\* whenever a computation declared the end, the values held by all computations at that moment satisfied every constraint
FinishedOnlyOnSolution == ~fbad
\* a started computation holds a value of its domain
ValueInDomain == \A c \in V : loc[c].val \in 0..I.dsize[c] /\ (c \in started => loc[c].val >= 1)
\* the termination counter never exceeds max_distance, and is 0 in a computation that saw an inconsistency this round
CounterBounded == \A c \in V : loc[c].tc \in 0..MaxDistance
\* weights only grow, from 1
WeightsPositive == \A c \in V : \A nm \in NamesOn(c) : loc[c].wt[nm] >= 1
\* structure the implementation relies on: at most one postponed message of each kind per neighbour; neighbours at most one round apart
AtMostOnePostponed == \A c \in V : \A n \in Nb(c) :
                         /\ Cardinality({i \in 1..Len(loc[c].ppo) : loc[c].ppo[i].from = n}) <= 1
                         /\ Cardinality({i \in 1..Len(loc[c].ppi) : loc[c].ppi[i].from = n}) <= 1
NeighbourSkew == \A p \in Pairs : (p[1] \in started /\ p[2] \in started /\ ~loc[p[1]].fin /\ ~loc[p[2]].fin)
                                     => loc[p[1]].cyc - loc[p[2]].cyc \in {-1, 0, 1}

\* ---- binding ---------------------------------------------------------------------
MsgP(m) == [t |-> m.t, x |-> m.x, ev |-> m.ev, tc |-> m.tc]
MsgSeq(s) == [i \in 1..Len(s) |-> MsgP(s[i])]
FromSeq(s) == [i \in 1..Len(s) |-> [from |-> s[i].from, m |-> MsgP(s[i].m)]]
LocP(l) == [l EXCEPT !.ppo = FromSeq(@), !.ppi = FromSeq(@)]
Proj == [t |-> t, started |-> started, loc |-> [c \in V |-> LocP(loc[c])],
         chan |-> [p \in Pairs |-> MsgSeq(chan[p])],
         pre |-> [c \in V |-> FromSeq(pre[c])], reinj |-> [c \in V |-> FromSeq(reinj[c])]]
View == <<t, impl, fbad>>
Edge == (Proj' = Proj /\ act' = act) \/ PrintT(<<"EDGE", ToJson(Proj), ToJson(act'), ToJson(Proj')>>)
====
