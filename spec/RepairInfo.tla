---- MODULE RepairInfo ----
(***************************************************************************)
(* pydcop/reparation: what must be repaired after agents leave, and the    *)
(* constraints of the repair DCOP.  A discovery state S is                 *)
(*   agents : set, comps : set, host : [comps -> agents],                  *)
(*   reps : [comps -> SUBSET agents], nbr : [comps -> SUBSET comps]        *)
(* and D is the set of departed agents.                                    *)
(***************************************************************************)
EXTENDS Integers, Sequences, FiniteSets, FiniteSetsExt, TLC

Orphaned(S, D) == {c \in S.comps : S.host[c] \in D}
CandidateAgents(S, D) == UNION {S.reps[o] : o \in Orphaned(S, D)} \ D
CandidateComputationsFor(S, D, a) == {o \in Orphaned(S, D) : a \in S.reps[o]}
\* for an orphaned computation o: who can host it, where its surviving neighbours are, who can host its orphaned neighbours
Info(S, D, o) ==
  [agts |-> S.reps[o] \ D,
   fixed |-> [n \in (S.nbr[o] \ {o}) \ Orphaned(S, D) |-> S.host[n]],
   cand |-> [n \in (S.nbr[o] \ {o}) \cap Orphaned(S, D) |-> S.reps[n] \ D]]
AgentInfo(S, D, a) == [c \in CandidateComputationsFor(S, D, a) |-> Info(S, D, c)]

\* ---- repair constraints; x assigns 0/1 to the binary variables <<computation, agent>> of the constraint's scope -------
Sum(S, f(_)) == FoldSet(LAMBDA e, acc : acc + f(e), 0, S)
HARD == 10000
\* computation c is hosted exactly once among its candidate agents As
Hosted(c, As, x) == IF Sum(As, LAMBDA a : x[<<c, a>>]) = 1 THEN 0 ELSE HARD
\* the orphaned computations Cs selected on agent a fit its remaining capacity
Capacity(a, Cs, remaining, fp, x) == IF remaining - Sum(Cs, LAMBDA c : x[<<c, a>>] * fp[c]) >= 0 THEN 0 ELSE HARD
HostingCost(a, Cs, hc, x) == Sum(Cs, LAMBDA c : x[<<c, a>>] * hc[c])
\* communication cost of hosting `c` on a, given its Info record; comm[<<c, n, agent>>]
CommCost(a, c, info, comm, x) ==
  x[<<c, a>>] * ( Sum(DOMAIN info.fixed, LAMBDA n : comm[<<c, n, info.fixed[n]>>])
                 + Sum(DOMAIN info.cand, LAMBDA n : Sum(info.cand[n], LAMBDA b : x[<<n, b>>] * comm[<<c, n, b>>])) )
CommScope(a, c, info) == {<<c, a>>} \cup UNION {{<<n, b>> : b \in info.cand[n]} : n \in DOMAIN info.cand}
====
