---- MODULE OrchestrationGuards ----
(***************************************************************************)
(* Guards and effects of the orchestration protocol (see Orchestration.tla). *)
(* The orchestration protocol of a solve (pydcop/infrastructure:           *)
(* Orchestrator, AgentsMgt, OrchestratedAgent / OrchestrationComputation,  *)
(* with the directory in between), at the level of its observable events:  *)
(*   Register(a)    the orchestrator learns agent a (directory callback)   *)
(*   DeploySend(c)  a deploy message for c goes to its host                *)
(*   Deployed(c)    the orchestrator learns that c is registered on a host *)
(*   RunSend(a)     a run message goes to agent a                          *)
(*   Start(c)       the host starts computation c                          *)
(*   Finish(c)      the orchestrator learns that c has finished            *)
(*   Timeout        the run's timer fires / stop is requested              *)
(*   StopSend(a)    a stop message goes to agent a                         *)
(*   Stopped(a)     the orchestrator learns that a left the directory      *)
(*   End            the orchestrator considers every agent stopped         *)
(* The guards are operators over a configuration G = [agents (every        *)
(* orchestrated agent), dagents (those of the distribution: an agent that  *)
(* hosts nothing is legitimate), comps, host]                              *)
(* and a state record S; the same operators enable the actions of Spec     *)
(* (model-checked below) and judge the event traces recorded from real     *)
(* runs (Judge_Orch.tla), so that a real run is accepted exactly when it   *)
(* is a behaviour of this specification.                                   *)
(***************************************************************************)
EXTENDS Integers, Sequences, FiniteSets, TLC

S0 == [reg |-> {}, dsent |-> {}, deployed |-> {}, rsent |-> {}, started |-> {}, finished |-> {}, timeout |-> FALSE,
       ssent |-> {}, stopped |-> {}, ended |-> FALSE]

\* deploy_computations(once_registered): nothing is deployed before every agent of the distribution is known
GDeploySend(G, S, c) == c \in G.comps /\ G.dagents \subseteq S.reg
\* the directory publishes a computation once its host has added it, which needs the deploy message
GDeployed(G, S, c) == c \in S.dsent
\* run(): ready_to_run = every computation of the distribution is deployed
\* (the run and stop messages go to the agents the orchestrator knows at that moment)
GRunSend(G, S, a) == a \in S.reg /\ G.comps \subseteq S.deployed
\* an agent starts the computations it hosts when told to run
GStart(G, S, c) == c \in S.deployed /\ G.host[c] \in S.rsent /\ c \notin S.started
\* a computation reports its end once, after it has been started
GFinish(G, S, c) == c \in S.started /\ c \notin S.finished
\* agents are asked to stop when every computation has finished, or on timeout / explicit stop
GStopSend(G, S, a) == a \in S.reg /\ (G.comps \subseteq S.finished \/ S.timeout)
\* an agent leaves after it has been asked to
GStopped(G, S, a) == a \in S.ssent /\ a \notin S.stopped
\* the end: every agent the orchestrator knows has left (one that never registered is not waited for)
GEnd(G, S) == S.reg \subseteq S.stopped /\ G.dagents \subseteq S.reg /\ ~S.ended

Guard(G, S, e) ==
  CASE e.e = "register" -> e.a \in G.agents
    [] e.e = "deploy_send" -> GDeploySend(G, S, e.c) /\ e.a = G.host[e.c]
    [] e.e = "deployed" -> GDeployed(G, S, e.c) /\ e.a = G.host[e.c]
    [] e.e = "run_send" -> GRunSend(G, S, e.a)
    [] e.e = "start" -> GStart(G, S, e.c) /\ e.a = G.host[e.c]
    [] e.e = "finish" -> GFinish(G, S, e.c)
    [] e.e = "timeout" -> TRUE
    [] e.e = "stop_send" -> GStopSend(G, S, e.a)
    [] e.e = "stopped" -> GStopped(G, S, e.a)
    [] e.e = "end" -> GEnd(G, S)
    [] OTHER -> FALSE
Apply(S, e) ==
  CASE e.e = "register" -> [S EXCEPT !.reg = @ \cup {e.a}]
    [] e.e = "deploy_send" -> [S EXCEPT !.dsent = @ \cup {e.c}]
    [] e.e = "deployed" -> [S EXCEPT !.deployed = @ \cup {e.c}]
    [] e.e = "run_send" -> [S EXCEPT !.rsent = @ \cup {e.a}]
    [] e.e = "start" -> [S EXCEPT !.started = @ \cup {e.c}]
    [] e.e = "finish" -> [S EXCEPT !.finished = @ \cup {e.c}]
    [] e.e = "timeout" -> [S EXCEPT !.timeout = TRUE]
    [] e.e = "stop_send" -> [S EXCEPT !.ssent = @ \cup {e.a}]
    [] e.e = "stopped" -> [S EXCEPT !.stopped = @ \cup {e.a}]
    [] e.e = "end" -> [S EXCEPT !.ended = TRUE]
    [] OTHER -> S
====
