---- MODULE AgentDefs ----
(***************************************************************************)
(* pydcop/dcop/objects.py: AgentDef and create_agents.  An agent           *)
(* definition is a record                                                  *)
(*   name, defroute, routes : [names -> cost], defhost,                    *)
(*   hosting : [computations -> cost], attrs : [attribute names -> value]  *)
(* and what a user can observe of it are the accessors below.              *)
(***************************************************************************)
EXTENDS Integers, Sequences, FiniteSets, TLC

AgentDefOf(name, args) ==
  [name |-> name, defroute |-> args.defroute, routes |-> args.routes,
   defhost |-> args.defhost, hosting |-> args.hosting, attrs |-> args.attrs]

\* route cost: 0 to itself (even when a specific route names the agent itself), the specific route, else the default
Route(a, other) == IF other = a.name THEN 0
                   ELSE IF other \in DOMAIN a.routes THEN a.routes[other] ELSE a.defroute
HostingCost(a, c) == IF c \in DOMAIN a.hosting THEN a.hosting[c] ELSE a.defhost

\* everything observable of an agent definition, for a universe U of agent names and C of computation names
Obs(a, U, C) == [name |-> a.name,
                 route |-> [x \in U \cup {a.name} |-> Route(a, x)],
                 host |-> [c \in C |-> HostingCost(a, c)],
                 defroute |-> a.defroute, defhost |-> a.defhost,
                 attrs |-> a.attrs]

\* ---- mass creation -------------------------------------------------------
RECURSIVE JoinStr(_, _)
JoinStr(seq, sep) == IF Len(seq) = 1 THEN seq[1] ELSE seq[1] \o sep \o JoinStr(Tail(seq), sep)
Digits(n) == IF n < 10 THEN 1 ELSE IF n < 100 THEN 2 ELSE 3
RECURSIVE ZeroPad(_, _)
ZeroPad(s, w) == IF Len(s) >= w THEN s ELSE ZeroPad("0" \o s, w)

\* idx is one of  [kind |-> "list", items : Seq(Str)]        (str(i) of each item; ints are passed as their decimal text)
\*                [kind |-> "range", from, to]               (Python range(from, to)): zero padded to the width of to - 1
\*                [kind |-> "tuple", lists : Seq(Seq(Str)), sep]   every combination, joined with sep
\* result: set of <<key, name>>; key = the dictionary key of create_agents (the name, or the tuple of indexes)
RECURSIVE Product(_)
Product(lists) == IF lists = <<>> THEN {<<>>}
                  ELSE {<<x>> \o rest : x \in {lists[1][i] : i \in 1..Len(lists[1])}, rest \in Product(Tail(lists))}
Names(prefix, idx) ==
  CASE idx.kind = "list"  -> {<< <<prefix \o idx.items[i]>>, prefix \o idx.items[i] >> : i \in 1..Len(idx.items)}
    [] idx.kind = "range" -> {<< <<prefix \o ZeroPad(ToString(i), Digits(idx.to - 1))>>,
                                 prefix \o ZeroPad(ToString(i), Digits(idx.to - 1)) >> : i \in idx.from..(idx.to - 1)}
    [] idx.kind = "tuple" -> {<<combi, prefix \o JoinStr(combi, idx.sep)>> : combi \in Product(idx.lists)}

\* create_agents(prefix, idx, args): each created agent is observationally AgentDef(name, args)
CreateAgents(prefix, idx, args, U, C) ==
  {[key |-> kn[1], obs |-> Obs(AgentDefOf(kn[2], args), U, C)] : kn \in Names(prefix, idx)}
====
