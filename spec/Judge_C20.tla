---- MODULE Judge_C20 ----
(***************************************************************************)
(* Judge for C20: each record is a history of operations executed on REAL  *)
(* Discovery / Directory objects, with the tables observed at each drain   *)
(* point (all discovery messages delivered): obs[i] = [at |-> number of    *)
(* operations executed, dirC, dirR, viewC, viewR]; changes = the view      *)
(* changes of subscribed-with-callback items and whether a callback fired; *)
(* exc = exceptions raised by discovery message handlers.                  *)
(***************************************************************************)
EXTENDS Discovery, Json, IOUtils
H == ndJsonDeserialize(IOEnv.TRACE_FILE)
ToSetOf(x) == {x[i] : i \in 1..Len(x)}
ObsOf(o, Agents, Comps) == [dirC |-> o.dirC, dirR |-> [c \in Comps |-> ToSetOf(o.dirR[c])], viewC |-> o.viewC,
                            dirA |-> ToSetOf(o.dirA), viewA |-> [a \in Agents |-> ToSetOf(o.viewA[a])],
                            viewR |-> [a \in Agents |-> [c \in Comps |-> ToSetOf(o.viewR[a][c])]]]
BadOf(h) ==
  LET Agents == ToSetOf(h.agents)  Comps == ToSetOf(h.comps) IN
  UNION {BadAt(Fold(InitS(Agents, Comps), h.ops, h.obs[i].at), ObsOf(h.obs[i], Agents, Comps), Agents, Comps) : i \in 1..Len(h.obs)}
  \cup {<<"handler_raised", h.exc[i].agent, h.exc[i].what>> : i \in 1..Len(h.exc)}
  \cup {<<"view_changed_without_callback", h.silent[i].a, h.silent[i].c>> : i \in 1..Len(h.silent)}
VARIABLE k
Init == k \in 1..Len(H)
Next == UNCHANGED k
Emit == PrintT(<<"VERDICT", ToJson([id |-> H[k].id, bad |-> BadOf(H[k])])>>)
====
