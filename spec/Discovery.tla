---- MODULE Discovery ----
(***************************************************************************)
(* pydcop/infrastructure/discovery.py at the level of its API: what agents *)
(* ask for (operations), and what must then hold once discovery messages   *)
(* have been drained.  The state of this specification is what the         *)
(* operations determine by themselves:                                     *)
(*   host[c]   the agent that currently hosts computation c ("" = none)    *)
(*   reps[c]   the agents that currently publish a replica of c            *)
(*   subC[a], subR[a]  the computations / replica sets agent a is          *)
(*             subscribed to (and has not unsubscribed from)               *)
(* The directory's and the agents' tables are OBSERVED on the real objects *)
(* and compared with each other (Converged) where the agent is subscribed. *)
(* Operations (agent a, computation c):                                    *)
(*   reg / unreg        register_computation / unregister_computation      *)
(*   sub / subcb / subone / unsub   subscribe_computation (no callback,    *)
(*                      callback, one-shot callback) / unsubscribe (all)   *)
(*   unsubcb            unsubscribe one of several callbacks: the agent    *)
(*                      stays subscribed (cbn = persistent callbacks)      *)
(*   rep / unrep        register_replica / unregister_replica              *)
(*   rsub / rsubcb / runsub         subscribe_replica / unsubscribe_replica*)
(*   asub / asubcb / aunsub (agent a, about agent c): subscribe_agent /     *)
(*                      unsubscribe_agent                                   *)
(*   areg               an agent that left registers again: register_agent  *)
(*   aunreg             agent a leaves: unregister_agent (it does nothing   *)
(*                      afterwards; what it hosted or replicated stays in   *)
(*                      the tables, as the runtime leaves it)               *)
(*   dl(ch)             deliver the oldest message of channel ch           *)
(*   drain              deliver everything, in a seeded order              *)
(***************************************************************************)
EXTENDS Integers, Sequences, FiniteSets, TLC

OpKinds == {"reg", "unreg", "sub", "subcb", "subone", "unsub", "unsubcb", "rep", "unrep", "rsub", "rsubcb", "runsub"}
AgentOpKinds == {"asub", "asubcb", "aunsub"}

InitS(Agents, Comps) == [host |-> [c \in Comps |-> ""], reps |-> [c \in Comps |-> {}],
                         subC |-> [a \in Agents |-> {}], subR |-> [a \in Agents |-> {}],
                         cbn |-> [a \in Agents |-> [c \in Comps |-> 0]],
                         \* what a itself knows for sure without any message: the computations it hosts
                         pendingUnreg |-> {},
                         subA |-> [a \in Agents |-> {}], gone |-> {}, back |-> {}]

\* is operation op = [k, a, c] a sensible API call in state s ?  (an agent registers a computation nobody hosts, unregisters
\* what it hosts, publishes a replica of a computation it hosts or follows, ...)
Enabled(s, op) ==
  IF op.k \notin {"dl", "drain", "areg"} /\ op.a \in s.gone THEN FALSE ELSE
  CASE op.k = "reg"    -> s.host[op.c] = ""
    [] op.k = "unreg"  -> s.host[op.c] = op.a
    [] op.k \in {"sub", "subcb", "subone"} -> s.host[op.c] # op.a
    [] op.k = "unsub"  -> op.c \in s.subC[op.a]
    [] op.k = "unsubcb" -> s.cbn[op.a][op.c] >= 2
    [] op.k = "rep"    -> s.host[op.c] # "" /\ s.host[op.c] # op.a /\ op.a \notin s.reps[op.c] /\ op.c \in s.subC[op.a]
    [] op.k = "unrep"  -> op.a \in s.reps[op.c]
    [] op.k \in {"rsub", "rsubcb"} -> s.host[op.c] = op.a \/ op.c \in s.subC[op.a]
    [] op.k = "runsub" -> op.c \in s.subR[op.a]
    [] op.k \in {"asub", "asubcb"} -> op.c # op.a
    [] op.k = "aunsub" -> op.c \in s.subA[op.a]
    [] op.k = "aunreg" -> TRUE
    [] op.k = "areg" -> op.a \in s.gone /\ op.a \notin s.back
    [] OTHER -> TRUE

Apply(s, op) ==
  CASE op.k = "reg"    -> [s EXCEPT !.host[op.c] = op.a]
    \* unregister_computation also drops the agent's own subscription to that computation
    [] op.k = "unreg"  -> [s EXCEPT !.host[op.c] = "", !.subC[op.a] = @ \ {op.c}, !.cbn[op.a][op.c] = 0]
    [] op.k \in {"sub", "subone"} -> [s EXCEPT !.subC[op.a] = @ \cup {op.c}]
    [] op.k = "subcb"  -> [s EXCEPT !.subC[op.a] = @ \cup {op.c}, !.cbn[op.a][op.c] = @ + 1]
    [] op.k = "unsub"  -> [s EXCEPT !.subC[op.a] = @ \ {op.c}, !.cbn[op.a][op.c] = 0]
    [] op.k = "unsubcb" -> [s EXCEPT !.cbn[op.a][op.c] = @ - 1]
    [] op.k = "rep"    -> [s EXCEPT !.reps[op.c] = @ \cup {op.a}]
    [] op.k = "unrep"  -> [s EXCEPT !.reps[op.c] = @ \ {op.a}]
    [] op.k \in {"rsub", "rsubcb"} -> [s EXCEPT !.subR[op.a] = @ \cup {op.c}]
    [] op.k = "runsub" -> [s EXCEPT !.subR[op.a] = @ \ {op.c}]
    [] op.k \in {"asub", "asubcb"} -> [s EXCEPT !.subA[op.a] = @ \cup {op.c}]
    [] op.k = "aunsub" -> [s EXCEPT !.subA[op.a] = @ \ {op.c}]
    [] op.k = "aunreg" -> [s EXCEPT !.gone = @ \cup {op.a}]
    \* the agent registers again (same address): the others may follow it again; what it had subscribed to itself was cleaned up
    \* by the directory when it left, so its own views stay out of the comparison and it does nothing else
    [] op.k = "areg" -> [s EXCEPT !.back = @ \cup {op.a}]
    [] OTHER -> s

RECURSIVE Fold(_, _, _)
Fold(s, ops, n) == IF n = 0 THEN s ELSE Apply(Fold(s, ops, n - 1), ops[n])

\* ---- what must hold when the discovery messages are drained (C20) ---------
\* obs: [dirC : [Comps -> agent or ""], dirR : [Comps -> set], viewC : [Agents -> [Comps -> agent or ""]],
\*       viewR : [Agents -> [Comps -> set]]]
BadAt(s, obs, Agents, Comps) ==
  \* (reported with what the view, the directory and the operations say about the host, for the diagnosis)
  {<<"computation_view_differs_from_directory", p[1], p[2], obs.viewC[p[1]][p[2]], obs.dirC[p[2]], s.host[p[2]]>> : p \in {p \in Agents \X Comps :
        p[1] \notin s.gone /\ p[2] \in s.subC[p[1]] /\ obs.viewC[p[1]][p[2]] # obs.dirC[p[2]]}}
  \cup {<<"replica_view_differs_from_directory", a, c>> : <<a, c>> \in {p \in Agents \X Comps :
        p[1] \notin s.gone /\ p[2] \in s.subR[p[1]] /\ obs.viewR[p[1]][p[2]] # obs.dirR[p[2]]}}
  \* an agent that follows another one knows it exactly when the directory does
  \cup {<<"agent_view_differs_from_directory", a, b>> : <<a, b>> \in {p \in Agents \X Agents :
        p[1] \notin s.gone /\ p[2] \in s.subA[p[1]] /\ ((p[2] \in obs.viewA[p[1]]) # (p[2] \in obs.dirA))}}
====
