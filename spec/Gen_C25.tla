---- MODULE Gen_C25 ----
(***************************************************************************)
(* Deployments for C25 / C27: agent parameters (capacities, symmetric      *)
(* route costs, hosting costs), the replication level and the placement of *)
(* the computations, drawn by TLC; the DCOP itself comes from Gen_Dcop.    *)
(***************************************************************************)
EXTENDS Integers, Sequences, FiniteSets, TLC, Json, Randomization
CONSTANTS NAg, NComp, NCases, Caps, Ks
Ag == 1..NAg
VARIABLE case
Init == \E cap \in RandomSubset(NCases, [Ag -> Caps]) :
        \E rt \in RandomSubset(1, [Ag \X Ag -> {1, 2, 5}]) :
        \E hc \in RandomSubset(1, [Ag \X (1..NComp) -> {0, 0, 3, 8}]) :
        \E place \in RandomSubset(2, [1..NComp -> Ag]) :
        \E kk \in Ks :
          case = [nag |-> NAg, cap |-> cap,
                  route |-> [p \in Ag \X Ag |-> IF p[1] <= p[2] THEN rt[p] ELSE rt[<<p[2], p[1]>>]],
                  hosting |-> hc, place |-> place, k |-> kk]
Next == UNCHANGED case
Emit == PrintT(<<"CASE", ToJson([nag |-> case.nag, cap |-> case.cap, k |-> case.k, place |-> case.place,
                                 route |-> [a \in Ag |-> [b \in Ag |-> case.route[<<a, b>>]]],
                                 hosting |-> [a \in Ag |-> [c \in 1..NComp |-> case.hosting[<<a, c>>]]]])>>)
====
