---- MODULE AlgoMon ----
(***************************************************************************)
(* Trace validation of whole executions of the REAL algorithm computations *)
(* (recorded by vlib/simrt.py) against                                     *)
(*  (a) the network model every algorithm specification sits on (Net):     *)
(*      computations are started once, every ordered pair of computations  *)
(*      has a FIFO channel, a delivery takes the head of a channel,        *)
(*      messages buffered before start are re-injected and pre-empt the    *)
(*      channels of their destination; and                                 *)
(*  (b) the property-level monitors of C01-C05, C07, C09, C10 over         *)
(*      observables only (selected values, cycle counts, finished flags,   *)
(*      delivered messages).                                               *)
(* One TLC run judges a whole batch: the initial states are the traces,    *)
(* each trace is one deterministic behaviour.  The verdict of every trace  *)
(* is total: the monitor never blocks, it records the names of the failed  *)
(* clauses in `bad`, printed when the trace has been consumed.             *)
(***************************************************************************)
EXTENDS Dcop, TLC, Json, IOUtils

Traces == ndJsonDeserialize(IOEnv.TRACE_FILE)
ASSUME \A i \in 1..Len(Traces) : TLCSet(i, 0)

VARIABLES t,        \* index of the trace being replayed
          l,        \* next event
          chan,     \* [<<src, dst>> -> Seq(message id)]
          reinj,    \* [dst -> Seq(message id)]  messages received before start, re-injected
          started,  \* set of started computations
          val,      \* [variable computation -> selected value index, 0 = none]
          cyc,      \* [computation -> cycle_count]
          fin,      \* set of computations that reported finished
          snapK,    \* cycle number of the last boundary snapshot (-1 = none yet)
          snapA,    \* assignment at that boundary
          accepted, \* <<{x, y}, k>>: an accepted MGM2 offer between x and y was delivered to the offerer while it was in its cycle k
                    \* (the coordinated move it allows happens when both complete that cycle, i.e. between the snapshots A_k and A_k+1;
                    \* with a lagging computation the delivery itself may precede the instant at which A_k is taken)
          inbox,    \* [<<src, dst>> -> Seq(value index)]: the values carried by the value messages delivered so far (DSA)
          bad,      \* set of <<clause, event index, context>> that failed; context = "pair" when an accepted
                    \* coordinated (MGM2) offer was delivered in the current cycle, else "solo"
          wit       \* witness counters: how often the antecedents were exercised
vars == <<t, l, chan, reinj, started, val, cyc, fin, snapK, snapA, accepted, inbox, bad, wit>>

T == Traces[t]
I == T.inst
Comp == {T.comps[i] : i \in 1..Len(T.comps)}      \* all computations (variables, and factors for max-sum)
VComp == VarSet(I)                                 \* variable computations
P(x) == x \in {T.props[i] : i \in 1..Len(T.props)}
Active == {c \in VComp : Nbrs(I, c) # {}}

Init == /\ t \in 1..Len(Traces)
        /\ l = 1
        /\ chan = [p \in Comp \X Comp |-> <<>>]
        /\ reinj = [c \in Comp |-> <<>>]
        /\ started = {}
        /\ val = [c \in VComp |-> 0]
        /\ cyc = [c \in Comp |-> 0]
        /\ fin = {}
        /\ snapK = -1 /\ snapA = <<>> /\ accepted = {}
        /\ inbox = [p \in VComp \X VComp |-> <<>>]
        /\ bad = {}
        /\ wit = [boundaries |-> 0, stagnations |-> 0, moves |-> 0, finals |-> 0, sels |-> 0]

\* ---- Net conformance: is the logged step possible here? -----------------
StepOK(e) ==
  CASE e.e = "start"   -> e.c \in Comp /\ e.c \notin started
    [] e.e = "deliver" -> /\ chan[<<e.src, e.c>>] # <<>>
                          /\ Head(chan[<<e.src, e.c>>]) = e.mid
                          /\ reinj[e.c] = <<>>
    [] e.e = "reinj"   -> reinj[e.c] # <<>> /\ Head(reinj[e.c]) = e.mid
    [] e.e = "timer"   -> TRUE
    [] OTHER -> FALSE

Popped(e) ==
  CASE e.e = "deliver" -> [chan EXCEPT ![<<e.src, e.c>>] = Tail(@)]
    [] OTHER -> chan
RECURSIVE PushAll(_, _, _)
PushAll(ch, sent, k) ==
  IF k > Len(sent) THEN ch
  ELSE LET m == sent[k] IN
       PushAll(IF "reinj" \in DOMAIN m THEN ch
               ELSE [ch EXCEPT ![<<m.src, m.dst>>] = Append(@, m.id)], sent, k + 1)
ReinjIds(sent) == LET s == SelectSeq(sent, LAMBDA m : "reinj" \in DOMAIN m) IN [i \in 1..Len(s) |-> s[i].id]

\* ---- monitors ------------------------------------------------------------
Quiet(ch, rj, st) == st = Comp /\ (\A p \in Comp \X Comp : ch[p] = <<>>) /\ (\A c \in Comp : rj[c] = <<>>)
Boundary(st, cy) == IF st = Comp /\ Active # {} /\ (\A x, y \in Active : cy[x] = cy[y])
                    THEN cy[CHOOSE x \in Active : TRUE] ELSE -1
Changed(a, b) == {v \in VComp : a[v] # b[v]}

\* clauses that fail on the step from the current state to the primed one; e is the event
\* DSA: a change of value must go to a best response to the neighbours' values of that evaluation.
\* Synchronous DSA: the (k+1)-th evaluation of c uses the (k+1)-th value message of every neighbour, k = cycles completed
\* before the step.  A-DSA: the latest value received from every neighbour.
DsaView(c, ib, k, latest) == [n \in Nbrs(I, c) |-> IF latest THEN ib[<<n, c>>][Len(ib[<<n, c>>])] ELSE ib[<<n, c>>][k + 1]]
DsaMoveBad(e, v2, ib, latest) ==
  /\ e.c \in VComp /\ val[e.c] # 0 /\ v2[e.c] # val[e.c] /\ v2[e.c] \in 1..I.dsize[e.c]
  /\ LET c == e.c  k == cyc[c] IN
     IF \E n \in Nbrs(I, c) : Len(ib[<<n, c>>]) < (IF latest THEN 1 ELSE k + 1) THEN TRUE
     ELSE v2[c] \notin ArgBestLocal(I, c, DsaView(c, ib, k, latest) @@ (c :> v2[c]))

NewBad(e, v2, c2, f2, ch2, rj2, st2, acc2, ib2) ==
  LET k == Boundary(st2, c2)
      newBoundary == k >= 0 /\ k # snapK
      consecutive == newBoundary /\ snapK >= 0 /\ k = snapK + 1 /\ Complete(I, snapA) /\ Complete(I, v2)
      quiet == Quiet(ch2, rj2, st2)
      allfin == f2 = Comp
  IN
  (IF e.exc # "" THEN {"EXC"} ELSE {})
  \cup (IF \E i \in 1..Len(e.sel) : ~(e.sel[i][2] \in 1..I.dsize[e.sel[i][1]]) THEN {"C10_selected_value_not_in_domain"} ELSE {})
  \cup (IF \E c \in VComp : ~(v2[c] \in 0..I.dsize[c]) THEN {"C10_current_value_not_in_domain"} ELSE {})
  \cup (IF P("quiet_fin") /\ quiet /\ ~allfin THEN {"quiet_but_not_all_finished"} ELSE {})
  \cup (IF P("opt") /\ allfin /\ ~Complete(I, v2) THEN {"finished_with_incomplete_assignment"} ELSE {})
  \cup (IF P("opt") /\ allfin /\ Complete(I, v2) /\ Cost(I, v2) # Opt(I) THEN {"finished_on_non_optimal_assignment"} ELSE {})
  \cup (IF P("optq") /\ quiet /\ ~Complete(I, v2) THEN {"quiet_with_incomplete_assignment"} ELSE {})
  \cup (IF P("optq") /\ quiet /\ Complete(I, v2) /\ Cost(I, v2) # Opt(I) THEN {"quiet_on_non_optimal_assignment"} ELSE {})
  \cup (IF P("endopt") /\ l = Len(T.ev) /\ ~(Complete(I, v2) /\ Cost(I, v2) = Opt(I)) THEN {"end_on_non_optimal_assignment"} ELSE {})
  \cup (IF P("stop") /\ \E i \in 1..Len(e.finev) :
              LET c == e.finev[i] IN ~(c2[c] = T.k \/ (c \in VComp /\ Nbrs(I, c) = {} /\ e.e = "start" /\ e.c = c))
        THEN {"C07_finished_at_wrong_cycle"} ELSE {})
  \cup (IF P("c03") /\ consecutive /\ Better(I, Cost(I, snapA), Cost(I, v2)) THEN {"C03_cost_got_worse"} ELSE {})
  \cup (IF P("c03") /\ consecutive /\ \E x, y \in Changed(snapA, v2) :
              x # y /\ ShareCon(I, x, y) /\ <<{x, y}, snapK>> \notin acc2
        THEN {"C03_neighbours_moved_together"} ELSE {})
  \cup (IF P("c04") /\ consecutive /\ snapA = v2 /\ ~OneOpt(I, v2) THEN {"C04_stagnation_not_one_opt"} ELSE {})
  \cup (IF P("dsa") /\ DsaMoveBad(e, v2, ib2, FALSE) THEN {"C06_dsa_move_not_best_response"} ELSE {})
  \cup (IF P("adsa") /\ DsaMoveBad(e, v2, ib2, TRUE) THEN {"C06_dsa_move_not_best_response"} ELSE {})
  \cup (IF P("sat") /\ e.finev # <<>> /\ ~(Complete(I, v2) /\ Satisfies(I, v2, T.infinity))
        THEN {"C09_finished_on_violated_constraint"} ELSE {})

\* an accepted coordinated-move answer delivered between two computations
AcceptedNow(e) == IF e.e \in {"deliver", "reinj"} /\ "accept" \in DOMAIN e /\ e.accept
                  THEN {<<{e.src, e.c}, cyc[e.c]>>} ELSE {}

Step ==
  /\ l <= Len(T.ev)
  /\ LET e == T.ev[l] IN
     /\ StepOK(e)
     /\ LET ch2 == PushAll(Popped(e), e.sent, 1)
            rj2 == [reinj EXCEPT ![e.c] = (IF e.e = "reinj" THEN Tail(@) ELSE @) \o ReinjIds(e.sent)]
            st2 == IF e.e = "start" THEN started \cup {e.c} ELSE started
            v2  == IF e.c \in VComp THEN [val EXCEPT ![e.c] = e.val] ELSE val
            c2  == IF e.c \in Comp THEN [cyc EXCEPT ![e.c] = e.cyc] ELSE cyc
            f2  == fin \cup {e.finev[i] : i \in 1..Len(e.finev)}
            acc2 == accepted \cup AcceptedNow(e)
            \* a delivery to a computation that is not started yet is only buffered: it is handled at its re-injection
            ib2 == IF e.e \in {"deliver", "reinj"} /\ "mval" \in DOMAIN e /\ e.c \in started
                   THEN [inbox EXCEPT ![<<e.src, e.c>>] = Append(@, e.mval)] ELSE inbox
            k   == Boundary(st2, c2)
            nb  == k >= 0 /\ k # snapK
            cons == nb /\ snapK >= 0 /\ k = snapK + 1
        IN
        /\ chan' = ch2 /\ reinj' = rj2 /\ started' = st2 /\ val' = v2 /\ cyc' = c2 /\ fin' = f2
        /\ bad' = bad \cup {<<b, l, IF \E a \in acc2 : a[2] = snapK THEN "pair" ELSE "solo">> : b \in NewBad(e, v2, c2, f2, ch2, rj2, st2, acc2, ib2)}
        /\ snapK' = IF nb THEN k ELSE snapK
        /\ snapA' = IF nb THEN v2 ELSE snapA
        /\ accepted' = acc2
        /\ inbox' = ib2
        /\ wit' = [boundaries |-> wit.boundaries + (IF cons THEN 1 ELSE 0),
                   stagnations |-> wit.stagnations + (IF cons /\ snapA = v2 THEN 1 ELSE 0),
                   moves |-> wit.moves + (IF cons /\ snapA # v2 THEN 1 ELSE 0),
                   finals |-> wit.finals + (IF f2 = Comp /\ fin # Comp THEN 1 ELSE 0),
                   sels |-> wit.sels + Len(e.sel)]
  /\ l' = l + 1 /\ t' = t

Next == Step
Spec == Init /\ [][Next]_vars

\* furthest event consumed per trace; the verdict is printed when the trace is exhausted
Reach == /\ TLCSet(t, IF TLCGet(t) < l THEN l ELSE TLCGet(t))
         /\ (l = Len(T.ev) + 1) =>
              PrintT(<<"VERDICT", ToJson([tid |-> T.tid, bad |-> bad, wit |-> wit,
                                          quiet |-> Quiet(chan, reinj, started), allfin |-> fin = Comp,
                                          val |-> val])>>)
Accepted == \A i \in 1..Len(Traces) :
              (TLCGet(i) = Len(Traces[i].ev) + 1) \/ PrintT(<<"REJECT", ToJson([tid |-> Traces[i].tid, at |-> TLCGet(i)])>>)
====
