---- MODULE RepairProtocol ----
(***************************************************************************)
(* The repair orchestration as a specification (guards and effects:        *)
(* RepairGuards.tla, shared with the trace judge Judge_Repair.tla),        *)
(* model-checked for small configurations: every order of the protocol     *)
(* events and every way the candidates may share the orphaned computations.*)
(***************************************************************************)
EXTENDS RepairGuards
CONSTANTS Agents, Leaving, Orphaned, Reps          \* Reps : [Orphaned -> SUBSET Agents]
G0 == [leaving |-> Leaving, orphaned |-> Orphaned, reps |-> Reps]
VARIABLE r
SeqsOf(S) == UNION {[1..n -> S] : n \in 0..Cardinality(S)}
Events == {[e |-> "removal"]} \cup [e : {"pause_send", "removed_send", "setup_send", "ready", "run_send", "resume_send"}, a : Agents]
          \cup [e : {"done"}, a : Agents, sel : {q \in SeqsOf(Orphaned) : \A i, j \in DOMAIN q : i # j => q[i] # q[j]}]
          \cup [e : {"repair_end"}, status : {"OK", "KO"}]
Fresh(e) == RApply(r, e) # r
Init == r = R0
Next == (\E e \in Events : RGuard(G0, r, e) /\ Fresh(e) /\ r' = RApply(r, e)) \/ (r.ended /\ UNCHANGED r)
Spec == Init /\ [][Next]_r
\* what a user relies on (C27): when the repair is reported OK every orphaned computation has been taken over, by an agent that
\* stays and held a replica of it, and no computation is taken twice (RGuard of "done")
OkMeansAllTaken == (r.ended /\ r.status = "OK") => Orphaned \subseteq r.sel
OnlyCandidatesRun == r.run \subseteq Cands(G0)
NobodyRunsBeforeAllReady == r.run # {} => r.setup \subseteq r.ready
====
