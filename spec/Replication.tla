---- MODULE Replication ----
(***************************************************************************)
(* pydcop/replication (dist_ucs_hostingcosts): what a replica placement    *)
(* must satisfy, whatever path the distributed uniform-cost search took.   *)
(* A deployment D: agents, cap[a], comps, owner[c], fp[c] (footprints),    *)
(* k (replication level).  An outcome O: hosts[c] (what each owner was     *)
(* told), held[a] (the replicas each agent holds: set of computations),    *)
(* dirReps[c] (replica registrations in the directory), done (agents that  *)
(* reported replication done), accepts = the sequence of acceptances, each *)
(* with the replicas the agent held just before.                           *)
(***************************************************************************)
EXTENDS Integers, Sequences, FiniteSets, FiniteSetsExt, TLC

Sum(S, f(_)) == FoldSet(LAMBDA e, acc : acc + f(e), 0, S)
Active(D, a) == {c \in D.comps : D.owner[c] = a}
Remaining(D, a) == D.cap[a] - Sum(Active(D, a), LAMBDA c : D.fp[c])
\* worst-case total footprint of the replicas in `held` that would be activated if any n owners disappeared together
Owners(D, held) == {D.owner[c] : c \in held}
WorstCase(D, held, n) ==
  LET m == IF n < Cardinality(Owners(D, held)) THEN n ELSE Cardinality(Owners(D, held)) IN
  IF m <= 0 THEN 0
  ELSE Max({Sum({c \in held : D.owner[c] \in S}, LAMBDA c : D.fp[c]) : S \in {T \in SUBSET Owners(D, held) : Cardinality(T) = m}})
\* an agent may accept a replica of c only if its remaining capacity covers c plus the worst case for k-1 owners of what it holds
MayAccept(D, a, c, held) == Remaining(D, a) >= D.fp[c] + WorstCase(D, held, D.k - 1)

BadOutcome(D, O) ==
  (IF O.done # D.agents THEN {"replication_never_reported_done"} ELSE {})
  \cup (IF \E c \in D.comps : D.owner[c] \in O.hosts[c] THEN {"replica_on_the_owner"} ELSE {})
  \cup (IF \E c \in D.comps : Cardinality(O.hosts[c]) > D.k THEN {"more_than_k_replicas"} ELSE {})
  \cup (IF \E c \in D.comps : ~(O.hosts[c] \subseteq O.dirReps[c]) THEN {"replica_not_recorded_in_discovery"} ELSE {})
  \cup (IF \E c \in D.comps : \E a \in O.hosts[c] : c \notin O.held[a] THEN {"reported_host_does_not_hold_the_replica"} ELSE {})
  \cup (IF \E i \in 1..Len(O.accepts) : ~MayAccept(D, O.accepts[i].a, O.accepts[i].c, O.accepts[i].held)
        THEN {"replica_accepted_beyond_capacity_rule"} ELSE {})
  \cup (IF \E i, j \in 1..Len(O.accepts) : i # j /\ O.accepts[i].a = O.accepts[j].a /\ O.accepts[i].c = O.accepts[j].c
        THEN {"replica_accepted_twice_by_one_agent"} ELSE {})
====
