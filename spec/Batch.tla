---- MODULE Batch ----
(***************************************************************************)
(* pydcop/commands/batch.py: regularize_parameters,                        *)
(* parameters_configuration, build_option_for_parameters.                  *)
(* A (regularized) parameter definition is a function                      *)
(*    name -> [kind |-> "vals", vals : Seq(Str)]                           *)
(*          | [kind |-> "sub",  sub  : name -> Seq(Str)]   (one level)     *)
(* Its expansion is the SET of choice functions; the implementation must   *)
(* list that set as a sequence without duplicates.                         *)
(***************************************************************************)
EXTENDS Integers, Sequences, FiniteSets, TLC

SeqSet(s) == {s[i] : i \in 1..Len(s)}
\* all functions f on D with f[x] \in Sx[x]  (built recursively: the value sets of different x may hold values of different kinds)
RECURSIVE ChoiceFnsOf(_, _)
ChoiceFnsOf(D, Sx) == IF D = {} THEN {<<>>}
                      ELSE LET x == CHOOSE y \in D : TRUE IN
                           {(x :> v) @@ f : v \in Sx[x], f \in ChoiceFnsOf(D \ {x}, Sx)}
ChoiceFns(D, S(_)) == ChoiceFnsOf(D, [x \in D |-> S(x)])

SubCombos(sub) == ChoiceFns(DOMAIN sub, LAMBDA n : SeqSet(sub[n]))
Combos(P) == ChoiceFns(DOMAIN P, LAMBDA n : IF P[n].kind = "vals" THEN SeqSet(P[n].vals) ELSE SubCombos(P[n].sub))
NCombos(P) == Cardinality(Combos(P))

\* the option tokens of one combination: "--name value", and "--name sub:value" for a sub-parameter
Tokens(P, combo) ==
  UNION {IF P[n].kind = "vals" THEN {<<n, combo[n]>>}
         ELSE {<<n, s \o ":" \o combo[n][s]>> : s \in DOMAIN P[n].sub} : n \in DOMAIN P}
====
