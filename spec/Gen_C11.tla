---- MODULE Gen_C11 ----
(***************************************************************************)
(* C11: relations evaluate and slice consistently with their definition.   *)
(* A relation of any of the eight kinds is, mathematically, its graph over *)
(* its declared scope (Relations.tla).  SliceWalk: the state is the        *)
(* partial assignment fixed so far; a step fixes more variables.  TLC      *)
(* enumerates relations x slicing sequences and prints, for every prefix   *)
(* of the walk, the relation Slice(R, fixed) that the implementation must  *)
(* agree with on every completion.                                         *)
(***************************************************************************)
EXTENDS Relations, Json, Randomization
CONSTANTS NTabs, MaxSteps

DS == [x |-> 2, y |-> 2, z |-> 3]
\* truthiness of the concrete domain values the harness uses: x: 'a','b'  y: 0,1  z: 2,5,9
Truth == [x |-> <<1, 1>>, y |-> <<0, 1>>, z |-> <<1, 1, 1>>]
VarsAll == {"x", "y", "z"}
Perms(S) == {s \in [1..Cardinality(S) -> S] : \A i, j \in 1..Cardinality(S) : i # j => s[i] # s[j]}
Scopes == UNION {Perms(S) : S \in (SUBSET VarsAll) \ {{}}}
Vals == <<0, 1, 3, -2, 7, 4>>
TabOf(sc, k) == [i \in 1..TabSize(DS, sc) |-> CInt(Vals[((k * i + (k \div 2) + i * i) % 6) + 1])]
R0(sc, k) == [scope |-> sc, ds |-> DS, tab |-> TabOf(sc, k)]

\* --- the abstract relations, by kind -------------------------------------
Base(kind, sc, k, torder) == [kind |-> kind, rel |-> R0(sc, k), torder |-> torder]
MatrixRels == {Base("matrix", sc, k, sc) : sc \in Scopes, k \in 1..NTabs}
ExprRels   == {Base("expr", sc, k, to) : <<sc, to>> \in {p \in Scopes \X Scopes : ScopeSet(p[1]) = ScopeSet(p[2])}, k \in 1..NTabs}
PyRels     == {Base("pyfunc", sc, k, to) : <<sc, to>> \in {p \in Scopes \X Scopes : ScopeSet(p[1]) = ScopeSet(p[2])}, k \in {1}}
UnaryRels  == {Base("unary", <<v>>, k, <<v>>) : v \in VarsAll, k \in 1..NTabs}
BoolRels   == {[kind |-> "boolean", rel |-> [scope |-> <<v>>, ds |-> DS, tab |-> [i \in 1..DS[v] |-> CInt(Truth[v][i])]], torder |-> <<v>>] : v \in VarsAll}
ZeroRels   == {[kind |-> "zeroary", rel |-> [scope |-> <<>>, ds |-> DS, tab |-> <<CInt(5)>>], torder |-> <<>>]}
NeutralRels == {[kind |-> "neutral", rel |-> [scope |-> sc, ds |-> DS, tab |-> [i \in 1..TabSize(DS, sc) |-> CZero]], torder |-> sc] : sc \in Scopes}
\* conditional: condition = a 0/1 table over csc, consequence = a table over qsc; dimensions sorted by name
SortedSeq(S) == CHOOSE s \in Perms(S) : \A i, j \in 1..Len(s) : i < j => (s[i] = "x" \/ (s[i] = "y" /\ s[j] = "z"))
CondTab(csc, k) == [i \in 1..TabSize(DS, csc) |-> CInt(((i + k) % 2))]
CondRel(csc, qsc, k, neutral) ==
  LET c == [scope |-> csc, ds |-> DS, tab |-> CondTab(csc, k)]
      q == R0(qsc, k)
      sc == SortedSeq(ScopeSet(csc) \cup ScopeSet(qsc)) IN
  [kind |-> "cond", neutral |-> neutral, cond |-> c, cons |-> q, torder |-> sc,
   rel |-> [scope |-> sc, ds |-> DS,
            tab |-> Table(DS, sc, LAMBDA a : IF Eval(c, RestrictTo(a, ScopeSet(csc))) # CZero
                                              THEN Eval(q, RestrictTo(a, ScopeSet(qsc))) ELSE CZero)]]
CondRels == {CondRel(csc, qsc, k, nt) : csc \in {<<"y">>, <<"x">>, <<"x", "y">>, <<"z">>},
                                         qsc \in {<<"y">>, <<"z">>, <<"x", "z">>, <<"y", "z">>, <<"z", "y", "x">>}, k \in 1..2, nt \in {TRUE, FALSE}}

\* --- slicing walks ---------------------------------------------------------
\* stepOf[v] = the step at which v is fixed (0 = never); the steps used are exactly 1..n
Walks(sc) == LET S == ScopeSet(sc) IN
  {w \in [S -> 0..MaxSteps] : \A k \in 1..MaxSteps : (\E v \in S : w[v] = k) => \A j \in 1..k : \E u \in S : w[u] = j}
NSteps(w) == IF DOMAIN w = {} THEN 0 ELSE Max({w[v] : v \in DOMAIN w})
FixedUpTo(w, vals, k) == [v \in {u \in DOMAIN w : w[u] # 0 /\ w[u] <= k} |-> vals[v]]
StepAsg(w, vals, k) == [v \in {u \in DOMAIN w : w[u] = k} |-> vals[v]]
ValChoices(sc, ds) == LET S == ScopeSet(sc) IN
  IF Cardinality(S) <= 2 THEN {f \in [S -> 1..3] : \A v \in S : f[v] <= ds[v]}
  ELSE {f \in RandomSubset(3, [S -> 1..3]) : TRUE}
Clip(f, ds) == [v \in DOMAIN f |-> IF f[v] > ds[v] THEN ds[v] ELSE f[v]]
\* expression relations over four variables (weights make every exchange of two variables visible): the order in which an
\* expression function lists its remaining variables after a partial application matters from three variables on
DS4 == [w |-> 2, x |-> 2, y |-> 2, z |-> 3]
WideScopes == {<<"w", "x", "y", "z">>, <<"z", "w", "y", "x">>, <<"y", "z", "x", "w">>}
WideRels == {[kind |-> "expr", torder |-> to,
              rel |-> [scope |-> sc, ds |-> DS4, tab |-> [i \in 1..24 |-> CInt((i * i) % 29)]]] : sc \in WideScopes, to \in WideScopes}

CaseOf(b, w, vals) ==
  [rel |-> b, steps |-> [k \in 1..NSteps(w) |-> StepAsg(w, vals, k)],
   exp |-> [k \in 1..(NSteps(w) + 1) |-> Slice(b.rel, FixedUpTo(w, vals, k - 1))]]

AllRels == MatrixRels \cup ExprRels \cup PyRels \cup UnaryRels \cup BoolRels \cup ZeroRels \cup NeutralRels \cup CondRels \cup WideRels
VARIABLE case
Init == \E b \in AllRels : \E w \in Walks(b.rel.scope) : \E vals \in ValChoices(b.rel.scope, b.rel.ds) :
           case = CaseOf(b, w, Clip(vals, b.rel.ds))
Next == UNCHANGED case
Emit == PrintT(<<"CASE", ToJson(case)>>)
====
