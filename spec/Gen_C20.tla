---- MODULE Gen_C20 ----
(***************************************************************************)
(* Histories for C20: every sequence of at most MaxLen enabled operations  *)
(* and single-message deliveries (breadth-first: exhaustive), or, under    *)
(* -simulate, random ones of length MaxLen.  A history is printed when it  *)
(* is complete (a final drain is implied).                                 *)
(***************************************************************************)
EXTENDS Discovery, Json
CONSTANTS Agents, Comps, MaxLen, Exhaustive, WithDeliveries, DrainOnly, Kinds, WithAgentOps
VARIABLES s, hist

Chans == {[k |-> "dl", a |-> a, c |-> d] : a \in Agents, d \in {"up", "down"}}   \* up: a -> directory, down: directory -> a
\* Kinds: the computation / replica operations drawn (a subset of OpKinds); WithAgentOps: also agent subscriptions and departures
Ops == {[k |-> k, a |-> a, c |-> c] : k \in OpKinds \cap Kinds, a \in Agents, c \in Comps}
       \cup (IF WithAgentOps THEN {[k |-> k, a |-> a, c |-> b] : k \in AgentOpKinds, a \in Agents, b \in Agents}
                                   \cup {[k |-> k, a |-> a, c |-> ""] : k \in {"aunreg", "areg"}, a \in Agents}
              ELSE {})
       \* (DrainOnly: no single deliveries, only "everything in flight is delivered now")
       \cup (IF WithDeliveries THEN (IF DrainOnly THEN {} ELSE Chans) \cup {[k |-> "drain", a |-> "", c |-> ""]} ELSE {})
Init == s = InitS(Agents, Comps) /\ hist = <<>>
Next == /\ Len(hist) < MaxLen
        /\ \E op \in Ops : /\ Enabled(s, op)
                           \* two deliveries / drains in a row on nothing new add nothing: a delivery follows an operation or a delivery
                           /\ (op.k \in {"dl", "drain"} => hist # <<>> /\ hist[Len(hist)].k # "drain")
                           /\ s' = Apply(s, op) /\ hist' = Append(hist, op)
Emit == (IF Exhaustive THEN Len(hist) >= 1 ELSE Len(hist) = MaxLen) => PrintT(<<"CASE", ToJson([ops |-> hist])>>)
====
