---- MODULE DiscoveryProtocol ----
(***************************************************************************)
(* pydcop/infrastructure/discovery.py (computations, replicas, agents) at   *)
(* the level of its messages: the Discovery object of each agent (client side), the  *)
(* Directory + DirectoryComputation (directory side) and the two FIFO      *)
(* channels between each agent and the directory.  Discovery.tla states    *)
(* WHAT must hold after a history of API calls; this module says HOW the   *)
(* code gets there, one action per API call or per handler invocation:     *)
(*   Reg / Unreg            Discovery.register_computation /              *)
(*                          unregister_computation (publish=True)         *)
(*   Sub / SubCb / SubOne   Discovery.subscribe_computation without / with *)
(*                          a persistent / with a one-shot callback       *)
(*   Unsub / UnsubCb        Discovery.unsubscribe_computation(c) / (c, cb) *)
(*   Rep / Unrep            Discovery.register_replica / unregister_replica *)
(*   RSub / RSubCb / RUnsub Discovery.subscribe_replica without / with a    *)
(*                          callback, unsubscribe_replica(c)               *)
(*   ASub / ASubCb / AUnsub Discovery.subscribe_agent / unsubscribe_agent   *)
(*   AUnreg / AReg          the agent leaves (unregister_agent: refused     *)
(*                          while its own view says it hosts something),    *)
(*                          and registers again (register_agent)           *)
(*   DeliverUp(a)           DirectoryComputation handles the oldest        *)
(*                          message of a: _on_publish_computation,         *)
(*                          _on_unpublish_computation,                     *)
(*                          _on_subscribe_computation, _on_publish_replica, *)
(*                          _on_subscribe_replica                          *)
(*   DeliverDown(a)         DiscoveryComputation of a handles the oldest   *)
(*                          notification: _on_computation_added /_removed, *)
(*                          _on_replica_publish                            *)
(* Client state per agent and computation: vHost (_computations_data),     *)
(* key (`computation in self._computation_cbs`: the entry exists, possibly  *)
(* with an empty list - one-shot callbacks are removed by slice assignment, *)
(* which keeps the entry), pcb / ocb (persistent / one-shot callbacks in    *)
(* the entry); vRep (_replicas_data), rkey / rpcb (_replicas_cbs).          *)
(* Directory state: dHost (_computations_data), dSub                       *)
(* (_subscription_computations), dRep (its discovery's _replicas_data),    *)
(* dSubR (_subscription_replicas).  Specification-level variables: host (who  *)
(* really hosts c: what the API calls said), sub (what each agent is still  *)
(* subscribed to, as Discovery.tla defines it), and two history flags used  *)
(* to state under which histories the views are known NOT to converge.      *)
(***************************************************************************)
EXTENDS Integers, Sequences, FiniteSets, TLC, Json
CONSTANTS Agents, Comps, MaxOps, WithReplicas, WithAgents

VARIABLES host, sub, vHost, key, pcb, ocb, dHost, dSub, up, down, nops, dropped, pubsMade, pubsGot, act,
          reps, subR, vRep, rkey, rpcb, dRep, dSubR, everUnreg, rdropped,
          gone, back, subAg, adropped, vAg, akey, apcb, dAg, dSubA
aimpl == <<vAg, akey, apcb, dAg, dSubA>>
aspec == <<gone, back, subAg, adropped>>
rimpl == <<vRep, rkey, rpcb, dRep, dSubR>>
rspec == <<reps, subR, rdropped>>
impl == <<vHost, key, pcb, ocb, dHost, dSub, up, down, rimpl, aimpl>>
vars == <<host, sub, impl, nops, dropped, pubsMade, pubsGot, act, rspec, everUnreg, aspec>>

Init == /\ host = [c \in Comps |-> ""] /\ sub = [a \in Agents |-> {}]
        /\ vHost = [a \in Agents |-> [c \in Comps |-> ""]]
        /\ key = [a \in Agents |-> [c \in Comps |-> FALSE]]
        /\ pcb = [a \in Agents |-> [c \in Comps |-> 0]] /\ ocb = [a \in Agents |-> [c \in Comps |-> 0]]
        /\ dHost = [c \in Comps |-> ""] /\ dSub = [c \in Comps |-> {}]
        /\ up = [a \in Agents |-> <<>>] /\ down = [a \in Agents |-> <<>>]
        /\ nops = 0 /\ dropped = {} /\ pubsMade = [c \in Comps |-> <<>>] /\ pubsGot = [c \in Comps |-> <<>>]
        /\ act = [n |-> "init"]
        /\ reps = [c \in Comps |-> {}] /\ subR = [a \in Agents |-> {}] /\ everUnreg = {} /\ rdropped = {}
        /\ vRep = [a \in Agents |-> [c \in Comps |-> {}]]
        /\ rkey = [a \in Agents |-> [c \in Comps |-> FALSE]] /\ rpcb = [a \in Agents |-> [c \in Comps |-> 0]]
        /\ dRep = [c \in Comps |-> {}] /\ dSubR = [c \in Comps |-> {}]
        /\ gone = {} /\ back = {} /\ subAg = [a \in Agents |-> {}] /\ adropped = {}
        /\ vAg = [a \in Agents |-> {a}] /\ akey = [a \in Agents |-> [b \in Agents |-> FALSE]] /\ apcb = [a \in Agents |-> [b \in Agents |-> 0]]
        /\ dAg = Agents /\ dSubA = [b \in Agents |-> {}]

Send(a, m) == up' = [up EXCEPT ![a] = Append(@, m)]
Send2(a, m1, m2) == up' = [up EXCEPT ![a] = Append(Append(@, m1), m2)]
PubC(c, a) == [t |-> "pub", c |-> c, a |-> a]
UnpubC(c, a) == [t |-> "unpub", c |-> c, a |-> a]
SubC(c, on) == [t |-> "sub", c |-> c, a |-> IF on THEN "on" ELSE "off"]
Op(n, a, c) == /\ nops < MaxOps /\ nops' = nops + 1 /\ act' = [n |-> n, a |-> a, c |-> c] /\ (n # "areg" => a \notin gone)

\* the callbacks of an entry fire: the one-shot ones are removed afterwards, the entry stays
Fired(a, c) == ocb' = [ocb EXCEPT ![a][c] = 0]

\* ---- client API -----------------------------------------------------------------
Reg(a, c) ==
  /\ host[c] = "" /\ Op("reg", a, c)
  /\ host' = [host EXCEPT ![c] = a]
  /\ vHost' = [vHost EXCEPT ![a][c] = a]
  /\ IF vHost[a][c] # a /\ key[a][c] THEN Fired(a, c) ELSE ocb' = ocb
  /\ Send(a, PubC(c, a))
  /\ pubsMade' = [pubsMade EXCEPT ![c] = Append(@, a)]
  /\ UNCHANGED <<sub, key, pcb, dHost, dSub, down, dropped, pubsGot, rimpl, rspec, everUnreg, aimpl, aspec>>

\* unsubscribe_computation(c, None) as a function of the entry: what is left of it, and whether the directory is told
UnsubAll(a, c) ==
  IF key[a][c] /\ pcb[a][c] + ocb[a][c] > 0 THEN [keep |-> FALSE, tell |-> TRUE]
  ELSE IF key[a][c] THEN [keep |-> TRUE, tell |-> FALSE]       \* an entry with an empty list: nothing removed, nothing sent
  ELSE [keep |-> FALSE, tell |-> TRUE]

Unreg(a, c) ==
  /\ host[c] = a /\ Op("unreg", a, c)
  /\ IF vHost[a][c] # a
     THEN \* the agent's own view names nobody (logged) or another agent (ValueError): the call changes nothing
          UNCHANGED <<host, sub, impl, dropped, pubsMade, pubsGot, rspec, everUnreg, aspec>>
     ELSE LET u == UnsubAll(a, c) IN
          /\ host' = [host EXCEPT ![c] = ""] /\ everUnreg' = everUnreg \cup {c}
          /\ sub' = [sub EXCEPT ![a] = @ \ {c}]
          /\ dropped' = dropped \cup {<<a, c>>}
          /\ vHost' = [vHost EXCEPT ![a][c] = ""]
          /\ key' = [key EXCEPT ![a][c] = u.keep]
          /\ pcb' = [pcb EXCEPT ![a][c] = 0] /\ ocb' = [ocb EXCEPT ![a][c] = 0]
          /\ IF u.tell THEN Send2(a, SubC(c, FALSE), UnpubC(c, a)) ELSE Send(a, UnpubC(c, a))
          /\ UNCHANGED <<dHost, dSub, down, pubsMade, pubsGot, rimpl, rspec, aimpl, aspec>>

Sub(a, c) ==
  /\ host[c] # a /\ Op("sub", a, c)
  /\ sub' = [sub EXCEPT ![a] = @ \cup {c}]
  /\ Send(a, SubC(c, TRUE))
  /\ UNCHANGED <<host, vHost, key, pcb, ocb, dHost, dSub, down, dropped, pubsMade, pubsGot, rimpl, rspec, everUnreg, aimpl, aspec>>
SubCb(a, c) ==
  /\ host[c] # a /\ pcb[a][c] < 2 /\ Op("subcb", a, c)
  /\ sub' = [sub EXCEPT ![a] = @ \cup {c}]
  /\ key' = [key EXCEPT ![a][c] = TRUE] /\ pcb' = [pcb EXCEPT ![a][c] = @ + 1]
  /\ IF key[a][c] THEN up' = up ELSE Send(a, SubC(c, TRUE))
  /\ UNCHANGED <<host, vHost, ocb, dHost, dSub, down, dropped, pubsMade, pubsGot, rimpl, rspec, everUnreg, aimpl, aspec>>
SubOne(a, c) ==
  /\ host[c] # a /\ ocb[a][c] < 2 /\ Op("subone", a, c)
  /\ sub' = [sub EXCEPT ![a] = @ \cup {c}]
  /\ key' = [key EXCEPT ![a][c] = TRUE] /\ ocb' = [ocb EXCEPT ![a][c] = @ + 1]
  /\ IF key[a][c] THEN up' = up ELSE Send(a, SubC(c, TRUE))
  /\ UNCHANGED <<host, vHost, pcb, dHost, dSub, down, dropped, pubsMade, pubsGot, rimpl, rspec, everUnreg, aimpl, aspec>>
Unsub(a, c) ==
  /\ c \in sub[a] /\ Op("unsub", a, c)
  /\ LET u == UnsubAll(a, c) IN
     /\ sub' = [sub EXCEPT ![a] = @ \ {c}]
     /\ dropped' = dropped \cup {<<a, c>>}
     /\ key' = [key EXCEPT ![a][c] = u.keep]
     /\ pcb' = [pcb EXCEPT ![a][c] = 0] /\ ocb' = [ocb EXCEPT ![a][c] = 0]
     /\ IF u.tell THEN Send(a, SubC(c, FALSE)) ELSE up' = up
  /\ UNCHANGED <<host, vHost, dHost, dSub, down, pubsMade, pubsGot, rimpl, rspec, everUnreg, aimpl, aspec>>
UnsubCb(a, c) ==
  /\ pcb[a][c] >= 2 /\ Op("unsubcb", a, c)
  /\ pcb' = [pcb EXCEPT ![a][c] = @ - 1]
  /\ UNCHANGED <<host, sub, vHost, key, ocb, dHost, dSub, up, down, dropped, pubsMade, pubsGot, rimpl, rspec, everUnreg, aimpl, aspec>>

\* ---- client API, replicas ------------------------------------------------------------
comp == <<host, sub, vHost, key, pcb, ocb, dHost, dSub, dropped, pubsMade, pubsGot>>
RepMsg(c, x, on) == [t |-> IF on THEN "repOn" ELSE "repOff", c |-> c, a |-> x]
RSubMsg(c, on) == [t |-> "rsub", c |-> c, a |-> IF on THEN "on" ELSE "off"]
Rep(a, c) ==
  /\ WithReplicas /\ host[c] # "" /\ host[c] # a /\ a \notin reps[c] /\ Op("rep", a, c)
  /\ IF vHost[a][c] = ""
     THEN \* register_replica raises UnknownComputation: the agent does not know the computation (yet)
          UNCHANGED <<rimpl, rspec, up>>
     ELSE /\ reps' = [reps EXCEPT ![c] = @ \cup {a}]
          /\ vRep' = [vRep EXCEPT ![a][c] = @ \cup {a}]
          /\ Send(a, RepMsg(c, a, TRUE))
          /\ UNCHANGED <<subR, rdropped, rkey, rpcb, dRep, dSubR>>
  /\ UNCHANGED <<comp, down, everUnreg, aimpl, aspec>>
Unrep(a, c) ==
  /\ WithReplicas /\ a \in reps[c] /\ Op("unrep", a, c)
  /\ reps' = [reps EXCEPT ![c] = @ \ {a}]
  /\ IF a \in vRep[a][c]
     THEN /\ vRep' = [vRep EXCEPT ![a][c] = @ \ {a}] /\ Send(a, RepMsg(c, a, FALSE))
     ELSE UNCHANGED <<vRep, up>>      \* (the agent dropped what it knew of the replicas when it unsubscribed: nothing is un-published)
  /\ UNCHANGED <<subR, rdropped, rkey, rpcb, dRep, dSubR, comp, down, everUnreg, aimpl, aspec>>
RSub(a, c) ==
  /\ WithReplicas /\ (host[c] = a \/ c \in sub[a]) /\ Op("rsub", a, c)
  /\ subR' = [subR EXCEPT ![a] = @ \cup {c}]
  /\ Send(a, RSubMsg(c, TRUE))
  /\ UNCHANGED <<reps, rdropped, vRep, rkey, rpcb, dRep, dSubR, comp, down, everUnreg, aimpl, aspec>>
RSubCb(a, c) ==
  /\ WithReplicas /\ (host[c] = a \/ c \in sub[a]) /\ rpcb[a][c] < 2 /\ Op("rsubcb", a, c)
  /\ subR' = [subR EXCEPT ![a] = @ \cup {c}]
  /\ rkey' = [rkey EXCEPT ![a][c] = TRUE] /\ rpcb' = [rpcb EXCEPT ![a][c] = @ + 1]
  /\ IF rkey[a][c] THEN up' = up ELSE Send(a, RSubMsg(c, TRUE))
  /\ UNCHANGED <<reps, rdropped, vRep, dRep, dSubR, comp, down, everUnreg, aimpl, aspec>>
\* unsubscribe_replica(c): when the directory is told, everything known about the replicas of c is dropped (the agent's own too)
RUnsub(a, c) ==
  /\ WithReplicas /\ c \in subR[a] /\ Op("runsub", a, c)
  /\ subR' = [subR EXCEPT ![a] = @ \ {c}] /\ rdropped' = rdropped \cup {<<a, c>>}
  /\ IF rkey[a][c] /\ rpcb[a][c] = 0
     THEN UNCHANGED <<vRep, rkey, rpcb, up>>
     ELSE /\ rkey' = [rkey EXCEPT ![a][c] = FALSE] /\ rpcb' = [rpcb EXCEPT ![a][c] = 0]
          /\ vRep' = [vRep EXCEPT ![a][c] = {}]
          /\ Send(a, RSubMsg(c, FALSE))
  /\ UNCHANGED <<reps, dRep, dSubR, comp, down, everUnreg, aimpl, aspec>>

\* ---- directory side -----------------------------------------------------------------
Added(c, b) == [t |-> "added", c |-> c, a |-> b]
Removed(c, b) == [t |-> "removed", c |-> c, a |-> b]
NotifyAll(S, m) == down' = [x \in Agents |-> IF x \in S THEN Append(down[x], m) ELSE down[x]]
RepAdded(c, x) == [t |-> "repAdded", c |-> c, a |-> x]
RepRemoved(c, x) == [t |-> "repRemoved", c |-> c, a |-> x]
\* the order in which the code iterates over a set of agents (a constant measured on the running interpreter)
CONSTANT AgentOrder
SeqOf(S) == SelectSeq(AgentOrder, LAMBDA x : x \in S)
NotifySeq(a, ms) == down' = [down EXCEPT ![a] = @ \o ms]
NotifyTwice(S, m) == down' = [x \in Agents |-> IF x \in S THEN Append(Append(down[x], m), m) ELSE down[x]]
AgMsgKinds == {"asub", "pubA", "unpubA"}
AgAdded(b) == [t |-> "agAdded", c |-> "", a |-> b]
AgRemoved(b) == [t |-> "agRemoved", c |-> "", a |-> b]
\* the handlers of the computation and replica messages
UpOld(a, m) ==
  CASE m.t = "pub" ->
               /\ dHost' = [dHost EXCEPT ![m.c] = m.a]
               /\ NotifyAll(dSub[m.c], Added(m.c, m.a))
               /\ pubsGot' = [pubsGot EXCEPT ![m.c] = Append(@, m.a)]
               /\ UNCHANGED <<dSub, dRep, dSubR>>
          [] m.t = "unpub" ->
               \* the un-publication of an agent that is not the registered host is ignored (ccdc7d1)
               /\ IF dHost[m.c] = m.a
                  THEN /\ dHost' = [dHost EXCEPT ![m.c] = ""] /\ NotifyAll(dSub[m.c], Removed(m.c, m.a))
                  ELSE UNCHANGED <<dHost, down>>
               /\ UNCHANGED <<dSub, pubsGot, dRep, dSubR>>
          [] m.t = "sub" /\ m.a = "on" ->
               /\ dSub' = [dSub EXCEPT ![m.c] = @ \cup {a}]
               /\ IF dHost[m.c] # "" THEN NotifyAll({a}, Added(m.c, dHost[m.c])) ELSE down' = down
               /\ UNCHANGED <<dHost, pubsGot, dRep, dSubR>>
          [] m.t = "sub" ->
               /\ dSub' = [dSub EXCEPT ![m.c] = @ \ {a}]
               /\ UNCHANGED <<dHost, down, pubsGot, dRep, dSubR>>
          [] m.t = "repOn" ->
               \* a replica of a computation the directory does not know is refused (58bc4f6: logged)
               /\ IF dHost[m.c] # ""
                  THEN /\ dRep' = [dRep EXCEPT ![m.c] = @ \cup {m.a}] /\ NotifyAll(dSubR[m.c], RepAdded(m.c, m.a))
                  ELSE UNCHANGED <<dRep, down>>
               /\ UNCHANGED <<dHost, dSub, pubsGot, dSubR>>
          [] m.t = "repOff" ->
               \* Directory.unregister_replica un-registers on its own discovery object WITH publication: the directory sends
               \* itself the un-publication once more, and notifies the subscribers each time
               /\ dRep' = [dRep EXCEPT ![m.c] = @ \ {m.a}]
               /\ IF m.a \in dRep[m.c] THEN NotifyTwice(dSubR[m.c], RepRemoved(m.c, m.a)) ELSE NotifyAll(dSubR[m.c], RepRemoved(m.c, m.a))
               /\ UNCHANGED <<dHost, dSub, pubsGot, dSubR>>
          [] m.t = "rsub" /\ m.a = "on" ->
               /\ dSubR' = [dSubR EXCEPT ![m.c] = @ \cup {a}]
               /\ IF dHost[m.c] # ""
                  THEN NotifySeq(a, [i \in 1..Len(SeqOf(dRep[m.c])) |-> RepAdded(m.c, SeqOf(dRep[m.c])[i])])
                  ELSE down' = down
               /\ UNCHANGED <<dHost, dSub, pubsGot, dRep>>
          [] OTHER ->
               /\ dSubR' = [dSubR EXCEPT ![m.c] = @ \ {a}]
               /\ UNCHANGED <<dHost, dSub, down, pubsGot, dRep>>

\* the handlers of the agent messages: _on_subscribe_agent, _on_publish_agent, _on_unpublish_agent
UpAgent(a, m) ==
  CASE m.t = "asub" /\ m.a = "on" ->
         /\ dSubA' = [dSubA EXCEPT ![m.c] = @ \cup {a}]
         \* an agent the directory does not know: 'Unknown agent on lookup', nothing is answered (the finding of C20)
         /\ IF m.c \in dAg THEN NotifyAll({a}, AgAdded(m.c)) ELSE down' = down
         /\ UNCHANGED <<dAg, dHost, dSub>>
    [] m.t = "asub" ->
         /\ dSubA' = [dSubA EXCEPT ![m.c] = @ \ {a}]
         /\ UNCHANGED <<dAg, dHost, dSub, down>>
    [] m.t = "pubA" ->
         /\ dAg' = dAg \cup {m.a}
         /\ NotifyAll(dSubA[m.a], AgAdded(m.a))
         /\ UNCHANGED <<dSubA, dHost, dSub>>
    [] OTHER ->
         \* Directory.unregister_agent: refused (DiscoveryException) while the directory has a computation on that agent; otherwise
         \* the agent's own subscriptions (to agents and computations - not to replicas) are dropped, then the others are told
         IF (\E c \in Comps : dHost[c] = m.a) \/ m.a \notin dAg
         THEN UNCHANGED <<dAg, dSubA, dHost, dSub, down>>
         ELSE /\ dAg' = dAg \ {m.a}
              /\ dSubA' = [b \in Agents |-> dSubA[b] \ {m.a}]
              /\ dSub' = [c \in Comps |-> dSub[c] \ {m.a}]
              /\ NotifyAll(dSubA[m.a] \ {m.a}, AgRemoved(m.a))
              /\ dHost' = dHost
DeliverUp(a) ==
  /\ up[a] # <<>>
  /\ LET m == Head(up[a]) IN
     /\ up' = [up EXCEPT ![a] = Tail(@)]
     /\ act' = [n |-> "up", a |-> a, c |-> m.t]
     /\ IF m.t \in AgMsgKinds
        THEN UpAgent(a, m) /\ UNCHANGED <<pubsGot, dRep, dSubR>>
        ELSE UpOld(a, m) /\ UNCHANGED <<dAg, dSubA>>
  /\ UNCHANGED <<host, sub, vHost, key, pcb, ocb, nops, dropped, pubsMade, vRep, rkey, rpcb, rspec, everUnreg, vAg, akey, apcb, aspec>>

\* ---- client side, notifications ---------------------------------------------------------
DeliverDown(a) ==
  /\ down[a] # <<>>
  /\ LET m == Head(down[a]) IN
     /\ down' = [down EXCEPT ![a] = Tail(@)]
     /\ act' = [n |-> "down", a |-> a, c |-> m.t]
     /\ CASE m.t = "added" ->
             /\ vHost' = [vHost EXCEPT ![a][m.c] = m.a]
             /\ IF vHost[a][m.c] # m.a /\ key[a][m.c] THEN Fired(a, m.c) ELSE ocb' = ocb
             \* (the notification carries the host's address: an agent not known yet is registered locally on the way)
             /\ vAg' = [vAg EXCEPT ![a] = @ \cup {m.a}]
             /\ vRep' = vRep
          [] m.t = "removed" ->
             \* a removal naming another agent than the one the view holds (or nobody) is ignored (58bc4f6)
             /\ vHost' = IF vHost[a][m.c] = m.a THEN [vHost EXCEPT ![a][m.c] = ""] ELSE vHost
             /\ ocb' = ocb /\ vRep' = vRep /\ vAg' = vAg
          [] m.t = "repAdded" ->
             \* a replica of a computation the agent does not know (any more) is ignored (0ac87b7)
             /\ vRep' = IF vHost[a][m.c] # "" THEN [vRep EXCEPT ![a][m.c] = @ \cup {m.a}] ELSE vRep
             /\ UNCHANGED <<vHost, ocb, vAg>>
          [] m.t = "repRemoved" ->
             /\ vRep' = [vRep EXCEPT ![a][m.c] = @ \ {m.a}]
             /\ UNCHANGED <<vHost, ocb, vAg>>
          [] m.t = "agAdded" ->
             /\ vAg' = [vAg EXCEPT ![a] = @ \cup {m.a}]
             /\ UNCHANGED <<vHost, ocb, vRep>>
          [] OTHER ->
             \* Discovery.unregister_agent(b, publish=False): what the view says b hosts is un-registered locally, then b is forgotten
             /\ vHost' = [vHost EXCEPT ![a] = [c \in Comps |-> IF vHost[a][c] = m.a THEN "" ELSE vHost[a][c]]]
             /\ vAg' = [vAg EXCEPT ![a] = @ \ {m.a}]
             /\ UNCHANGED <<ocb, vRep>>
  /\ UNCHANGED <<host, sub, key, pcb, dHost, dSub, up, nops, dropped, pubsMade, pubsGot, rkey, rpcb, dRep, dSubR, rspec, everUnreg,
                 akey, apcb, dAg, dSubA, aspec>>

\* ---- client API, agents ------------------------------------------------------------------
others == <<comp, rimpl, rspec, everUnreg, down>>
ASubMsg(b, on) == [t |-> "asub", c |-> b, a |-> IF on THEN "on" ELSE "off"]
ASub(a, b) ==
  /\ WithAgents /\ a # b /\ Op("asub", a, b)
  /\ subAg' = [subAg EXCEPT ![a] = @ \cup {b}]
  /\ Send(a, ASubMsg(b, TRUE))
  /\ UNCHANGED <<gone, back, adropped, aimpl, others>>
ASubCb(a, b) ==
  /\ WithAgents /\ a # b /\ apcb[a][b] < 2 /\ Op("asubcb", a, b)
  /\ subAg' = [subAg EXCEPT ![a] = @ \cup {b}]
  /\ akey' = [akey EXCEPT ![a][b] = TRUE] /\ apcb' = [apcb EXCEPT ![a][b] = @ + 1]
  /\ IF akey[a][b] THEN up' = up ELSE Send(a, ASubMsg(b, TRUE))
  /\ UNCHANGED <<gone, back, adropped, vAg, dAg, dSubA, others>>
AUnsub(a, b) ==
  /\ WithAgents /\ b \in subAg[a] /\ Op("aunsub", a, b)
  /\ subAg' = [subAg EXCEPT ![a] = @ \ {b}] /\ adropped' = adropped \cup {<<a, b>>}
  /\ IF akey[a][b] /\ apcb[a][b] = 0
     THEN UNCHANGED <<akey, apcb, up>>
     ELSE /\ akey' = [akey EXCEPT ![a][b] = FALSE] /\ apcb' = [apcb EXCEPT ![a][b] = 0] /\ Send(a, ASubMsg(b, FALSE))
  /\ UNCHANGED <<gone, back, vAg, dAg, dSubA, others>>
\* the agent leaves: refused (DiscoveryException) while its own view says it hosts something
AUnreg(a) ==
  /\ WithAgents /\ Op("aunreg", a, "")
  /\ IF \E c \in Comps : vHost[a][c] = a
     THEN UNCHANGED <<aspec, aimpl, up>>
     ELSE /\ gone' = gone \cup {a}
          /\ vAg' = [vAg EXCEPT ![a] = @ \ {a}]
          /\ Send(a, [t |-> "unpubA", c |-> "", a |-> a])
          /\ UNCHANGED <<back, subAg, adropped, akey, apcb, dAg, dSubA>>
  /\ UNCHANGED others
\* ... and registers again
AReg(a) ==
  /\ WithAgents /\ a \in gone /\ a \notin back /\ Op("areg", a, "")
  /\ back' = back \cup {a}
  /\ vAg' = [vAg EXCEPT ![a] = @ \cup {a}]
  /\ Send(a, [t |-> "pubA", c |-> "", a |-> a])
  /\ UNCHANGED <<gone, subAg, adropped, akey, apcb, dAg, dSubA, others>>

Quiet == \A a \in Agents : up[a] = <<>> /\ down[a] = <<>>
Done == Quiet /\ nops = MaxOps /\ UNCHANGED vars
Next == (\E a \in Agents, c \in Comps : Reg(a, c) \/ Unreg(a, c) \/ Sub(a, c) \/ SubCb(a, c) \/ SubOne(a, c) \/ Unsub(a, c) \/ UnsubCb(a, c)
                                          \/ Rep(a, c) \/ Unrep(a, c) \/ RSub(a, c) \/ RSubCb(a, c) \/ RUnsub(a, c))
        \/ (\E a, b \in Agents : ASub(a, b) \/ ASubCb(a, b) \/ AUnsub(a, b))
        \/ (\E a \in Agents : AUnreg(a) \/ AReg(a))
        \/ (\E a \in Agents : DeliverUp(a) \/ DeliverDown(a)) \/ Done
Spec == Init /\ [][Next]_vars

\* ---- properties (C20, computations) -------------------------------------------------------
\* the statement itself: at quiescence the view of every computation an agent is still subscribed to is the directory's
Converged == Quiet => \A a \in Agents \ gone : \A c \in sub[a] : vHost[a][c] = dHost[c]
\* ... and the directory knows who hosts what
DirectoryTrue == Quiet => \A c \in Comps : dHost[c] = host[c]
\* Both are violated by the code (the known findings of C20): TLC's counterexamples are replayed on the real objects.
\* What does hold:
\* the publications of one computation overtook each other on their way to the directory
Overtook(c) == \E i \in 1..Len(pubsGot[c]) : pubsGot[c][i] # pubsMade[c][i]
\* (1) the directory is right about every computation whose publications arrived in the order they were made
DirectoryTrueInOrder == Quiet => \A c \in Comps : ~Overtook(c) => dHost[c] = host[c]
\* (2) an agent that subscribed to a computation and never dropped it (no unsubscription, no un-registration by itself) agrees
\* with the directory
ConvergedIfNeverDropped == Quiet => \A a \in Agents \ gone : \A c \in sub[a] : <<a, c>> \notin dropped => vHost[a][c] = dHost[c]
\* (3) the directory still counts as subscriber every agent that is subscribed
SubscribedAtDirectory == Quiet => \A a \in Agents \ gone : \A c \in sub[a] : a \in dSub[c]
\* (4) a view never names a host the computation never had
ViewsNameRealHosts == \A a \in Agents : \A c \in Comps : vHost[a][c] \in {""} \cup {pubsMade[c][i] : i \in 1..Len(pubsMade[c])}

\* replicas: the statement, and the directory's own table
ReplicaConverged == Quiet => \A a \in Agents \ gone : \A c \in subR[a] : vRep[a][c] = dRep[c]
DirectoryRepTrue == Quiet => \A c \in Comps : dRep[c] = reps[c]
\* Both are violated (known finding: a replica published while the computation's host un-registers it).  What holds: as long as
\* the computation was never un-registered and the agent never dropped its replica subscription,
ReplicaConvergedIfStable == Quiet => \A a \in Agents \ gone : \A c \in subR[a] : (c \notin everUnreg /\ <<a, c>> \notin rdropped) => vRep[a][c] = dRep[c]
DirectoryRepTrueIfStable == Quiet => \A c \in Comps : (c \notin everUnreg /\ \A a \in Agents : <<a, c>> \notin rdropped) => dRep[c] = reps[c]

\* agents: the statement (an agent that follows another one knows it exactly when the directory does; the views of an agent that left
\* are no longer compared)
AgentConverged == Quiet => \A a \in Agents \ gone : \A b \in subAg[a] : (b \in vAg[a]) = (b \in dAg)
\* violated (finding: re-subscription to an agent that left meanwhile).  What holds: for subscriptions that were never dropped
AgentConvergedIfNeverDropped == Quiet => \A a \in Agents \ gone : \A b \in subAg[a] : <<a, b>> \notin adropped => (b \in vAg[a]) = (b \in dAg)

\* ---- binding ---------------------------------------------------------------------------
Proj == [vHost |-> vHost, key |-> key, pcb |-> pcb, ocb |-> ocb, dHost |-> dHost, dSub |-> dSub, up |-> up, down |-> down, nops |-> nops,
         vRep |-> vRep, rkey |-> rkey, rpcb |-> rpcb, dRep |-> dRep, dSubR |-> dSubR,
         vAg |-> vAg, akey |-> akey, apcb |-> apcb, dAg |-> dAg, dSubA |-> dSubA]
View == <<host, sub, impl, nops, dropped, pubsMade, pubsGot, rspec, everUnreg, aspec>>
Edge == (Proj' = Proj /\ act' = act) \/ PrintT(<<"EDGE", ToJson(Proj), ToJson(act'), ToJson(Proj')>>)
====
