---- MODULE Ucs ----
(***************************************************************************)
(* UCSReplication (pydcop/replication/dist_ucs_hostingcosts.py): the       *)
(* distributed uniform-cost search that places the replicas, as a message  *)
(* level model.  One action = replicate() on one agent, or one handler     *)
(* invocation (_on_replicate_msg) for the oldest message of one channel    *)
(* (one FIFO channel per ordered pair of agents).                          *)
(* The state of a search travels in its message: budget, spent, rq (the    *)
(* request path), paths (the sorted table of known paths with their costs),*)
(* visited, the computation, rc (replicas still to place), hosts.  Per     *)
(* agent: held (_hosted_replicas), pend (_pending_requests keys), inprog   *)
(* (_replication_in_progress), rhosts (_replica_hosts), done               *)
(* (replication_done was called).                                          *)
(* Transcribed as coded:                                                   *)
(*  - the tables are Python lists kept sorted by (cost, path) with paths   *)
(*    compared as tuples of names; D.rank gives the rank of every agent    *)
(*    name and of the pseudo-node "__hosting__" in Python's string order;  *)
(*  - affordable_path_from is a generator over the LIVE table: visiting a  *)
(*    hosting node removes the current entry, so the entry that follows it *)
(*    is skipped by the iteration (it stays in the table);                 *)
(*  - the capacity test uses the agent's own k_target (D.kt: 3, the        *)
(*    constructor default; replicate(k) does not change it), not the       *)
(*    replication level k of the request;                                  *)
(*  - an answer at the owner with replicas still to place and known paths  *)
(*    left restarts the search from the owner with the cheapest known cost *)
(*    as budget.                                                           *)
(* err is set when a handler would raise (path of length 1 answered,       *)
(* minimum of an empty table).  accbad is a history variable: set when a   *)
(* replica is accepted against the capacity rule of C25 (for the level k). *)
(* Not modelled: agents leaving during the placement (_removed_agents).    *)
(***************************************************************************)
EXTENDS Replication, SequencesExt, Json, IOUtils

Insts == ndJsonDeserialize(IOEnv.INST)
VARIABLE t
D0 == Insts[t]
SeqSet(q) == {q[i] : i \in 1..Len(q)}
Agents == SeqSet(D0.agents)
Comps == SeqSet(D0.comps)
\* the deployment in the shape Replication.tla expects
D == [agents |-> Agents, comps |-> Comps, cap |-> D0.cap, owner |-> D0.owner, fp |-> D0.fp, k |-> D0.k]
H == "__hosting__"
CompsOf(a) == SeqSet(D0.order[a])
\* replication_neighbors: the agents hosting a neighbour computation of one of a's computations
RN(a) == {D0.owner[n] : n \in UNION {SeqSet(D0.cnbr[c]) : c \in CompsOf(a)}} \ {a}
Route(a, b) == D0.route[a][b]
Pairs == {p \in Agents \X Agents : p[1] # p[2]}

VARIABLES started, loc, chan, err, accbad, act
impl == <<started, loc, chan, err>>
vars == <<t, impl, accbad, act>>

\* ---- the sorted tables ---------------------------------------------------------------
RECURSIVE PathLess(_, _)
PathLess(p, q) == IF p = <<>> THEN q # <<>> ELSE IF q = <<>> THEN FALSE
                  ELSE IF D0.rank[Head(p)] # D0.rank[Head(q)] THEN D0.rank[Head(p)] < D0.rank[Head(q)]
                  ELSE PathLess(Tail(p), Tail(q))
EltLeq(e, f) == e.cost < f.cost \/ (e.cost = f.cost /\ (e.path = f.path \/ PathLess(e.path, f.path)))
\* list.append then list.sort (stable) on a sorted list: after every entry that is not greater
Insert(ps, e) == LET n == Cardinality({i \in 1..Len(ps) : EltLeq(ps[i], e)}) IN SubSeq(ps, 1, n) \o <<e>> \o SubSeq(ps, n + 1, Len(ps))
RemovePath(ps, p) == SelectSeq(ps, LAMBDA e : e.path # p)
PrefixOf(p, q) == Len(p) <= Len(q) /\ SubSeq(q, 1, Len(p)) = p
Ends(ps, n) == {i \in 1..Len(ps) : Last(ps[i].path) = n}

\* ---- working record of a handler evaluation --------------------------------------------
\* a, c, budget, spent, paths, visited, rc, hosts; held / pend / fin (computation_replicated) / out (messages) / bad / acc
Msg(kind, W, budget, spent, rq) == [kind |-> kind, budget |-> budget, spent |-> spent, rq |-> rq, paths |-> W.paths, visited |-> W.visited,
                                    c |-> W.c, rc |-> W.rc, hosts |-> W.hosts]
\* _send_answer along rq (rq ends with this agent): a path of one element has nobody to answer to (IndexError in the code)
SendAnswer(W, rq) ==
  IF Len(rq) < 2 THEN [W EXCEPT !.bad = TRUE]
  ELSE LET tg == rq[Len(rq) - 1]  r == Route(W.a, tg) IN
       [W EXCEPT !.out = Append(@, <<tg, Msg("answer", W, W.budget + r, W.spent - r, rq)>>)]
\* _send_request
SendRequest(W, target) ==
  LET tg == Last(target)  r == Route(W.a, tg) IN
  [W EXCEPT !.out = Append(@, <<tg, Msg("request", W, W.budget - r, W.spent + r, target)>>), !.pend = @ \cup {<<tg, W.c>>}]
\* _can_host with the agent's own k_target
CanHost(W) == W.c \notin W.held /\ Remaining(D, W.a) >= D0.fp[W.c] + WorstCase(D, W.held, D0.kt - 1)

\* the loop `for target_path in target_paths: forwarded, replica_count = self._visit_path(...)` over the live table
RECURSIVE Loop(_, _, _, _)
Loop(W, prefix, exclude, i) ==
  IF i > Len(W.paths) THEN W
  ELSE LET e == W.paths[i] IN
    IF ~(PrefixOf(prefix, e.path) /\ e.cost <= W.budget + W.spent) THEN Loop(W, prefix, exclude, i + 1)
    ELSE IF Len(e.path) = Len(prefix) THEN [W EXCEPT !.bad = TRUE]       \* p[0] of an empty remainder
    ELSE LET target == Append(prefix, e.path[Len(prefix) + 1]) IN
      IF target = exclude THEN Loop(W, prefix, exclude, i + 1)
      ELSE IF Last(target) = H
      THEN LET W1 == [W EXCEPT !.paths = RemovePath(@, target)] IN
           IF CanHost(W1)
           THEN LET W2 == [W1 EXCEPT !.held = @ \cup {W.c}, !.hosts = Append(@, W.a), !.rc = @ - 1,
                                      !.acc = Append(@, [a |-> W.a, c |-> W.c, held |-> W1.held])] IN
                IF W2.rc = 0 THEN [SendAnswer(W2, prefix) EXCEPT !.fwd = TRUE] ELSE Loop(W2, prefix, exclude, i + 1)
           ELSE Loop(W1, prefix, exclude, i + 1)
      ELSE [SendRequest(W, target) EXCEPT !.fwd = TRUE]

\* the neighbours not visited yet get a path through this agent when it is cheaper than the known one
RECURSIVE AddNeighbours(_, _, _)
AddNeighbours(W, rq, S) ==
  IF S = {} THEN W
  ELSE LET n == CHOOSE x \in S : TRUE
           idx == Ends(W.paths, n)
           first == IF idx = {} THEN 0 ELSE Min(idx)
           better == first = 0 \/ W.paths[first].cost > W.spent + Route(W.a, n)
           ps == IF first = 0 THEN W.paths ELSE RemovePath(W.paths, W.paths[first].path)
           W1 == IF better THEN [W EXCEPT !.paths = Insert(ps, [cost |-> W.spent + Route(W.a, n), path |-> Append(rq, n)])] ELSE W
       IN AddNeighbours(W1, rq, S \ {n})

\* on_replicate_request
OnRequest(W0, rq) ==
  LET p1 == RemovePath(W0.paths, rq)
      first == W0.a \notin SeqSet(W0.visited)
      W1 == [W0 EXCEPT !.visited = IF first THEN Append(@, W0.a) ELSE @,
                       !.paths = IF first /\ W0.c \notin CompsOf(W0.a)
                                 THEN Insert(p1, [cost |-> W0.spent + D0.hc[W0.a][W0.c], path |-> Append(rq, H)]) ELSE p1]
      W2 == Loop(W1, rq, <<>>, 1) IN
  IF W2.fwd \/ W2.bad THEN W2
  ELSE SendAnswer(AddNeighbours(W2, rq, RN(W2.a) \ SeqSet(W2.visited)), rq)

\* computation_replicated
Replicated(W) == [W EXCEPT !.fin = TRUE]

\* on_replicate_answer
OnAnswer(W0, rq) ==
  LET W1 == [W0 EXCEPT !.pend = @ \ {<<Last(rq), W0.c>>}]
      back == Front(rq) IN
  IF W1.rc = 0 THEN (IF Len(rq) >= 3 THEN SendAnswer(W1, back) ELSE Replicated(W1))
  ELSE LET W2 == Loop(W1, back, rq, 1) IN
       IF W2.fwd \/ W2.bad THEN W2
       ELSE IF Len(rq) >= 3 THEN SendAnswer(W2, back)
       ELSE IF W2.paths = <<>> THEN Replicated(W2)
       ELSE LET costs == {W2.paths[i].cost : i \in {j \in 1..Len(W2.paths) : W2.paths[j].path # rq}} IN
            IF costs = {} THEN [W2 EXCEPT !.bad = TRUE]
            ELSE OnRequest([W2 EXCEPT !.budget = Min(costs), !.spent = 0], <<rq[Len(rq) - 1]>>)

Work(a, c, budget, spent, paths, visited, rc, hosts) ==
  [a |-> a, c |-> c, budget |-> budget, spent |-> spent, paths |-> paths, visited |-> visited, rc |-> rc, hosts |-> hosts,
   held |-> loc[a].held, pend |-> loc[a].pend, fin |-> FALSE, out |-> <<>>, bad |-> FALSE, fwd |-> FALSE, acc |-> <<>>]

Loc0(a) == [held |-> {}, pend |-> {}, inprog |-> {}, rhosts |-> [c \in CompsOf(a) |-> {}], done |-> FALSE]
Init == /\ t \in 1..Len(Insts)
        /\ started = {} /\ loc = [a \in Agents |-> Loc0(a)]
        /\ chan = [p \in Pairs |-> <<>>]
        /\ err = FALSE /\ accbad = FALSE
        /\ act = [n |-> "init"]

RECURSIVE PushAll(_, _, _, _)
PushAll(ch, a, out, i) == IF i > Len(out) THEN ch ELSE PushAll([ch EXCEPT ![<<a, out[i][1]>>] = Append(@, out[i][2])], a, out, i + 1)
AccBad(acc) == \E i \in 1..Len(acc) : ~MayAccept(D, acc[i].a, acc[i].c, acc[i].held)

\* the effect of one finished handler evaluation W on agent a
Commit(a, W, ch) ==
  LET l0 == [loc[a] EXCEPT !.held = W.held, !.pend = W.pend]
      l1 == IF W.fin THEN [l0 EXCEPT !.inprog = @ \ {W.c}, !.rhosts[W.c] = @ \cup SeqSet(W.hosts)] ELSE l0
      l2 == IF W.fin /\ l1.inprog = {} THEN [l1 EXCEPT !.done = TRUE] ELSE l1 IN
  /\ loc' = [loc EXCEPT ![a] = l2]
  /\ chan' = PushAll(ch, a, W.out, 1)
  /\ err' = (err \/ W.bad)
  /\ accbad' = (accbad \/ AccBad(W.acc))

\* replicate(k) on agent a: every computation of a starts its own search (one request each); the handler evaluations follow
\* each other in the order of the agent's computations table, each seeing the pending requests of the previous ones
InitialPaths(a) == LET S == RN(a) IN
  FoldSet(LAMBDA n, ps : Insert(ps, [cost |-> Route(a, n), path |-> <<a, n>>]), <<>>, S)
RECURSIVE StartAll(_, _, _, _)
StartAll(a, cs, l, outs) ==
  IF cs = <<>> THEN [l |-> l, out |-> outs.out, bad |-> outs.bad]
  ELSE LET c == Head(cs)
           ps == InitialPaths(a)
           W0 == [Work(a, c, Min({ps[i].cost : i \in 1..Len(ps)}), 0, ps, <<a>>, D0.k, <<>>) EXCEPT !.pend = l.pend]
           W == OnRequest(W0, <<a>>) IN
       StartAll(a, Tail(cs), [l EXCEPT !.pend = W.pend], [out |-> outs.out \o W.out, bad |-> outs.bad \/ W.bad])
Replicate(a) ==
  /\ a \notin started
  /\ started' = started \cup {a}
  /\ IF D0.order[a] = <<>> \/ RN(a) = {}
     THEN /\ loc' = [loc EXCEPT ![a].done = TRUE, ![a].inprog = CompsOf(a)]
          /\ UNCHANGED <<chan, err>>
     ELSE LET R == StartAll(a, D0.order[a], [loc[a] EXCEPT !.inprog = CompsOf(a)], [out |-> <<>>, bad |-> FALSE]) IN
          /\ loc' = [loc EXCEPT ![a] = R.l]
          /\ chan' = PushAll(chan, a, R.out, 1)
          /\ err' = (err \/ R.bad)
  /\ UNCHANGED accbad
  /\ act' = [n |-> "replicate", a |-> a]

Deliver(s, a) ==
  /\ <<s, a>> \in Pairs /\ chan[<<s, a>>] # <<>>
  /\ LET m == Head(chan[<<s, a>>])
         W0 == Work(a, m.c, m.budget, m.spent, m.paths, m.visited, m.rc, m.hosts)
         W == IF m.kind = "request" THEN OnRequest(W0, m.rq) ELSE OnAnswer(W0, m.rq) IN
     Commit(a, W, [chan EXCEPT ![<<s, a>>] = Tail(@)])
  /\ UNCHANGED started
  /\ act' = [n |-> "deliver", src |-> s, a |-> a]

Quiet == started = Agents /\ \A p \in Pairs : chan[p] = <<>>
AllDone == \A a \in Agents : loc[a].done
Done == Quiet /\ AllDone /\ UNCHANGED vars
Step == (\E a \in Agents : Replicate(a)) \/ (\E p \in Pairs : Deliver(p[1], p[2]))
Next == (Step /\ UNCHANGED t) \/ Done
Spec == Init /\ [][Next]_vars
\* liveness: under weak fairness of the steps of the code (a started handler runs, a queued message is eventually delivered, every
\* agent / computation is eventually started) the run ends - checked WITHOUT any state constraint
FairSpec == Spec /\ WF_vars(Step /\ UNCHANGED t)
Terminates == <>[](Quiet /\ AllDone)

\* ---- properties (C25) --------------------------------------------------------------
\* every agent eventually reports replication done: no deadlock before (with Done), and quiescence means done
QuietMeansDone == Quiet => AllDone
NoHandlerError == ~err
\* every acceptance respected the capacity rule for the replication level k
AcceptRule == ~accbad
\* replicas of a computation: on distinct agents other than its owner, at most k of them, each of them holding the replica
Holders(c) == {a \in Agents : c \in loc[a].held}
ReplicasSafe == \A c \in Comps : /\ D0.owner[c] \notin Holders(c)
                                /\ Cardinality(Holders(c)) <= D0.k
HostsAreHolders == \A a \in Agents : \A c \in CompsOf(a) : loc[a].rhosts[c] \subseteq Holders(c)
\* what the owner is told when the search of c ends is everything that was placed
ToldEverything == \A a \in Agents : \A c \in CompsOf(a) : (a \in started /\ c \notin loc[a].inprog /\ RN(a) # {}) => loc[a].rhosts[c] = Holders(c)
\* one search per computation: exactly one message about c in flight while c is in progress at a started owner with neighbours, none otherwise
InFlight(c) == Cardinality({<<p, i>> \in {<<q, j>> \in Pairs \X (1..8) : j <= Len(chan[q])} : chan[p][i].c = c})
OneToken == \A c \in Comps : LET a == D0.owner[c] IN
              InFlight(c) = (IF a \in started /\ c \in loc[a].inprog /\ RN(a) # {} /\ ~err THEN 1 ELSE 0)
\* the replica count carried by a message + the replicas placed so far = k
CountConsistent == \A p \in Pairs : \A i \in 1..Len(chan[p]) : chan[p][i].rc + Len(chan[p][i].hosts) = D0.k
                                                                 /\ SeqSet(chan[p][i].hosts) = Holders(chan[p][i].c)
\* the tables stay sorted
Sorted(ps) == \A i \in 1..(Len(ps) - 1) : EltLeq(ps[i], ps[i + 1])
TablesSorted == \A p \in Pairs : \A i \in 1..Len(chan[p]) : Sorted(chan[p][i].paths)

\* ---- binding -------------------------------------------------------------------------
MsgP(m) == [m EXCEPT !.paths = [i \in 1..Len(m.paths) |-> <<m.paths[i].cost, m.paths[i].path>>]]
Proj == [t |-> t, started |-> started,
         loc |-> [a \in Agents |-> [loc[a] EXCEPT !.pend = {<<x[1], x[2]>> : x \in loc[a].pend}]],
         chan |-> [p \in Pairs |-> [i \in 1..Len(chan[p]) |-> MsgP(chan[p][i])]], err |-> err]
View == <<t, impl, accbad>>
Edge == (Proj' = Proj /\ act' = act) \/ PrintT(<<"EDGE", ToJson(Proj), ToJson(act'), ToJson(Proj')>>)
====
