---- MODULE Judge_Repair ----
(***************************************************************************)
(* Trace validation of the repair orchestration of real resilient runs     *)
(* against RepairProtocol.tla (guards and effects: RepairGuards.tla).  A   *)
(* record is one removal event of a real run: leaving, orphaned, reps (the *)
(* replica holders when the event was handled) and ev, the observed        *)
(* protocol events in order.  Accepted when every event is enabled in the  *)
(* state reached by the events before it; the verdict names the first      *)
(* refused event, and what is missing at the end.                          *)
(***************************************************************************)
EXTENDS RepairGuards, Json, IOUtils
H == ndJsonDeserialize(IOEnv.TRACE_FILE)
ToSet(q) == {q[i] : i \in 1..Len(q)}
Conf(h) == [leaving |-> ToSet(h.leaving), orphaned |-> ToSet(h.orphaned),
            reps |-> [c \in ToSet(h.orphaned) |-> ToSet(h.reps[c])]]
RECURSIVE Walk(_, _, _, _)
Walk(G, R, ev, i) == IF i > Len(ev) THEN <<0, R>>
                     ELSE IF ~RGuard(G, R, ev[i]) THEN <<i, R>>
                     ELSE Walk(G, RApply(R, ev[i]), ev, i + 1)
BadOf(h) ==
  LET G == Conf(h)
      w == Walk(G, R0, h.ev, 1)
  IN (IF w[1] # 0 THEN {"event_not_enabled_" \o h.ev[w[1]].e} ELSE {})
     \cup (IF w[1] = 0 /\ ~w[2].ended THEN {"repair_never_reported"} ELSE {})
AtOf(h) == Walk(Conf(h), R0, h.ev, 1)[1]
VARIABLE k
Init == k \in 1..Len(H)
Next == UNCHANGED k
Emit == PrintT(<<"VERDICT", ToJson([id |-> H[k].id, bad |-> BadOf(H[k]), at |-> AtOf(H[k])])>>)
====
