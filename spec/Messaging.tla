---- MODULE Messaging ----
(***************************************************************************)
(* pydcop/infrastructure/communication.py: Messaging (one per agent) and   *)
(* the agent loop of agents.py, for ONE agent hosting the computations     *)
(* Dests; a computation of LateDests is registered while posts are going   *)
(* on.  Posting threads p \in Posters each run a script of post_msg calls; *)
(* post_msg is NOT atomic, its steps are the points where the real code    *)
(* can be pre-empted between two observable effects:                       *)
(*    Begin   : `if self._shutdown: return`                                *)
(*    Lookup  : discovery.computation_agent(dest)  (known / unknown)       *)
(*    Put     : counter increment + PriorityQueue.put (under its mutex)    *)
(*    Sub     : discovery.subscribe_computation(dest, cb, one_shot)        *)
(*    Fail    : self._failed.append(...)                                   *)
(* The queue orders entries by (type, counter); the counter only grows, so *)
(* the queue is one FIFO per type, lowest type first.                      *)
(* RegData(d) / RegTest(d) / RegFire(d): discovery.register_computation    *)
(* first makes d known, then tests whether somebody subscribed to d, then  *)
(* fires the one-shot callbacks:                                           *)
(* Messaging._on_computation_registration re-posts the failed messages for *)
(* d in list order.  Shutdown = Agent.clean_shutdown().                     *)
(* The agent loop (Agent._run) is two steps: a poll of the queue (a        *)
(* message is handled, or the poll times out: apc = "check") and, after a  *)
(* timed-out poll, the test of the shutdown flag.  Messages can be posted  *)
(* and the shutdown requested between the two: with Repoll (the repaired   *)
(* code) the loop polls once more before exiting.                          *)
(***************************************************************************)
EXTENDS Orders, TLC, Json
CONSTANTS Posters,     \* set of thread ids (1, 2, ...)
          Scripts,     \* [Posters -> Seq([dest, ty])]
          Dests, LateDests, Types,
          Recheck,     \* TRUE: post_msg looks the destination up again after deferring a message (the repaired code)
          Ordered,     \* TRUE: a post whose destination is known queues behind the messages still deferred for it (repaired)
          Repoll       \* TRUE: after a timed-out poll, a shutdown request makes the loop poll again before it exits (repaired)

VARIABLES pc, idx, known, cbs, failed, q, shut, exited, apc, reg, handled, dropped, beforeShut, minOk, act
impl == <<pc, idx, known, cbs, failed, q, shut, exited, apc, reg>>
hist == <<handled, dropped, beforeShut, minOk>>
vars == <<impl, hist, act>>

Mid(p, i) == 10 * p + i
Msg(m) == Scripts[m \div 10][m % 10]
AllMids == {Mid(p, i) : p \in Posters, i \in 1..3} \cap UNION {{Mid(p, i) : i \in 1..Len(Scripts[p])} : p \in Posters}
Cur(p) == Mid(p, idx[p])

Init == /\ pc = [p \in Posters |-> "idle"] /\ idx = [p \in Posters |-> 1]
        /\ known = Dests \ LateDests /\ cbs = {} /\ failed = <<>>
        /\ q = [t \in Types |-> <<>>] /\ shut = FALSE /\ exited = FALSE /\ apc = "poll"
        /\ reg = [d \in LateDests |-> "no"]
        /\ handled = <<>> /\ dropped = {} /\ beforeShut = {} /\ minOk = TRUE
        /\ act = [n |-> "init"]

Enqueue(qq, m) == [qq EXCEPT ![Msg(m).ty] = Append(@, m)]
RECURSIVE EnqueueAll(_, _)
EnqueueAll(qq, ms) == IF ms = <<>> THEN qq ELSE EnqueueAll(Enqueue(qq, Head(ms)), Tail(ms))
Done(p) == idx[p] > Len(Scripts[p])
Advance(p) == /\ pc' = [pc EXCEPT ![p] = "idle"] /\ idx' = [idx EXCEPT ![p] = @ + 1]

Begin(p) == /\ pc[p] = "idle" /\ ~Done(p)
            /\ IF shut THEN /\ dropped' = dropped \cup {Cur(p)} /\ Advance(p)
                       ELSE /\ pc' = [pc EXCEPT ![p] = "lookup"] /\ UNCHANGED <<idx, dropped, reg>>
            /\ act' = [n |-> "begin", p |-> p, m |-> Cur(p)]
            /\ UNCHANGED <<known, cbs, failed, q, shut, exited, apc, handled, beforeShut, minOk, reg>>
Lookup(p) == /\ pc[p] = "lookup"
             /\ pc' = [pc EXCEPT ![p] = IF Msg(Cur(p)).dest \in known THEN "put" ELSE "sub"]
             /\ act' = [n |-> "lookup", p |-> p, m |-> Cur(p)]
             /\ UNCHANGED <<idx, known, cbs, failed, q, shut, exited, apc, hist, reg>>
\* the failed messages for destination d, in list order, and the others
ForDest(d) == SelectSeq(failed, LAMBDA m : Msg(m).dest = d)
NotForDest(d) == SelectSeq(failed, LAMBDA m : Msg(m).dest # d)
\* the destination is known.  Repaired code (Ordered): if messages are still deferred for it (its registration has recorded it but
\* not fired the callbacks yet), this message goes behind them and they are all posted now, in order, under the lock of the
\* deferred list (each through post_msg: after a shutdown request they are dropped)
Put(p) == /\ pc[p] = "put"
          /\ LET d == Msg(Cur(p)).dest
                 mine == Append(ForDest(d), Cur(p)) IN
             IF Ordered /\ ForDest(d) # <<>>
             THEN /\ failed' = NotForDest(d)
                  /\ IF shut THEN /\ dropped' = dropped \cup {m \in AllMids : InSeq(mine, m)} /\ UNCHANGED <<q, beforeShut>>
                             ELSE /\ q' = EnqueueAll(q, mine)
                                  /\ beforeShut' = beforeShut \cup {m \in AllMids : InSeq(mine, m)}
                                  /\ dropped' = dropped
             ELSE /\ q' = Enqueue(q, Cur(p))
                  /\ beforeShut' = IF shut THEN beforeShut ELSE beforeShut \cup {Cur(p)}
                  /\ UNCHANGED <<failed, dropped>>
          /\ Advance(p)
          /\ act' = [n |-> "put", p |-> p, m |-> Cur(p)]
          /\ UNCHANGED <<known, cbs, shut, exited, apc, handled, minOk, reg>>
Sub(p) == /\ pc[p] = "sub"
          /\ cbs' = cbs \cup {Msg(Cur(p)).dest}
          /\ pc' = [pc EXCEPT ![p] = "fail"]
          /\ act' = [n |-> "sub", p |-> p, m |-> Cur(p)]
          /\ UNCHANGED <<idx, known, failed, q, shut, exited, apc, hist, reg>>
Fail(p) == /\ pc[p] = "fail"
           /\ LET d == Msg(Cur(p)).dest
                  f2 == Append(failed, Cur(p))
                  mine == SelectSeq(f2, LAMBDA m : Msg(m).dest = d) IN
              IF Recheck /\ d \in known
              THEN \* repaired code: the destination was registered meanwhile, the deferred messages for it are posted now
                   \* (after a shutdown the re-posts are dropped by post_msg, as in Register)
                   /\ failed' = SelectSeq(f2, LAMBDA m : Msg(m).dest # d)
                   /\ IF shut THEN /\ dropped' = dropped \cup {m \in AllMids : InSeq(mine, m)}
                                    /\ UNCHANGED <<q, beforeShut, reg>>
                              ELSE /\ q' = EnqueueAll(q, mine)
                                   /\ beforeShut' = beforeShut \cup {m \in AllMids : InSeq(mine, m)}
                                   /\ dropped' = dropped
              ELSE /\ failed' = f2 /\ UNCHANGED <<q, beforeShut, dropped, reg>>
           /\ Advance(p)
           /\ act' = [n |-> "fail", p |-> p, m |-> Cur(p)]
           /\ UNCHANGED <<known, cbs, shut, exited, apc, handled, minOk, reg>>

\* a late computation is registered on the agent (deployment).  Discovery.register_computation is two steps for the other
\* threads: (1) the computation becomes known (post_msg's lookup succeeds from now on), (2) the one-shot callbacks fire and
\* Messaging._on_computation_registration re-posts the deferred messages for it, in list order (only if some post subscribed)
RegData(d) ==
              /\ d \in LateDests /\ reg[d] = "no"
              /\ known' = known \cup {d}
              /\ reg' = [reg EXCEPT ![d] = "data"]
              /\ act' = [n |-> "regdata", d |-> d]
              /\ UNCHANGED <<pc, idx, cbs, failed, q, shut, exited, apc, hist>>
\* (2a) the registering thread tests whether anybody subscribed to d (`computation in self._computation_cbs`): if nobody did it
\* is done - a subscription made later stays in the table; (2b) otherwise it goes on to the callbacks, the first thing
\* Messaging._on_computation_registration does being to take the lock of the deferred list
RegTest(d) ==
              /\ d \in LateDests /\ reg[d] = "data"
              /\ reg' = [reg EXCEPT ![d] = IF d \in cbs THEN "lock" ELSE "done"]
              /\ act' = [n |-> "regtest", d |-> d]
              /\ UNCHANGED <<pc, idx, known, cbs, failed, q, shut, exited, apc, hist>>
RegFire(d) ==
               /\ d \in LateDests /\ reg[d] = "lock"
               /\ reg' = [reg EXCEPT ![d] = "done"]
               /\ IF d \in cbs /\ ~shut
                  THEN /\ q' = EnqueueAll(q, ForDest(d)) /\ failed' = NotForDest(d)
                       /\ beforeShut' = beforeShut \cup {m \in AllMids : InSeq(ForDest(d), m)}
                  ELSE IF d \in cbs
                  THEN \* after shutdown the re-posts are dropped by post_msg, the entries are still removed from the list
                       /\ failed' = NotForDest(d) /\ UNCHANGED <<q, beforeShut>>
                  ELSE UNCHANGED <<q, failed, beforeShut>>
               /\ cbs' = cbs \ {d}
               /\ dropped' = IF d \in cbs /\ shut THEN dropped \cup {m \in AllMids : InSeq(ForDest(d), m)} ELSE dropped
               /\ act' = [n |-> "regfire", d |-> d]
               /\ UNCHANGED <<pc, idx, known, shut, exited, apc, handled, minOk>>

QueuedTypes == {t \in Types : q[t] # <<>>}
MinType == CHOOSE t \in QueuedTypes : \A u \in QueuedTypes : t <= u
\* the agent loop fetches and handles the first message of the lowest queued type
Fetch == LET t == MinType  m == Head(q[t]) IN
         /\ q' = [q EXCEPT ![t] = Tail(@)]
         /\ handled' = Append(handled, m)
         /\ minOk' = (minOk /\ \A u \in QueuedTypes : t <= u)
         /\ act' = [n |-> "next", m |-> m]
\* next_msg(0.05) returns a message: it is handled
AgentNext == /\ ~exited /\ QueuedTypes # {}
             /\ \/ apc = "poll"
                \/ (apc = "check" /\ shut /\ Repoll)       \* repaired loop: second poll after a shutdown request
             /\ Fetch /\ apc' = "poll"
             /\ UNCHANGED <<pc, idx, known, cbs, failed, shut, exited, dropped, beforeShut, reg>>
\* next_msg(0.05) times out: the loop is now between the poll and the test of the shutdown flag
AgentIdle == /\ ~exited /\ apc = "poll" /\ QueuedTypes = {}
             /\ apc' = "check"
             /\ act' = [n |-> "idle"]
             /\ UNCHANGED <<pc, idx, known, cbs, failed, q, shut, exited, hist, reg>>
\* no shutdown requested: next iteration
AgentResume == /\ ~exited /\ apc = "check" /\ ~shut
               /\ apc' = "poll"
               /\ act' = [n |-> "resume"]
               /\ UNCHANGED <<pc, idx, known, cbs, failed, q, shut, exited, hist, reg>>
Shutdown == /\ ~shut /\ shut' = TRUE
            /\ act' = [n |-> "shutdown"]
            /\ UNCHANGED <<pc, idx, known, cbs, failed, q, exited, apc, hist, reg>>
\* shutdown requested: the loop exits - without Repoll even if messages were queued since the poll timed out
LoopExit == /\ shut /\ ~exited /\ apc = "check"
            /\ (Repoll => QueuedTypes = {})
            /\ exited' = TRUE
            /\ act' = [n |-> "exit"]
            /\ UNCHANGED <<pc, idx, known, cbs, failed, q, shut, apc, hist, reg>>

Next == (\E p \in Posters : Begin(p) \/ Lookup(p) \/ Put(p) \/ Sub(p) \/ Fail(p))
        \/ (\E d \in LateDests : RegData(d) \/ RegTest(d) \/ RegFire(d)) \/ AgentNext \/ AgentIdle \/ AgentResume \/ Shutdown \/ LoopExit
Spec == Init /\ [][Next]_vars

\* ---- the property (C18) -------------------------------------------------
\* each message is handed to its destination at most once
HandledOnce == NoDup(handled)
\* lower message type first: at every fetch the type was minimal among the queued ones
PriorityRespected == minOk
\* posting order among same-type messages of one sender to one destination: of two such messages that were both handled, the
\* one posted first is handled first (a message deferred for an unregistered destination does not hold back the sender's
\* messages to other destinations)
SenderFifo == \A i, j \in 1..Len(handled) :
                 LET a == handled[i]  b == handled[j] IN
                 (a \div 10 = b \div 10 /\ Msg(a).ty = Msg(b).ty /\ Msg(a).dest = Msg(b).dest /\ a < b) => i < j
\* everything the posters have finished posting is handled, queued, deferred or was dropped after shutdown
Posted(m) == LET p == m \div 10 IN idx[p] > m % 10
InQueue(m) == \E t \in Types : InSeq(q[t], m)
NothingLost == \A m \in AllMids : Posted(m) => (InSeq(handled, m) \/ InQueue(m) \/ InSeq(failed, m) \/ m \in dropped)
\* deferred messages are delivered once their destination registers: when nothing is in progress, no message is left deferred
\* for a registered computation
AllIdle == \A p \in Posters : pc[p] = "idle"
NoStuckDeferred == (AllIdle /\ ~shut) => \A i \in 1..Len(failed) : (Msg(failed[i]).dest \notin known \/ (Msg(failed[i]).dest \in LateDests /\ reg[Msg(failed[i]).dest] \in {"data", "lock"}))
\* clean shutdown: when the loop exits, everything queued before the shutdown has been handled
ShutdownDrains == exited => \A m \in beforeShut : InSeq(handled, m)

\* ---- binding ---------------------------------------------------------------
\* the queue as the agent will serve it: by type, FIFO within a type
RECURSIVE QSeqOf(_)
QSeqOf(T) == IF T = {} THEN <<>> ELSE LET t == CHOOSE x \in T : \A u \in T : x <= u IN q[t] \o QSeqOf(T \ {t})
\* (injective on the implementation variables: the replay walks the graph of projections)
Proj == [pc |-> [p \in Posters |-> pc[p]], idx |-> [p \in Posters |-> idx[p]], known |-> known, cbs |-> cbs,
         failed |-> failed, queue |-> QSeqOf(Types),
         handled |-> handled, shut |-> shut, exited |-> exited, apc |-> apc, reg |-> reg]
Edge == PrintT(<<"EDGE", ToJson(Proj), ToJson(act'), ToJson(Proj')>>)
View == <<impl, hist>>
====
