---- MODULE Lifecycle ----
(***************************************************************************)
(* One computation c hosted on an agent: MessagePassingComputation.start / *)
(* pause / on_message / post_msg (pydcop/infrastructure/computations.py)   *)
(* together with the agent's priority queue (Messaging: entries ordered by *)
(* (type, counter)) through which buffered messages are re-injected with   *)
(* priority 19, i.e. ahead of ordinary algorithm messages (20).            *)
(*                                                                         *)
(* Implementation variables: running (_running), paused (_is_paused),      *)
(* bufRecv (_paused_messages_recv), bufPost (_paused_messages_post), and   *)
(* the agent queue restricted to messages for c.  The queue orders entries *)
(* by (type, msg_queue_count); the counter only grows, so the queue is one *)
(* FIFO per type: q19 (re-injected) is served before q20 (algorithm        *)
(* messages).  The counter itself is not a variable (it would make the     *)
(* state space infinite without adding behaviour).                         *)
(* History variables (hidden from the state graph by VIEW): recvOrder =    *)
(* order in which messages first reached c.on_message, postOrder = order   *)
(* of c.post_msg calls, handled = handler invocations, sent = calls of the *)
(* message sender for c's own posts, overlap = some message was buffered   *)
(* while an earlier re-injection (priority 19) was still in the queue.     *)
(***************************************************************************)
EXTENDS Orders, TLC, Json
CONSTANTS MaxRecv, MaxPost

VARIABLES running, paused, bufRecv, bufPost, q19, q20, nextMid, nextPid,
          recvOrder, postOrder, handled, sent, overlap, act
impl == <<running, paused, bufRecv, bufPost, q19, q20, nextMid, nextPid>>
hist == <<recvOrder, postOrder, handled, sent, overlap>>
vars == <<impl, hist, act>>

Init == /\ running = FALSE /\ paused = FALSE /\ bufRecv = <<>> /\ bufPost = <<>>
        /\ q19 = <<>> /\ q20 = <<>> /\ nextMid = 1 /\ nextPid = 1
        /\ recvOrder = <<>> /\ postOrder = <<>> /\ handled = <<>> /\ sent = <<>> /\ overlap = FALSE
        /\ act = [n |-> "init"]


\* a message for c is posted to the agent (by a local or remote sender): Messaging.post_msg, priority MSG_ALGO = 20
Recv == /\ nextMid <= MaxRecv
        /\ q20' = Append(q20, nextMid)
        /\ nextMid' = nextMid + 1
        /\ act' = [n |-> "recv", mid |-> nextMid]
        /\ UNCHANGED <<running, paused, bufRecv, bufPost, q19, nextPid, hist>>

\* c.post_msg(target, msg), called from a handler, a periodic action or another component
DoPost == /\ postOrder' = Append(postOrder, nextPid)
          /\ nextPid' = nextPid + 1
          /\ IF paused THEN bufPost' = Append(bufPost, nextPid) /\ sent' = sent
                       ELSE sent' = Append(sent, nextPid) /\ bufPost' = bufPost
Post == /\ nextPid <= MaxPost /\ DoPost
        /\ act' = [n |-> "post", pid |-> nextPid]
        /\ UNCHANGED <<running, paused, bufRecv, q19, q20, nextMid, recvOrder, handled, overlap>>

\* one iteration of the agent loop: the smallest (type, counter) entry is handed to c.on_message;
\* reply = TRUE: the handler answers with a post of its own
AgentNext(reply) ==
  /\ q19 # <<>> \/ q20 # <<>>
  /\ LET e == [mid |-> IF q19 # <<>> THEN Head(q19) ELSE Head(q20)] IN
     /\ IF q19 # <<>> THEN q19' = Tail(q19) /\ q20' = q20 ELSE q20' = Tail(q20) /\ q19' = q19
     /\ recvOrder' = IF InSeq(recvOrder, e.mid) THEN recvOrder ELSE Append(recvOrder, e.mid)
     /\ IF running /\ ~paused
        THEN /\ handled' = Append(handled, e.mid)
             /\ bufRecv' = bufRecv
             /\ overlap' = overlap
             /\ IF reply /\ nextPid <= MaxPost THEN DoPost
                ELSE UNCHANGED <<postOrder, nextPid, bufPost, sent>>
        ELSE /\ bufRecv' = Append(bufRecv, e.mid)
             /\ overlap' = (overlap \/ q19' # <<>>)
             /\ UNCHANGED <<handled, postOrder, nextPid, bufPost, sent>>
     /\ act' = [n |-> "next", mid |-> e.mid, reply |-> reply /\ running /\ ~paused /\ nextPid <= MaxPost]
  /\ UNCHANGED <<running, paused, nextMid>>

\* c.start(): buffered receptions go back to the agent queue
Start == /\ ~running
         /\ running' = TRUE
         /\ q19' = q19 \o bufRecv /\ bufRecv' = <<>>
         /\ act' = [n |-> "start"]
         /\ UNCHANGED <<paused, bufPost, q20, nextMid, nextPid, hist>>

Pause == /\ ~paused /\ paused' = TRUE
         /\ act' = [n |-> "pause"]
         /\ UNCHANGED <<running, bufRecv, bufPost, q19, q20, nextMid, nextPid, hist>>

\* c.pause(False), as Agent.unpause_computations calls it (only for a paused computation)
Resume == /\ paused /\ paused' = FALSE
          /\ sent' = sent \o bufPost /\ bufPost' = <<>>
          /\ q19' = q19 \o bufRecv /\ bufRecv' = <<>>
          /\ act' = [n |-> "resume"]
          /\ UNCHANGED <<running, q20, nextMid, nextPid, recvOrder, postOrder, handled, overlap>>

Next == Recv \/ Post \/ (\E r \in BOOLEAN : AgentNext(r)) \/ Start \/ Pause \/ Resume
Spec == Init /\ [][Next]_vars

\* ---- the property (C19) -------------------------------------------------
HandledOnceInReceptionOrder == FollowsOrder(handled, recvOrder)
\* the same, for histories in which no message was buffered while an earlier re-injection was still queued
HandledInOrderUnlessOverlap == overlap \/ FollowsOrder(handled, recvOrder)
HandledOnce == NoDup(handled)
SentOnceInPostingOrder == FollowsOrder(sent, postOrder)
\* nothing is lost: everything received is handled, buffered or still queued; everything posted is sent or buffered
NothingLost == /\ \A m \in 1..(nextMid - 1) : InSeq(handled, m) \/ InSeq(bufRecv, m) \/ InSeq(q19, m) \/ InSeq(q20, m)
               /\ \A p \in 1..(nextPid - 1) : InSeq(sent, p) \/ InSeq(bufPost, p)
\* buffered messages are handled before any message that reached the computation after them: handled is a prefix of recvOrder
\* once the buffers and the queue are empty
QuiescentComplete == (q19 = <<>> /\ q20 = <<>> /\ bufRecv = <<>> /\ running /\ ~paused) =>
                        /\ Len(handled) = nextMid - 1            \* each received message handled (exactly once, with HandledOnce)
                        /\ (overlap \/ handled = recvOrder)
NotPausedAllSent == (~paused /\ bufPost = <<>>) => TRUE
ResumeFlushes == [][(act'.n = "resume") => (bufPost' = <<>> /\ bufRecv' = <<>> /\ Len(sent') = Len(sent) + Len(bufPost))]_vars

\* ---- binding: the labelled state graph, printed for replay into the real classes ----
QSeq == [i \in 1..Len(q19) |-> [prio |-> 19, mid |-> q19[i]]] \o [i \in 1..Len(q20) |-> [prio |-> 20, mid |-> q20[i]]]
Proj == [running |-> running, paused |-> paused, bufRecv |-> bufRecv, bufPost |-> bufPost, queue |-> QSeq,
         handled |-> handled, sent |-> sent, overlap |-> overlap]
View == <<impl, hist>>
Edge == PrintT(<<"EDGE", ToJson(Proj), ToJson(act'), ToJson(Proj')>>)
====
