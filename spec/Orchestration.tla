---- MODULE Orchestration ----
(***************************************************************************)
(* The orchestration protocol of a solve as a specification: the events,   *)
(* guards and effects are those of OrchestrationGuards.tla (shared with    *)
(* the trace judge Judge_Orch.tla); here they are the actions of Spec,     *)
(* model-checked for small configurations.                                 *)
(***************************************************************************)
EXTENDS OrchestrationGuards

\* ---- the protocol as a specification (model-checked for small configurations) ----
CONSTANTS Agents, Comps, HostOf, WithTimeout
DAgents == {HostOf[c] : c \in Comps}
G0 == [agents |-> Agents, dagents |-> DAgents, comps |-> Comps, host |-> HostOf]
VARIABLE s
Events == [e : {"register", "run_send", "stop_send", "stopped"}, a : Agents]
          \cup {[e |-> x, c |-> c, a |-> HostOf[c]] : x \in {"deploy_send", "deployed", "start"}, c \in Comps}
          \cup [e : {"finish"}, c : Comps]
          \cup (IF WithTimeout THEN {[e |-> "timeout"]} ELSE {}) \cup {[e |-> "end"]}
\* the code sends each message once per phase: the model does not repeat an event that changes nothing
Fresh(e) == Apply(s, e) # s
Init == s = S0
Next == (\E e \in Events : Guard(G0, s, e) /\ Fresh(e) /\ s' = Apply(s, e)) \/ (s.ended /\ UNCHANGED s)
Spec == Init /\ [][Next]_s
\* what a user relies on
NothingRunsBeforeAllDeployed == s.started # {} => Comps \subseteq s.deployed
NothingDeployedBeforeAllRegistered == s.dsent # {} => DAgents \subseteq s.reg
EndMeansDone == s.ended => (DAgents \subseteq s.stopped /\ (WithTimeout \/ Comps \subseteq s.finished))
StopOnlyAtTheEnd == (s.ssent # {} /\ ~s.timeout) => Comps \subseteq s.finished
====
