---- MODULE Judge_C24 ----
(***************************************************************************)
(* Judge for C24: the distribution returned by an optimal (ILP) method is  *)
(* compared with the minimum, over ALL mappings satisfying the method's    *)
(* hard rules, of the method's cost model (both defined here, on the       *)
(* numeric tables of the instance).                                        *)
(* h: comps, agents, cap[a], fp[c], pins[c] (agents whose hosting cost for *)
(*    c is 0), hc[a][c], pairs : Seq([c1, c2, load]) (one entry per pair   *)
(*    of ends of each link), route[a][b], model ("cgdp" | "fgdp"),         *)
(*    outcome ("mapping" | "impossible" | "timeout" | exception), host[c], *)
(*    reported (the method's own distribution_cost of its result, x10).    *)
(***************************************************************************)
EXTENDS Integers, Sequences, FiniteSets, FiniteSetsExt, TLC, Json, IOUtils
H == ndJsonDeserialize(IOEnv.TRACE_FILE)
ToSetOf(x) == {x[i] : i \in 1..Len(x)}
SumOverSet(S, f(_)) == FoldSet(LAMBDA e, acc : acc + f(e), 0, S)
SumOverSeq(s, f(_)) == FoldSet(LAMBDA i, acc : acc + f(s[i]), 0, 1..Len(s))

Feasible(h, f) ==
  LET A == ToSetOf(h.agents)  C == ToSetOf(h.comps) IN
  /\ \A a \in A : SumOverSet({c \in C : f[c] = a}, LAMBDA c : h.fp[c]) <= h.cap[a]
  /\ \A c \in C : h.pins[c] # <<>> => ToSetOf(h.pins[c]) = {f[c]}          \* pinned to the agent whose hosting cost is 0
  /\ (h.model = "fgdp" => \A a \in A : \E c \in C : f[c] = a)             \* ilp_fgdp: every agent hosts something
\* cost x 10 : oilp_cgdp = 0.8 * communication + 0.2 * hosting ; ilp_fgdp = load of the edges cut by the mapping
Cost10(h, f) ==
  IF h.model = "cgdp"
  THEN 8 * SumOverSeq(h.pairs, LAMBDA p : h.route[f[p.c1]][f[p.c2]] * p.load) + 2 * SumOverSet(ToSetOf(h.comps), LAMBDA c : h.hc[f[c]][c])
  ELSE 10 * SumOverSeq(h.pairs, LAMBDA p : IF f[p.c1] # f[p.c2] THEN p.load ELSE 0)
All(h) == [ToSetOf(h.comps) -> ToSetOf(h.agents)]
Feas(h) == {f \in All(h) : Feasible(h, f)}
BadOf(h) ==
  IF h.outcome \notin {"mapping", "impossible", "timeout"} THEN {"crashed_with_" \o h.outcome}
  ELSE IF h.outcome = "timeout" THEN {}
  ELSE IF h.outcome = "impossible" THEN (IF Feas(h) # {} THEN {"declared_impossible_although_feasible"} ELSE {})
  ELSE LET f == h.host IN
       (IF ~Feasible(h, f) THEN {"result_breaks_a_hard_rule"} ELSE
        (IF Cost10(h, f) # Min({Cost10(h, g) : g \in Feas(h)}) THEN {"result_not_cost_minimal"} ELSE {}))
       \cup (IF h.reported # Cost10(h, f) THEN {"own_distribution_cost_differs_from_cost_model"} ELSE {})
VARIABLE k
Init == k \in 1..Len(H)
Next == UNCHANGED k
Emit == PrintT(<<"VERDICT", ToJson([id |-> H[k].id, bad |-> BadOf(H[k]),
                                    min |-> IF Feas(H[k]) = {} THEN -1 ELSE Min({Cost10(H[k], g) : g \in Feas(H[k])})])>>)
====
