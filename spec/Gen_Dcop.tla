---- MODULE Gen_Dcop ----
(***************************************************************************)
(* Generator of DCOP instances for the behavioural checks.  A shape fixes  *)
(* variables, domain sizes and constraint scopes; TLC draws the cost       *)
(* tables, own-value costs and initial values: exhaustively when the space *)
(* is small (Exhaustive = TRUE), otherwise NPerShape of them with          *)
(* Randomization!RandomSubset (driven by TLC's -seed).  Each instance is   *)
(* printed with its optimum and the number of optimal assignments, both    *)
(* computed from Dcop.tla.                                                 *)
(***************************************************************************)
EXTENDS Dcop, TLC, Json, Randomization
CONSTANTS ShapeNames,   \* subset of DOMAIN Shapes
          Alpha,        \* sequence of cost values to draw tables from
          VCAlpha,      \* sequence of own-cost values (<<0>> = plain variables)
          NPerShape, Exhaustive, Modes, WithInit

V(n) == [i \in 1..n |-> "v" \o ToString(i - 1)]
D2(n) == [i \in 1..n |-> 2]
Shapes ==
  [ single   |-> [vars |-> V(1), ds |-> D2(1), scopes |-> <<>>],
    unary1   |-> [vars |-> V(1), ds |-> <<3>>, scopes |-> << <<"v0">> >>],
    pair     |-> [vars |-> V(2), ds |-> D2(2), scopes |-> << <<"v0","v1">> >>],
    pair3    |-> [vars |-> V(2), ds |-> <<3, 2>>, scopes |-> << <<"v0","v1">> >>],
    pairrev  |-> [vars |-> V(2), ds |-> <<2, 3>>, scopes |-> << <<"v1","v0">> >>],
    parallel |-> [vars |-> V(2), ds |-> D2(2), scopes |-> << <<"v0","v1">>, <<"v1","v0">> >>],
    unarypair|-> [vars |-> V(2), ds |-> D2(2), scopes |-> << <<"v0">>, <<"v0","v1">> >>],
    isolated |-> [vars |-> V(3), ds |-> D2(3), scopes |-> << <<"v0","v1">> >>],
    isounary |-> [vars |-> V(3), ds |-> D2(3), scopes |-> << <<"v0","v1">>, <<"v2">> >>],
    \* a variable without constraint in the middle / at the head of the lexical order, two of them between two constrained ones
    isomid   |-> [vars |-> V(3), ds |-> D2(3), scopes |-> << <<"v0","v2">> >>],
    isofirst |-> [vars |-> V(3), ds |-> <<2, 2, 3>>, scopes |-> << <<"v2","v1">> >>],
    gap4     |-> [vars |-> V(4), ds |-> D2(4), scopes |-> << <<"v0","v3">>, <<"v3","v0">> >>],
    \* unary constraints on the other end, on the middle of a path, on the centre of a star, on every variable
    upair1   |-> [vars |-> V(2), ds |-> D2(2), scopes |-> << <<"v1">>, <<"v0","v1">> >>],
    upath    |-> [vars |-> V(3), ds |-> D2(3), scopes |-> << <<"v1">>, <<"v0","v1">>, <<"v1","v2">> >>],
    ustar    |-> [vars |-> V(4), ds |-> D2(4), scopes |-> << <<"v0">>, <<"v0","v1">>, <<"v0","v2">>, <<"v0","v3">> >>],
    uall     |-> [vars |-> V(3), ds |-> D2(3), scopes |-> << <<"v0">>, <<"v1">>, <<"v2">>, <<"v0","v1">>, <<"v1","v2">> >>],
    path3    |-> [vars |-> V(3), ds |-> D2(3), scopes |-> << <<"v0","v1">>, <<"v1","v2">> >>],
    path3d3  |-> [vars |-> V(3), ds |-> <<2, 3, 2>>, scopes |-> << <<"v0","v1">>, <<"v2","v1">> >>],
    fork3    |-> [vars |-> V(3), ds |-> D2(3), scopes |-> << <<"v0","v1">>, <<"v0","v2">> >>],
    triangle |-> [vars |-> V(3), ds |-> D2(3), scopes |-> << <<"v0","v1">>, <<"v1","v2">>, <<"v0","v2">> >>],
    tern     |-> [vars |-> V(3), ds |-> D2(3), scopes |-> << <<"v0","v1","v2">> >>],
    ternpair |-> [vars |-> V(3), ds |-> D2(3), scopes |-> << <<"v2","v0","v1">>, <<"v1","v2">> >>],
    twocomp  |-> [vars |-> V(4), ds |-> D2(4), scopes |-> << <<"v0","v1">>, <<"v2","v3">> >>],
    path4    |-> [vars |-> V(4), ds |-> D2(4), scopes |-> << <<"v0","v1">>, <<"v1","v2">>, <<"v2","v3">> >>],
    star4    |-> [vars |-> V(4), ds |-> D2(4), scopes |-> << <<"v0","v1">>, <<"v0","v2">>, <<"v0","v3">> >>],
    cycle4   |-> [vars |-> V(4), ds |-> D2(4), scopes |-> << <<"v0","v1">>, <<"v1","v2">>, <<"v2","v3">>, <<"v0","v3">> >>],
    tritail  |-> [vars |-> V(4), ds |-> D2(4), scopes |-> << <<"v0","v1">>, <<"v1","v2">>, <<"v0","v2">>, <<"v2","v3">> >>],
    tritails |-> [vars |-> V(6), ds |-> D2(6), scopes |-> << <<"v0","v1">>, <<"v1","v2">>, <<"v0","v2">>, <<"v0","v3">>, <<"v1","v4">>, <<"v5","v2">> >>],
    kite     |-> [vars |-> V(5), ds |-> D2(5), scopes |-> << <<"v0","v1">>, <<"v0","v2">>, <<"v1","v2">>, <<"v1","v3">>, <<"v3","v2">>, <<"v3","v4">> >>],
    path5    |-> [vars |-> V(5), ds |-> D2(5), scopes |-> << <<"v0","v1">>, <<"v1","v2">>, <<"v2","v3">>, <<"v3","v4">> >>],
    tree5    |-> [vars |-> V(5), ds |-> <<2, 2, 3, 2, 2>>, scopes |-> << <<"v0","v1">>, <<"v0","v2">>, <<"v2","v3">>, <<"v2","v4">> >>],
    tern5    |-> [vars |-> V(5), ds |-> D2(5), scopes |-> << <<"v0","v1","v2">>, <<"v2","v3">>, <<"v3","v4">> >>] ]

DsOf(sh) == [v \in {sh.vars[i] : i \in 1..Len(sh.vars)} |-> sh.ds[CHOOSE i \in 1..Len(sh.vars) : sh.vars[i] = v]]
RECURSIVE TSize(_, _)
TSize(ds, sc) == IF sc = <<>> THEN 1 ELSE ds[Head(sc)] * TSize(ds, Tail(sc))
RECURSIVE Offsets(_, _, _)     \* start offset (0-based) of each constraint's table in the flat draw
Offsets(ds, scopes, acc) == IF scopes = <<>> THEN <<>>
                            ELSE <<acc>> \o Offsets(ds, Tail(scopes), acc + TSize(ds, Head(scopes)))
RECURSIVE SumSeq(_)
SumSeq(s) == IF s = <<>> THEN 0 ELSE Head(s) + SumSeq(Tail(s))
NTab(sh) == SumSeq([i \in 1..Len(sh.scopes) |-> TSize(DsOf(sh), sh.scopes[i])])
NVc(sh) == SumSeq(sh.ds)

Draws(n, al) == IF Exhaustive THEN [1..n -> 1..Len(al)] ELSE RandomSubset(NPerShape, [1..n -> 1..Len(al)])

Inst(name, sh, tabdraw, vcdraw, mode, initdraw) ==
  LET ds == DsOf(sh)
      off == Offsets(ds, sh.scopes, 0)
      voff == Offsets([i \in 1..Len(sh.vars) |-> sh.ds[i]], [i \in 1..Len(sh.vars) |-> <<i>>], 0)
  IN [shape |-> name, vars |-> sh.vars, dsize |-> ds, mode |-> mode,
      cons |-> [i \in 1..Len(sh.scopes) |->
                  [name |-> "c" \o ToString(i - 1), scope |-> sh.scopes[i],
                   tab |-> [j \in 1..TSize(ds, sh.scopes[i]) |-> Alpha[tabdraw[off[i] + j]]]]],
      varcost |-> [v \in DOMAIN ds |->
                     LET k == CHOOSE i \in 1..Len(sh.vars) : sh.vars[i] = v IN
                     [j \in 1..ds[v] |-> VCAlpha[vcdraw[voff[k] + j]]]],
      init |-> [v \in DOMAIN ds |->
                  LET k == CHOOSE i \in 1..Len(sh.vars) : sh.vars[i] = v IN
                  IF WithInit THEN ((initdraw[k] - 1) % ds[v]) + 1 ELSE 0]]

VARIABLE inst
Init == \E name \in ShapeNames :
          LET sh == Shapes[name] IN
          \E td \in Draws(NTab(sh), Alpha), mode \in Modes :
          \E vd \in (IF Len(VCAlpha) = 1 THEN {[i \in 1..NVc(sh) |-> 1]} ELSE RandomSubset(2, [1..NVc(sh) -> 1..Len(VCAlpha)])) :
          \E idr \in (IF WithInit THEN RandomSubset(2, [1..Len(sh.vars) -> 1..3]) ELSE {[i \in 1..Len(sh.vars) |-> 1]}) :
             inst = Inst(name, sh, td, vd, mode, idr)
Next == UNCHANGED inst
Emit == PrintT(<<"INST", ToJson(inst), ToJson([opt |-> Opt(inst), nopt |-> Cardinality(OptSet(inst))])>>)
====
