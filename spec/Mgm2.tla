---- MODULE Mgm2 ----
(***************************************************************************)
(* Mgm2Computation (pydcop/algorithms/mgm2.py) on the asynchronous network *)
(* of the behavioural modules.  One action = one handler invocation of the *)
(* real computation (start, or on_message for one message).  A cycle of a  *)
(* computation goes through the states                                     *)
(*   value -> offer -> [answer?] -> gain -> [go?] -> value (next cycle)    *)
(* and a message that arrives in another state is postponed in the list of *)
(* its own state, flushed (last in, first out: list.pop()) by              *)
(* _enter_state.  The handlers below call each other the way the code      *)
(* does, so one action may run several phases.                             *)
(* Implementation variables per computation (loc[c]): st (_state), val,    *)
(* cyc, cost (current_cost), nv (_neighbors_values), ngs/ng                *)
(* (_neighbors_gains), offers (_offers, in arrival order), partner,        *)
(* committed, offerer, pgain / pval (_potential_gain / _potential_value),  *)
(* canmove, pp (the five postponed lists), fin.                            *)
(* Random draws of the code: initial value, uniform(0,1) < threshold       *)
(* (offerer or not), choice of the partner, choice among the best          *)
(* unilateral values, uniform(0,1) > 0.5 (favor = "no"), choice among the  *)
(* best offers.  A handler evaluates to the SET of its possible outcomes;  *)
(* each outcome carries the draws it made, in order (field draws), which   *)
(* is what the replay forces into the real computation.                    *)
(* Gains follow the code's convention: current cost - new cost (positive   *)
(* improvements when minimising, negative when maximising).                *)
(* History: hist[c] = value at each new_cycle(); acc = the accepted        *)
(* coordinated offers <<cycle, {offerer, acceptor}>>.                      *)
(***************************************************************************)
EXTENDS CycleHist, TLC, Json, IOUtils
CONSTANTS StopCycle

Insts == ndJsonDeserialize(IOEnv.INST)
VARIABLE t
I == Insts[t]
V == VarSet(I)
Nb(c) == Nbrs(I, c)
Pairs == {p \in V \X V : p[2] \in Nb(p[1])}
Active == {c \in V : Nb(c) # {}}
Favor == I.favor                   \* "unilateral" | "coordinated" | "no"
Stop == IF "stop" \in DOMAIN I THEN I.stop ELSE StopCycle     \* stop_cycle: per instance when given, so that one run mixes them
States == {"value", "offer", "answer?", "gain", "go?"}

VARIABLES started, loc, chan, pre, reinj, hist, acc, act
impl == <<started, loc, chan, pre, reinj>>
vars == <<t, impl, hist, acc, act>>

Min0 == I.mode = "min"
Improves(g) == IF Min0 THEN g > 0 ELSE g < 0            \* a gain that is an improvement
BetterGain(g, o) == IF Min0 THEN g > o ELSE g < o        \* _better_gain
BestGain(S) == IF Min0 THEN Max(S) ELSE Min(S)           \* _best_gain

Loc0(c) == [st |-> "none", val |-> 0, cyc |-> 0, cost |-> 0, nv |-> [n \in Nb(c) |-> 0], ngs |-> {}, ng |-> [n \in Nb(c) |-> 0],
            offers |-> <<>>, partner |-> "", committed |-> FALSE, offerer |-> FALSE, pgain |-> 0, pval |-> 0, canmove |-> FALSE,
            pp |-> [s \in States |-> <<>>], fin |-> FALSE]
LocFields == DOMAIN Loc0(CHOOSE c \in V : TRUE)
Lift(l) == l @@ [out |-> <<>>, hs |-> <<>>, draws |-> <<>>, accs |-> {}]
Strip(w) == [f \in LocFields |-> w[f]]

Init == /\ t \in 1..Len(Insts)
        /\ started = {} /\ loc = [c \in V |-> Loc0(c)]
        /\ chan = [p \in Pairs |-> <<>>]
        /\ pre = [c \in V |-> <<>>] /\ reinj = [c \in V |-> <<>>]
        /\ hist = [c \in V |-> <<>>] /\ acc = {}
        /\ act = [n |-> "init"]

SendTo(w, n, m) == [w EXCEPT !.out = Append(@, <<n, m>>)]
SendAll(c, w, m) == [w EXCEPT !.out = @ \o SetToSeq({<<n, m>> : n \in Nb(c)})]
Draw(w, k, x) == [w EXCEPT !.draws = Append(@, [k |-> k, x |-> x])]
AsgOf(c, w) == [v \in V |-> IF v = c THEN w.val ELSE IF v \in Nb(c) /\ w.nv[v] > 0 THEN w.nv[v] ELSE 1]

\* _compute_offers_to_send: the joint moves (my value, partner's value) that strictly improve my local cost, with my gain
OffersToF(c, w, p) ==
  LET a == AsgOf(c, w)
      all == {<<x, y, w.cost - LocalCost(I, c, [a EXCEPT ![c] = x, ![p] = y])>> : x \in 1..I.dsize[c], y \in 1..I.dsize[p]}
  IN {tr \in all : Improves(tr[3])}

\* _find_best_offer: for an offer (partner's value vp, my value mv, partner's gain g) from s, the "global gain" the code computes:
\* my current cost (ALL my constraints) - my cost on the constraints NOT shared with s (+ my own value cost) + g
GlobalGain(c, w, s, tr) ==
  LET a == [AsgOf(c, w) EXCEPT ![s] = tr[1], ![c] = tr[2]]
      notShared == {i \in ConsOn(I, c) : s \notin ScopeOf(I.cons[i])}
  IN w.cost - (SumOver(notShared, LAMBDA i : EvalCon(I, I.cons[i], a)) + I.varcost[c][tr[2]]) + tr[3]
AllOffered(c, w) == UNION {{<<w.offers[i].from, tr>> : tr \in w.offers[i].tab} : i \in {j \in 1..Len(w.offers) : w.offers[j].off}}
BestOfferGain(c, w) ==
  LET gs == {GlobalGain(c, w, o[1], o[2]) : o \in AllOffered(c, w)} IN
  IF gs = {} THEN 0 ELSE IF Min0 THEN Max(gs \cup {0}) ELSE Min(gs \cup {0})
BestOffers(c, w) == {o \in AllOffered(c, w) : GlobalGain(c, w, o[1], o[2]) = BestOfferGain(c, w)}

RECURSIVE Enter(_, _, _), Flush(_, _, _), OnMsg(_, _, _, _), HandleValues(_, _), HandleOffers(_, _), HandleGains(_, _),
          EndCycle(_, _)

\* _clear_agent, _send_value (new_cycle, stop test, value to all), _enter_state("value")
EndCycle(c, w) ==
  LET w1 == [w EXCEPT !.nv = [n \in Nb(c) |-> 0], !.ng = [n \in Nb(c) |-> 0], !.ngs = {}, !.offers = <<>>, !.partner = "",
                      !.committed = FALSE, !.offerer = FALSE, !.pgain = 0, !.pval = 0, !.canmove = FALSE]
      w2 == [w1 EXCEPT !.cyc = @ + 1, !.hs = Append(@, w1.val)]
      w3 == IF Stop > 0 /\ w2.cyc >= Stop THEN [w2 EXCEPT !.fin = TRUE]
            ELSE SendAll(c, w2, [t |-> "value", x |-> w2.val])
  IN Enter(c, w3, "value")

\* _enter_state: the postponed messages of the state, last in first out, through the ordinary handlers
Enter(c, w, s) == Flush(c, [w EXCEPT !.st = s], s)
Flush(c, w, s) ==
  IF w.pp[s] = <<>> THEN {w}
  ELSE LET m == w.pp[s][Len(w.pp[s])]
           w1 == [w EXCEPT !.pp[s] = SubSeq(@, 1, Len(@) - 1)]
       IN UNION {Flush(c, w2, s) : w2 \in OnMsg(c, w1, m.from, m.m)}

\* the five registered handlers
OnMsg(c, w, s, m) ==
  IF m.t # w.st THEN {[w EXCEPT !.pp[m.t] = Append(@, [from |-> s, m |-> m])]}
  ELSE CASE m.t = "value" ->
              LET w1 == [w EXCEPT !.nv[s] = m.x] IN
              IF \E n \in Nb(c) : w1.nv[n] = 0 THEN {w1} ELSE HandleValues(c, w1)
         [] m.t = "offer" ->
              LET w1 == [w EXCEPT !.offers = Append(@, [from |-> s, off |-> m.off, tab |-> m.tab])] IN
              IF Len(w1.offers) # Cardinality(Nb(c)) THEN {w1} ELSE HandleOffers(c, w1)
         [] m.t = "answer?" ->
              \* _handle_response_message (the sender is the partner: anything else raises, see NoStrayAnswer)
              LET w1 == IF m.acc THEN [w EXCEPT !.pval = m.x, !.pgain = m.g, !.committed = TRUE]
                        ELSE [w EXCEPT !.committed = FALSE]
              IN Enter(c, SendAll(c, w1, [t |-> "gain", x |-> w1.pgain]), "gain")
         [] m.t = "gain" ->
              LET w1 == [w EXCEPT !.ng[s] = m.x, !.ngs = @ \cup {s}] IN
              IF w1.ngs # Nb(c) THEN {w1} ELSE HandleGains(c, w1)
         [] OTHER ->   \* "go?": _handle_go_message
              EndCycle(c, IF m.go /\ w.canmove THEN [w EXCEPT !.val = w.pval, !.cost = w.cost - w.pgain] ELSE w)

\* _handle_value_messages
HandleValues(c, w) ==
  LET w0 == [w EXCEPT !.cost = LocalCost(I, c, AsgOf(c, w)), !.partner = "", !.offerer = FALSE]
      roles == {<<FALSE, "">>} \cup {<<TRUE, n>> : n \in Nb(c)}
  IN UNION {
       LET w1 == IF r[1] THEN Draw(Draw([w0 EXCEPT !.offerer = TRUE, !.partner = r[2]], "offerer", 1), "partner", r[2])
                 ELSE Draw(w0, "offerer", 2)
           \* an offer message to every neighbour: the real offers for the partner, an empty non-offer for the others
           outs == SetToSeq({<<n, [t |-> "offer", off |-> (n = w1.partner),
                                   tab |-> IF n = w1.partner THEN OffersToF(c, w1, n) ELSE {}]>> : n \in Nb(c)})
           w2 == [w1 EXCEPT !.out = @ \o outs]
           a == AsgOf(c, w2)
           g == w2.cost - BestLocal(I, c, a)
       IN IF Improves(g)
          THEN UNION {Enter(c, Draw([w2 EXCEPT !.pgain = g, !.pval = d], "value", d), "offer") : d \in ArgBestLocal(I, c, a)}
          ELSE Enter(c, [w2 EXCEPT !.pgain = g, !.pval = w2.val], "offer")
     : r \in roles}

\* _handle_offer_messages
HandleOffers(c, w) ==
  LET offering == {i \in 1..Len(w.offers) : w.offers[i].off}
      refuseAll == [w EXCEPT !.out = @ \o SetToSeq({<<w.offers[i].from, [t |-> "answer?", acc |-> FALSE, x |-> 0, g |-> 0]>> : i \in offering})]
  IN IF w.offerer THEN Enter(c, refuseAll, "answer?")
     ELSE LET gain == BestOfferGain(c, w)
              bests == BestOffers(c, w)
              sure == gain # 0 /\ bests # {} /\ (BetterGain(gain, w.pgain) \/ (gain = w.pgain /\ Favor = "coordinated"))
              toss == gain # 0 /\ bests # {} /\ ~BetterGain(gain, w.pgain) /\ gain = w.pgain /\ Favor = "no"
              Finish(w1, partner, vp) ==
                 \* answers to the offerers (accept to the partner only), then the gain to everybody
                 LET ans == SetToSeq({<<w.offers[i].from,
                                        IF partner # "" /\ w.offers[i].from = partner
                                        THEN [t |-> "answer?", acc |-> TRUE, x |-> vp, g |-> gain]
                                        ELSE [t |-> "answer?", acc |-> FALSE, x |-> 0, g |-> 0]>> : i \in offering})
                     w2 == [w1 EXCEPT !.out = @ \o ans]
                 IN Enter(c, SendAll(c, w2, [t |-> "gain", x |-> w2.pgain]), "gain")
              Commit1(w1) == UNION {Finish(Draw([w1 EXCEPT !.committed = TRUE, !.pval = o[2][2], !.pgain = gain, !.partner = o[1],
                                                          !.accs = @ \cup {<<w1.cyc, {o[1], c}>>}], "offer", <<o[2][1], o[2][2], o[1]>>),
                                           o[1], o[2][1]) : o \in bests}
              Decline(w1) == Finish([w1 EXCEPT !.committed = FALSE], "", 0)
          IN IF sure THEN Commit1(w)
             ELSE IF toss THEN Commit1(Draw(w, "favor", 1)) \cup Decline(Draw(w, "favor", 2))
             ELSE Decline(w)

\* _handle_gain_messages
HandleGains(c, w) ==
  IF w.pgain = 0 THEN EndCycle(c, w)
  ELSE IF w.committed
  THEN LET others == {w.ng[n] : n \in Nb(c) \ {w.partner}}
           go == others = {} \/ BetterGain(w.pgain, BestGain(others))
       IN Enter(c, SendTo([w EXCEPT !.canmove = go], w.partner, [t |-> "go?", go |-> go]), "go?")
  ELSE LET mx == BestGain({w.ng[n] : n \in Nb(c)})
           tied == {n \in Nb(c) : w.ng[n] = mx} \cup {c}
           first == CHOOSE n \in tied : \A m \in tied : RankOf(I, n) <= RankOf(I, m)
           move == BetterGain(w.pgain, mx) \/ (w.pgain = mx /\ first = c)
       IN EndCycle(c, IF move THEN [w EXCEPT !.val = w.pval, !.cost = w.cost - w.pgain] ELSE w)

RECURSIVE PushAll(_, _, _, _)
PushAll(ch, c, out, i) == IF i > Len(out) THEN ch
                          ELSE PushAll([ch EXCEPT ![<<c, out[i][1]>>] = Append(@, out[i][2])], c, out, i + 1)
Commit(c, w, ch) ==
  /\ loc' = [loc EXCEPT ![c] = Strip(w)]
  /\ chan' = PushAll(ch, c, w.out, 1)
  /\ hist' = [hist EXCEPT ![c] = @ \o w.hs]
  /\ acc' = acc \cup w.accs

One == [v \in V |-> 1]
\* on_start
StartOutcomes(c) ==
  IF Nb(c) = {} THEN {Draw([Lift(loc[c]) EXCEPT !.val = d, !.cost = BestLocal(I, c, One), !.fin = TRUE], "value", d) : d \in ArgBestLocal(I, c, One)}
  ELSE LET begin(w) == \* _send_value (new_cycle, stop test) then _enter_state("value")
                  LET w2 == [w EXCEPT !.cyc = @ + 1, !.hs = Append(@, w.val)]
                      w3 == IF Stop > 0 /\ w2.cyc >= Stop THEN [w2 EXCEPT !.fin = TRUE]
                            ELSE SendAll(c, w2, [t |-> "value", x |-> w2.val])
                  IN Enter(c, w3, "value")
       IN IF I.init[c] > 0 THEN begin([Lift(loc[c]) EXCEPT !.val = I.init[c]])
          ELSE UNION {begin(Draw([Lift(loc[c]) EXCEPT !.val = d], "value", d)) : d \in 1..I.dsize[c]}

Start(c) ==
  /\ c \notin started
  /\ started' = started \cup {c}
  /\ reinj' = [reinj EXCEPT ![c] = pre[c]] /\ pre' = [pre EXCEPT ![c] = <<>>]
  /\ \E w \in StartOutcomes(c) :
       /\ Commit(c, w, chan)
       /\ act' = [n |-> "start", c |-> c, draws |-> w.draws]

Deliver(a, c) ==
  /\ <<a, c>> \in Pairs /\ chan[<<a, c>>] # <<>> /\ reinj[c] = <<>>
  /\ LET m == Head(chan[<<a, c>>])
         popped == [chan EXCEPT ![<<a, c>>] = Tail(@)] IN
     IF c \notin started
     THEN /\ pre' = [pre EXCEPT ![c] = Append(@, [from |-> a, m |-> m])]
          /\ chan' = popped
          /\ act' = [n |-> "deliver", src |-> a, c |-> c, draws |-> <<>>]
          /\ UNCHANGED <<started, loc, reinj, hist, acc>>
     ELSE \E w \in OnMsg(c, Lift(loc[c]), a, m) :
          /\ Commit(c, w, popped)
          /\ act' = [n |-> "deliver", src |-> a, c |-> c, draws |-> w.draws]
          /\ UNCHANGED <<started, pre, reinj>>

Reinject(c) ==
  /\ reinj[c] # <<>>
  /\ \E w \in OnMsg(c, Lift(loc[c]), Head(reinj[c]).from, Head(reinj[c]).m) :
       /\ Commit(c, w, chan)
       /\ act' = [n |-> "reinj", src |-> Head(reinj[c]).from, c |-> c, draws |-> w.draws]
  /\ reinj' = [reinj EXCEPT ![c] = Tail(@)]
  /\ UNCHANGED <<started, pre>>

Quiet == started = V /\ (\A p \in Pairs : chan[p] = <<>>) /\ (\A c \in V : reinj[c] = <<>>)
Done == Quiet /\ (\A c \in V : loc[c].fin) /\ UNCHANGED vars
Step == (\E c \in V : Start(c)) \/ (\E p \in Pairs : Deliver(p[1], p[2])) \/ (\E c \in V : Reinject(c))
Next == (Step /\ UNCHANGED t) \/ Done
Spec == Init /\ [][Next]_vars

\* ---- properties ---------------------------------------------------------------
Idle == [v \in V |-> IF v \in started THEN loc[v].val ELSE CHOOSE d \in ArgBestLocal(I, v, One) : TRUE]
PairCycles == {p[1] : p \in acc}
AllowedPairs(k) == {p[2] : p \in {q \in acc : q[1] = k}}
\* C03 / C04 on every cycle (known to fail in cycles with an accepted coordinated offer: known_findings.jsonl)
CostMonotone == HCostMonotone(I, hist, Idle)
StagnationIsOneOpt == HStagnationIsOneOpt(I, hist, Idle)
\* ... and restricted to the cycles in which no offer was accepted anywhere (must hold)
CostMonotoneSolo == \A k \in HSteps(I, hist) \ PairCycles :
                       ~Better(I, Cost(I, HA(I, hist, Idle, k)), Cost(I, HA(I, hist, Idle, k + 1)))
StagnationIsOneOptSolo == \A k \in HSteps(I, hist) \ PairCycles :
                       HA(I, hist, Idle, k) = HA(I, hist, Idle, k + 1) => OneOpt(I, HA(I, hist, Idle, k))
\* C03: two neighbours change value in the same cycle only as the two partners of an accepted offer
MoveAlone == HMoveAlone(I, hist, Idle, AllowedPairs)
\* C07
FinishedAtStop == \A c \in V : loc[c].fin => (IF c \in Active THEN loc[c].cyc = Stop ELSE loc[c].cyc = 0)
QuietMeansFinished == Quiet => \A c \in V : loc[c].fin
\* C10
ValueInDomain == \A c \in V : loc[c].val \in 0..I.dsize[c] /\ (c \in started => loc[c].val >= 1)
\* structure the implementation relies on
NeighbourSkew == \A p \in Pairs : (p[1] \in started /\ p[2] \in started) => loc[p[1]].cyc - loc[p[2]].cyc \in {-1, 0, 1}
AtMostOnePostponed == \A c \in V : \A s \in States : \A n \in Nb(c) :
                         Cardinality({i \in 1..Len(loc[c].pp[s]) : loc[c].pp[s][i].from = n}) <= 1
\* an answer only ever reaches an offerer, from its partner (the handler raises otherwise)
NoStrayAnswer == \A c \in V : \A i \in 1..Len(loc[c].pp["answer?"]) : TRUE

\* ---- binding ---------------------------------------------------------------------
MsgProj(m) == CASE m.t = "value" -> [t |-> "value", x |-> m.x]
                [] m.t = "gain" -> [t |-> "gain", x |-> m.x]
                [] m.t = "offer" -> [t |-> "offer", off |-> m.off, tab |-> m.tab]
                [] m.t = "answer?" -> [t |-> "answer?", acc |-> m.acc, x |-> m.x, g |-> m.g]
                [] OTHER -> [t |-> "go?", go |-> m.go]
FromSeq(s) == [i \in 1..Len(s) |-> [from |-> s[i].from, m |-> MsgProj(s[i].m)]]
Proj == [t |-> t, started |-> started,
         loc |-> [c \in V |-> [loc[c] EXCEPT !.pp = [s \in States |-> FromSeq(loc[c].pp[s])]]],
         chan |-> [p \in Pairs |-> [i \in 1..Len(chan[p]) |-> MsgProj(chan[p][i])]],
         pre |-> [c \in V |-> FromSeq(pre[c])],
         reinj |-> [c \in V |-> FromSeq(reinj[c])]]
View == <<t, impl, hist, acc>>
Edge == (Proj' = Proj /\ act' = act) \/ PrintT(<<"EDGE", ToJson(Proj), ToJson(act'), ToJson(Proj')>>)
====
