---- MODULE Repair ----
(***************************************************************************)
(* What must hold once the repair of a removal event has completed         *)
(* (orchestrator.py: _agents_removal ... _on_repair_done; agents.py:       *)
(* ResilientAgent.setup_repair / _on_repair_computation_finished).         *)
(* D: comps (original computations), alive (surviving agents), left,       *)
(*    hostBefore[c], repsBefore[c] (directory replicas before the event).  *)
(* O: hosted[a] (computations actually hosted by alive agent a),           *)
(*    dir[c] (directory entry, "" if none), status (reported: "OK", "KO"   *)
(*    or "" if the repair never completed).                                *)
(***************************************************************************)
EXTENDS Integers, Sequences, FiniteSets, TLC

HostsOf(D, O, c) == {a \in D.alive : c \in O.hosted[a]}
HostedOnce(D, O) == \A c \in D.comps : Cardinality(HostsOf(D, O, c)) = 1
DirectoryAgrees(D, O) == \A c \in D.comps : \A a \in HostsOf(D, O, c) : O.dir[c] = a
OnReplicaHolder(D, O) == \A c \in D.comps : D.hostBefore[c] \in D.left =>
                            \A a \in HostsOf(D, O, c) : a \in D.repsBefore[c]
Untouched(D, O) == \A c \in D.comps : D.hostBefore[c] \notin D.left => HostsOf(D, O, c) = {D.hostBefore[c]}
Repaired(D, O) == HostedOnce(D, O) /\ DirectoryAgrees(D, O) /\ OnReplicaHolder(D, O) /\ Untouched(D, O)

BadRepair(D, O) ==
  (IF O.status = "" THEN {"repair_never_completed"} ELSE {})
  \cup (IF O.status # "" /\ ~HostedOnce(D, O) THEN {"computation_not_hosted_exactly_once"} ELSE {})
  \cup (IF O.status # "" /\ HostedOnce(D, O) /\ ~DirectoryAgrees(D, O) THEN {"directory_disagrees_with_actual_host"} ELSE {})
  \cup (IF O.status # "" /\ ~OnReplicaHolder(D, O) THEN {"rehosted_on_agent_without_replica"} ELSE {})
  \cup (IF O.status # "" /\ ~Untouched(D, O) THEN {"computation_of_surviving_agent_moved"} ELSE {})
  \cup (IF O.status = "OK" /\ ~Repaired(D, O) THEN {"status_OK_although_not_repaired"} ELSE {})
====
