---- MODULE Judge_C21 ----
(***************************************************************************)
(* Judge for C21 (AgentThread): a run of the orchestrated runtime in       *)
(* thread mode is recorded as                                              *)
(*   owner  : [agent -> thread id of that agent's own thread (Agent.t)]    *)
(*   events : Seq([agent, comp, kind, tid, ph])  callbacks of computations *)
(*            hosted on agents: kind in {start, on_message, pause,         *)
(*            periodic, discovery_cb}, ph = "enter" | "exit", in the       *)
(*            global order given by an atomic counter.                     *)
(* Every callback of a computation hosted on agent a must run on owner[a]; *)
(* at no time are callbacks of one agent active on two threads.            *)
(***************************************************************************)
EXTENDS Integers, Sequences, FiniteSets, TLC, Json, IOUtils
H == ndJsonDeserialize(IOEnv.TRACE_FILE)
RECURSIVE Overlap(_, _, _)
\* active: [agent -> set of tids with a callback in progress]; returns the agents on which two threads were active together
Overlap(ev, i, active) ==
  IF i > Len(ev) THEN {}
  ELSE LET e == ev[i]
           cur == IF e.agent \in DOMAIN active THEN active[e.agent] ELSE {}
           nxt == IF e.ph = "enter" THEN cur \cup {e.tid} ELSE cur \ {e.tid} IN
       (IF Cardinality(nxt) > 1 THEN {e.agent} ELSE {})
       \cup Overlap(ev, i + 1, (e.agent :> nxt) @@ active)
BadOf(h) ==
  {<<"callback_on_foreign_thread", h.events[i].agent, h.events[i].comp, h.events[i].kind>> :
       i \in {j \in 1..Len(h.events) : h.events[j].ph = "enter" /\ h.events[j].tid # h.owner[h.events[j].agent]}}
  \cup {<<"two_threads_in_one_agent", a, "", "">> : a \in Overlap(h.events, 1, <<>>)}
VARIABLE k
Init == k \in 1..Len(H)
Next == UNCHANGED k
Emit == PrintT(<<"VERDICT", ToJson([id |-> H[k].id, bad |-> BadOf(H[k])])>>)
====
