---- MODULE Gen_C28 ----
(***************************************************************************)
(* Case generator + oracle for C28.  Algos: the REAL algo_params tables of *)
(* the shipped algorithm modules (read by the harness and passed as a      *)
(* constant), plus a synthetic table exercising what the shipped ones do   *)
(* not (free strings, enumerated ints, None defaults).  For each table:    *)
(* every subset of the parameters, every kind of user value per parameter, *)
(* with or without an undeclared parameter.                                *)
(***************************************************************************)
EXTENDS Params, Json, Randomization
CONSTANTS Algos,     \* sequence of [algo |-> name, defs |-> Seq(def)]
          MaxCases   \* per algorithm; 0 = all

\* the user values tried for a parameter definition
Choices(d) ==
  {Absent} \cup
  CASE d.type = "int" /\ d.values = <<>>   -> {IntV(3), StrV("4", "int", 8), StrV("abc", "none", 0), StrV("2.5", "float", 5),
                                               IntV(0), StrV("0", "int", 0), StrV("", "none", 0)}
    [] d.type = "int"                      -> {d.values[Len(d.values)], StrV("1", "int", 2), IntV(77), StrV("77", "int", 154)}
    [] d.type = "float" /\ d.values = <<>> -> {FloatH(5), StrV("1.5", "float", 3), IntV(2), StrV("3", "int", 6), StrV("abc", "none", 0),
                                               FloatH(0), StrV("0", "int", 0), StrV("", "none", 0)}
    [] d.type = "float"                    -> {d.values[1], FloatH(77), StrV("abc", "none", 0), StrV("77", "int", 154), IntV(77),
                                               StrV("1.5", "float", 3), StrV("2.5", "float", 5)}
    [] d.type = "str" /\ d.values = <<>>   -> {StrV("hello", "none", 0), StrV("7", "int", 14), IntV(3)}
    [] OTHER                               -> {d.values[Len(d.values)], d.values[1], StrV("ZZ", "none", 0), IntV(3), StrV("", "none", 0)}

RECURSIVE Givens(_)
Givens(defs) == IF defs = <<>> THEN {<<>>}
                ELSE {<<c>> \o rest : c \in Choices(defs[1]), rest \in Givens(Tail(defs))}

CasesOf(a) == {[algo |-> a.algo, defs |-> a.defs, given |-> g, unknown |-> u, exp |-> Prepare(a.defs, g, u)] :
                 g \in Givens(a.defs), u \in BOOLEAN}
Limited(S) == IF MaxCases = 0 \/ Cardinality(S) <= MaxCases THEN S ELSE RandomSubset(MaxCases, S)

VARIABLE case
Init == \E i \in 1..Len(Algos) : case \in Limited(CasesOf(Algos[i]))
Next == UNCHANGED case
Emit == PrintT(<<"CASE", ToJson([algo |-> case.algo, given |-> case.given, unknown |-> case.unknown, exp |-> case.exp])>>)
====
