---- MODULE Judge_C15 ----
(***************************************************************************)
(* Judge for C15: an object sent between agents (message, computation      *)
(* definition, agent definition) is observed, before and after the wire    *)
(* (simple_repr -> JSON text -> from_repr, or pickle for agent definitions)*)
(* as a set of facts "path = value" (fields, links with their types and    *)
(* ends, neighbours, relation value on every assignment, costs).  The      *)
(* round trip is a stuttering step on this observation (Wire.tla): the two *)
(* sets must be equal; the facts lost or invented are reported.            *)
(***************************************************************************)
EXTENDS Wire, Json, IOUtils
H == ndJsonDeserialize(IOEnv.TRACE_FILE)
ToSetOf(x) == {x[i] : i \in 1..Len(x)}
BadOf(h) == IF h.exc # "" THEN {<<"round_trip_raised", h.exc>>}
            ELSE {<<"lost", f>> : f \in ToSetOf(h.before) \ ToSetOf(h.after)}
                 \cup {<<"invented", f>> : f \in ToSetOf(h.after) \ ToSetOf(h.before)}
VARIABLE k
Init == k \in 1..Len(H)
Next == UNCHANGED k
Emit == PrintT(<<"VERDICT", ToJson([id |-> H[k].id, bad |-> BadOf(H[k])])>>)
====
