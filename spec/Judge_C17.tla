---- MODULE Judge_C17 ----
(***************************************************************************)
(* Judge for C17: each line of the batch is a DCOP structure together with *)
(* the pseudo-tree the REAL builder returned for it (projected to parent / *)
(* children / pseudo-parents / pseudo-children / constraint names), or the *)
(* exception it raised.  TLC evaluates Graphs!PTBad (small graphs: full    *)
(* definition with the ancestor closure) or Graphs!PTBadCert (large        *)
(* graphs: local conditions over DFS numbers attached by the harness).     *)
(***************************************************************************)
EXTENDS Graphs, TLC, Json, IOUtils

Cases == ndJsonDeserialize(IOEnv.TRACE_FILE)
ToSetOf(s) == {s[i] : i \in 1..Len(s)}
TreeOf(c) == [v \in DOMAIN c.t |-> [parent |-> c.t[v].parent, children |-> ToSetOf(c.t[v].children),
                                     pparents |-> ToSetOf(c.t[v].pparents), pchildren |-> ToSetOf(c.t[v].pchildren),
                                     cons |-> ToSetOf(c.t[v].cons)]]
BadOf(c) == IF c.exc # "" THEN {"construction_raised"}
            ELSE IF \E v \in DOMAIN c.t : Len(c.t[v].children) # Cardinality(ToSetOf(c.t[v].children))
                                          \/ Len(c.t[v].pparents) # Cardinality(ToSetOf(c.t[v].pparents))
                                          \/ Len(c.t[v].pchildren) # Cardinality(ToSetOf(c.t[v].pchildren))
                                          \/ Len(c.t[v].cons) # Cardinality(ToSetOf(c.t[v].cons))
                 THEN {"duplicate_link_or_constraint"}
            ELSE IF c.mode = "full" THEN PTBad(c.inst, TreeOf(c))
            ELSE PTBadCert(c.inst, TreeOf(c), c.pre, c.post)

VARIABLE k
Init == k \in 1..Len(Cases)
Next == UNCHANGED k
Emit == PrintT(<<"VERDICT", ToJson([id |-> Cases[k].id, bad |-> BadOf(Cases[k])])>>)
====
